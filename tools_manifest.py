#!/usr/bin/env python3
"""Regenerates MANIFEST.json from the table below (kept valid at all times)."""
import json, os, sys
HERE = os.path.dirname(os.path.abspath(__file__))
PROPS = [json.loads(l)['id'] for l in open(os.path.join(HERE, 'properties.jsonl'))]

# id -> (category, technique, text, note, design_ref)
CLAIMED = {
 'C06': ('exploration',
         'exhaustive bounded enumeration of input texts (token strings, line sequences, statement forms x operand faults, nesting ladders, corpus edits) against the real compiler in 6 configurations',
         'Every text of the bounded spaces is compiled by the real compiler at O0..O2 with and without -g; the oracle is totality (module+listing, or Syntax/CompileError with a position inside the text, within a time limit). Complete for the stated bounds; nothing claimed above them.',
         'Trusts the per-line parse memo (conformance-checked) and the 10 s per-compile time limit as the meaning of "terminates".',
         'DESIGN.md section 4, C06'),
}
NA_REASON = 'check not built yet in this session (planned, see DESIGN.md section 4); not claimed until it exists and is silent on the unchanged tree'

def main():
    checks = []
    for pid in PROPS:
        if pid not in CLAIMED:
            continue
        cat, tech, text, note, ref = CLAIMED[pid]
        checks.append({
            'property_id': pid,
            'quick_cmd': f'bin/check {pid} --tier quick',
            'thorough_cmd': f'bin/check {pid} --tier thorough',
            'evidence_file': f'/verif/evidence/{pid}.json',
            'replay_cmd_template': f'bin/check {pid} --replay {{path}}',
            'engine': 'qv',
            'level_claimed': {'category': cat, 'text': text, 'design_ref': ref},
            'level_note': note,
            'technique': tech,
        })
    m = {
        'version': 1,
        'setup_cmd': 'bin/setup',
        'hooks': {
            'guard': 'QBEE_VERIF',
            'enable': 'no source hooks are needed: every observation point is reachable through the public API (bin/check sets QBEE_VERIF=1 for uniformity)',
            'baseline_off_cmd': 'cd /repo && /venv/bin/python -m pytest -ra -q -p no:cacheprovider --timeout=900 --continue-on-collection-errors',
            'source_commits': [],
            'add_only': True,
        },
        'engines': [{'name': 'qv', 'path': '/verif/qv', 'serves_properties': sorted(CLAIMED),
                     'kind_free_text': 'hand-written explicit-state / bounded-exhaustive explorers in Python driving the real qbee compiler, QVM and debugger'}],
        'checks': checks,
        'not_applicable': [{'property_id': p, 'reason': NA_REASON} for p in PROPS if p not in CLAIMED],
        'notes': 'All checks run the real code from /repo\'s working tree; see DESIGN.md. known_findings.json lists genuine defects (open / fixed).',
    }
    with open(os.path.join(HERE, 'MANIFEST.json'), 'w') as f:
        json.dump(m, f, indent=1)
    print('MANIFEST.json: claimed', sorted(CLAIMED), 'not_applicable', len(m['not_applicable']))

if __name__ == '__main__':
    main()
