#!/usr/bin/env python3
"""Regenerates MANIFEST.json from the table below (kept valid at all times)."""
import json, os, sys
HERE = os.path.dirname(os.path.abspath(__file__))
PROPS = [json.loads(l)['id'] for l in open(os.path.join(HERE, 'properties.jsonl'))]

# id -> (category, technique, text, note, design_ref)
CLAIMED = {
 'C06': ('exploration',
         'exhaustive bounded enumeration of input texts (token strings, line sequences, statement forms x operand faults, nesting ladders, corpus edits) against the real compiler in 6 configurations',
         'Every text of the bounded spaces is compiled by the real compiler at O0..O2 with and without -g; the oracle is totality (module+listing, or Syntax/CompileError with a position inside the text, within a time limit). Complete for the stated bounds; nothing claimed above them.',
         'Trusts the per-line parse memo (conformance-checked) and the 10 s per-compile time limit as the meaning of "terminates".',
         'DESIGN.md section 4, C06'),
 'C08': ('exploration',
         'exhaustive bounded enumeration of programs (all block-shape nestings up to depth 2 with empty and non-empty bodies, plus the repository corpus) compiled with and without -g at O0..O2 and run on the real VM; differential oracle',
         'For every program of the bounded families the -g and no -g builds must agree on the verdict, on sections 1-3 byte for byte and on the device trace and outcome under a scripted environment (programs executing RESUME / RESUME NEXT exempt from the run comparison, as the property allows). Complete for the stated bounds.',
         'Differential only: says nothing about whether both builds are right (C01) and nothing above the nesting bound.',
         'DESIGN.md section 4, C08'),
 'C12': ('model_checking',
         'explicit-state breadth-first search over debugger command histories (step, next, stepi, nexti, continue, break L, delbr L) with state hashing, every transition a real Cmd.onecmd() on the real VM; oracle = the free run of the same module',
         'All command histories up to length 4 (quick) / 6 (thorough) over the full command alphabet on 19 debuggee programs at O0 and O2 are executed on the real debugger; every stop must be a state of the free run (transparency), and the per-command stop rules of the property are evaluated on every transition. States are deduplicated by a structural hash of VM state + breakpoints + finished flag.',
         'Bounded by the debuggee set and history length; statement attribution is taken from the debug map (C11). The three genuine defects it found were repaired in /repo (fix: commits c4dd8ee, fa9b4a0, e4d97da).',
         'DESIGN.md section 4, C12'),
 'C17': ('exploration',
         'exhaustive bounded enumeration of PRINT item/separator sequences (up to length 5 quick, 6-7 thorough, 11 item values x 2 separators; 4 ways of computing an item x 5 statement positions x 6 configurations on a sub-bound) compiled and run on the real VM against a layout reference model',
         'Every grammatical element sequence below the bound is compiled as a PRINT statement, executed, and the text given to the terminal compared with a 20-line model of the property statement (number text + blank, strings verbatim, 14-column zones, line end rule).',
         'Item values are a boundary alphabet (zone widths 13/14/15/30, empty string, every numeric type), not all values; number-to-text itself is C16.',
         'DESIGN.md section 4, C17'),

 'C01': ('exploration',
         'exhaustive bounded enumeration of typed programs (12 families: operators x operand types x boundary values, builtins, conversions, control-structure lists and nestings, FOR at type limits, SELECT, procedures with by-ref/by-value arguments and recursion, CONST/DEFtype/scoping, arrays and records, device statements, INPUT/INKEY$/RND/TIMER scripts) compiled in 6 configurations and run on the real VM in lock-step with an independent reference interpreter',
         'Every program of the bounded families is compiled at O0..O2 with and without -g, executed on the real VM under a scripted environment, and its typed device-interaction trace and outcome (end / error class / failing line) compared with the reference interpreter qv.ref.interp (semantics written down in docs/REFSEM.md). Complete for the stated family bounds.',
         'The reference interpreter is itself unverified (its calibration points are listed in docs/REFSEM.md); value domains are boundary alphabets; nothing claimed above the size/nesting bounds.',
         'DESIGN.md section 4, C01'),
 'C02': ('exploration',
         'exhaustive bounded enumeration: (a) generated programs (statement atoms x block wrappers, sequences) and the corpus compiled at O0..O3 with and without -g, O0 as oracle; (b) all constant expressions op a, a op b, (a op b) op c over boundary literals in three guises against run-time evaluation through variables; (c) all instruction windows up to length 3 (thorough 4) over the peephole alphabet executed on the real CPU before and after QvmCode.optimize()',
         'Differential: all optimisation levels must agree on acceptance, device trace, outcome and trap line; every compile-time computed value must equal the unoptimised run-time value and a run-time failure must stay a run-time failure; every peephole rewrite must preserve stack, variables, trace and trap position of the window. Complete for the stated bounds.',
         'Says nothing about whether O0 itself is right (C01). Boundary literal alphabet, window length and program size are bounded.',
         'DESIGN.md section 4, C02'),
 'C03': ('model_checking',
         'explicit-state exploration of a type-state abstraction of every emitted module (all paths: both arms of each jz, every call/return, GOSUB depth <= 3) with the safety invariants of the property evaluated in every abstract state, bound to the code by a tick-level concrete monitor: every concrete (pc, stack tags) of real runs must lie in the abstract reachable set',
         'For each module of the bounded program space (generated programs, corpus, debuggee programs; 6 configurations) the abstraction is explored exhaustively; invariants: no operand-type confusion, no stack underflow, no undefined opcode, accesses inside frame/global area, control transfers to instruction starts, stored type = slot type, balanced stack at statement boundaries. Concrete runs are monitored per tick and replay the abstraction (conformance).',
         'The abstraction forgets values (both branch arms explored), so language-level traps end a path; soundness of the abstraction rests on the per-tick conformance replay, not on proof.',
         'DESIGN.md section 4, C03'),
 'C04': ('model_checking',
         'explicit-state breadth-first search on the real VM (state hashing of canonical machine state) over write/read operation sequences given as environment input to one compiled driver per declaration list (15 shapes x 6 storage classes, lists, sandwiches, recursion, by-reference), against a dict store model',
         'All operation sequences up to the depth bound on every declaration list of the bounded catalogue are executed on the real VM; after every transition the text printed and full dumps (constant and computed subscripts, caller view after return, unwind of recursion) must equal a location->value dictionary model.',
         'Bounded catalogue of declaration shapes and depths; values are small sentinels; FUNCTION procedures, REDIM/ERASE not covered.',
         'DESIGN.md section 4, C04'),
 'C05': ('fault_enumeration',
         'exhaustive single-fault enumeration: 26 static rules / 337 fault variants injected at every applicable site of 14 contexts x 2 base programs (plus nested context pairs and unrelated-construct twins), each text compiled in 6 configurations',
         'Every faulted text must be rejected in all 6 configurations with the error category of its rule and a position on the line of the offending construct, its un-faulted twin (also with an unrelated construct added elsewhere) must compile, and the command-line error display must succeed. Complete for the catalogue.',
         'One fault at a time; column and message text are not judged; catalogue of rules is finite.',
         'DESIGN.md section 4, C05'),
 'C07': ('model_checking',
         'exhaustive enumeration of run-time failure programs and device answers (deviation-bounded: device failures, missing peripherals, non-finite answers) plus an interrupt-schedule explorer that injects the interrupt request at every instruction boundary of every run of a program catalogue, on the real VM',
         'No host exception may escape tick()/run(); every run ends in halt, end of code or a trap whose category matches the cause; an interrupt injected at any instruction boundary with no handler armed stops the run with KEYBOARD_INTERRUPT before any further device event or memory change. Complete for the catalogues and deviation bound stated in the evidence.',
         'Program catalogue and answer menus are finite; deviation bound as reported.',
         'DESIGN.md section 4, C07'),
 'C09': ('exploration',
         'exhaustive bounded enumeration of programs (corpus, 131 statement templates x lvalues x contexts, all 255 cp437 bytes x 6 positions, DATA layouts, synthesised/compiled size boundaries at 0/1/255/256/32767/32768/65535/65536) x 6 configurations; cross-agreement of bytes(code), QModule.parse, disassemble(), str(code) through an independent decoder and layout model',
         'For every accepted program the loader must recover literals, DATA (empty vs "" distinct), global size and the instruction sequence; disassembly = listing = bytes; every jump/call/handler operand is an instruction start; variable operands lie inside frame/global area; frame declarations equal the storage computed by an independent layout model from the listing.',
         'Differential between views plus an independent layout model; sizes above the stated boundaries not explored.',
         'DESIGN.md section 4, C09'),
 'C10': ('model_checking',
         'exhaustive enumeration of handler skeletons (5 arming/handler modes x bodies of failable statements from a 19-form alphabet) x all fault plans (which statements fail, with which of 5 error kinds, at 4 expression depths) given as environment input, run on the real VM at O0..O2 with -g; statement-level reference model + state differential',
         'Every fault plan of every skeleton is executed; the device trace, end class and ERR must match a statement-level reference model of ON ERROR/RESUME/RESUME NEXT; after resuming, operand-stack depth and the whole machine state at later statement boundaries must equal those of the run in which the failed statement was absent; the epilogue exercises GOSUB/RETURN, CALL, FOR, FUNCTION.',
         'Skeleton alphabet and body length bounded; cells the property leaves open (block headers, errors inside procedures beyond handler entry and ERR) are wildcards.',
         'DESIGN.md section 4, C10'),
 'C11': ('exploration',
         'exhaustive bounded enumeration of tagged programs (block shapes to depth 2, 48 statement kinds x block positions, failing headers/terminators, adjacent construct pairs, layout variants, corpus) compiled with -g at O0..O2; structural invariants of the debug map + ground truth from tags, announced device events and constructed error addresses',
         'For every module: statement ranges begin/end on instruction boundaries, are laminar and nest like the source, cover every routine-body instruction exactly once at the innermost level, routine records equal routine extents recovered from call targets; every executed io instruction and every trap address is attributed (find_stmt) to the statement that caused it, with the right line and source extract.',
         'Bounded program families; a statement is allowed to have no code.',
         'DESIGN.md section 4, C11'),
 'C13': ('model_checking',
         'exhaustive exploration of debugger stop points (every stop of step^k on 12 debuggees at O0/O2) x all well-typed expressions up to one operator over the names in scope (plus unknown names, bad subscripts, finished program), each a real Cmd.onecmd("print ...") compared with the program\'s own value obtained from a probe variant on a forked machine',
         'At every stop the debugger value must equal the typed value the program itself computes for the same expression at the same point; evaluation must leave the canonical machine state and device trace unchanged, must never raise out of onecmd, and must report unknown names / bad subscripts as errors.',
         'Quick tier only is registered: the thorough tier (two-operator expressions) still reports consequences of ledgered evaluator defects that are not yet triaged. Debuggee set and expression depth bounded.',
         'DESIGN.md section 4, C13'),
 'C14': ('exploration',
         'exhaustive enumeration of behaviour-neutral rewritings (26 rules: case, blanks, comments/lines, colon split/join, LET/CALL/NEXT/<> optional syntax, label and line-number renaming) at every applicable site, all sites at once, and all rule pairs (thorough: triples) over the corpus and 35 multi-feature programs; original vs rewritten compiled without parse cache',
         'Every rewritten text must be accepted iff the original is and produce byte-identical sections 1-4, or at least the same device trace and outcome. Own tokenizer (no qbee import); strings, comments, DATA bodies and numerals are never rewritten.',
         'Conservative rule applicability (sites where neutrality is unclear are skipped); program set finite.',
         'DESIGN.md section 4, C14'),
 'C15': ('model_checking',
         'explicit-state breadth-first search on the real VM over READ/RESTORE operation sequences (environment input to one driver per arrangement of DATA statements, labels, line numbers, SUBs and executed code), closed state graphs (cursor-only state) against an item-list/cursor model; plus exhaustive DATA texts up to length 5 (thorough 6-8) over a 6-symbol alphabet against a reference tokenizer and a conversion matrix',
         'Every arrangement below the bound is explored until the state graph closes (so the verdict holds for operation sequences of any length on that arrangement); every transition must deliver the item the cursor model prescribes or the prescribed error. Tokenisation and item conversion are compared with a three-valued reference on every text of the bounded alphabet.',
         'Arrangements up to 4 (thorough 5) elements; texts with a quote inside an unquoted item or text after a closing quote are unspecified.',
         'DESIGN.md section 4, C15'),
 'C16': ('exploration',
         'exhaustive enumeration of all 65536 INTEGER values and complete structured sets of LONG/SINGLE/DOUBLE values (powers of 2 and 10 +-1 ulp, limits, subnormals, all short mantissas x all exponents, decimal rounding boundaries) through compiled PRINT, STR$, VAL, INPUT and READ on the real VM against exact rational arithmetic',
         'For every value: the text is the plain decimal form (integers) or a numeral of <= 7/17 significant digits within half a unit of its last digit of the exact value; PRINT and STR$ agree; a number and its negation show the same digits; VAL, INPUT and READ of the text give the value back to that precision.',
         'LONG/SINGLE/DOUBLE are structured sets, not all bit patterns.',
         'DESIGN.md section 4, C16'),
 'C18': ('model_checking',
         'explicit-state exploration on the real VM of all response-line histories (up to 2-3 rejected lines over a 16-28 line alphabet, closed with a valid line) for INPUT statements over prompt forms x same-line flag x 1-3 variables x 5 types x target kinds x placements, at O0/O2 with and without -g; acceptance model + state equality',
         'Prompt protocol text, accept/reject decision, converted values and types are compared with a three-valued acceptance model written from the statement; the canonical machine state and continuation trace after [bad..., good] must equal those after [good]; all four configurations must agree.',
         'Cells the statement leaves open (empty numeric field, quoted fields, &H, blank-padded numbers) are only checked for cross-configuration agreement.',
         'DESIGN.md section 4, C18'),
 'C19': ('exploration',
         'exhaustive enumeration of all PRINT USING format strings up to length 4 (thorough 6) over a 10-symbol alphabet x 61 statement shapes x boundary values, through one compiled looping program on the real VM (format and values are environment input), against a three-valued field model; direct-formatter path conformance-checked against the compiled path',
         'Every well-formed cell must print the model text: literals and escaped characters copied, & and ! fields, numeric fields rounded to the field decimals, right-aligned in exactly the field width including sign position, thousands separators, % only on overflow, values consumed left to right, line-break rule.',
         'Malformed field shapes, exact binary rounding ties and mismatched value lists are unspecified (no crash is C07).',
         'DESIGN.md section 4, C19'),
 'C20': ('exploration',
         'exhaustive enumeration of compile histories (all sequences up to the bound over a program alphabet incl. failing compiles, DEFtype, TYPE, -g and level changes) in one process vs a fresh process x hash seeds x working directories; run repetitions',
         'Sections 1-4 and the listing must be byte-identical across processes, hash seeds, working directories and preceding compile histories; repeated runs of a module with the same script must give the same trace, outcome and tick count.',
         'Independence of wall-clock time is an assumption (no clock seam in the compiler).',
         'DESIGN.md section 4, C20'),
}
NA_REASON = 'check built (qv/checks) but not yet silent on the repaired tree in this session: triage in progress; not claimed until it is'

ENABLED = {'C%02d' % i for i in range(1, 21)}
QUICK_ONLY = {'C01', 'C02', 'C06', 'C07', 'C12', 'C13'}   # thorough tiers are added once seen to exit 0 on the repaired tree

def main():
    checks = []
    for pid in PROPS:
        if pid not in CLAIMED or pid not in ENABLED:
            continue
        cat, tech, text, note, ref = CLAIMED[pid]
        entry = {
            'property_id': pid,
            'quick_cmd': f'bin/check {pid} --tier quick',
            'thorough_cmd': f'bin/check {pid} --tier thorough',
            'evidence_file': f'/verif/evidence/{pid}.json',
            'replay_cmd_template': f'bin/check {pid} --replay {{path}}',
            'engine': 'qv',
            'level_claimed': {'category': cat, 'text': text, 'design_ref': ref},
            'level_note': note,
            'technique': tech,
        }
        if pid in QUICK_ONLY:
            del entry['thorough_cmd']
        checks.append(entry)
    m = {
        'version': 1,
        'setup_cmd': 'bin/setup',
        'hooks': {
            'guard': 'QBEE_VERIF',
            'enable': 'no source hooks are needed: every observation point is reachable through the public API (bin/check sets QBEE_VERIF=1 for uniformity)',
            'baseline_off_cmd': 'cd /repo && /venv/bin/python -m pytest -ra -q -p no:cacheprovider --timeout=900 --continue-on-collection-errors',
            'source_commits': [],
            'add_only': True,
        },
        'engines': [{'name': 'qv', 'path': '/verif/qv', 'serves_properties': sorted(ENABLED),
                     'kind_free_text': 'hand-written explicit-state / bounded-exhaustive explorers in Python driving the real qbee compiler, QVM and debugger'}],
        'checks': checks,
        'not_applicable': [{'property_id': p, 'reason': NA_REASON} for p in PROPS if p not in ENABLED],
        'notes': 'All checks run the real code from /repo\'s working tree; see DESIGN.md. known_findings.json lists genuine defects (open / fixed).',
    }
    with open(os.path.join(HERE, 'MANIFEST.json'), 'w') as f:
        json.dump(m, f, indent=1)
    print('MANIFEST.json: claimed', sorted(ENABLED), 'not_applicable', len(m['not_applicable']))

if __name__ == '__main__':
    main()
