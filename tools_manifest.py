#!/usr/bin/env python3
"""Regenerates MANIFEST.json from the table below (kept valid at all times)."""
import json, os, sys
HERE = os.path.dirname(os.path.abspath(__file__))
PROPS = [json.loads(l)['id'] for l in open(os.path.join(HERE, 'properties.jsonl'))]

# id -> (category, technique, text, note, design_ref)
CLAIMED = {
 'C06': ('exploration',
         'exhaustive bounded enumeration of input texts (token strings, line sequences, statement forms x operand faults, nesting ladders, corpus edits) against the real compiler in 6 configurations',
         'Every text of the bounded spaces is compiled by the real compiler at O0..O2 with and without -g; the oracle is totality (module+listing, or Syntax/CompileError with a position inside the text, within a time limit). Complete for the stated bounds; nothing claimed above them.',
         'Trusts the per-line parse memo (conformance-checked) and the 10 s per-compile time limit as the meaning of "terminates".',
         'DESIGN.md section 4, C06'),
 'C08': ('exploration',
         'exhaustive bounded enumeration of programs (all block-shape nestings up to depth 2 with empty and non-empty bodies, plus the repository corpus) compiled with and without -g at O0..O2 and run on the real VM; differential oracle',
         'For every program of the bounded families the -g and no -g builds must agree on the verdict, on sections 1-3 byte for byte and on the device trace and outcome under a scripted environment (programs executing RESUME / RESUME NEXT exempt from the run comparison, as the property allows). Complete for the stated bounds.',
         'Differential only: says nothing about whether both builds are right (C01) and nothing above the nesting bound.',
         'DESIGN.md section 4, C08'),
 'C12': ('model_checking',
         'explicit-state breadth-first search over debugger command histories (step, next, stepi, nexti, continue, break L, delbr L) with state hashing, every transition a real Cmd.onecmd() on the real VM; oracle = the free run of the same module',
         'All command histories up to length 4 (quick) / 6 (thorough) over the full command alphabet on 19 debuggee programs at O0 and O2 are executed on the real debugger; every stop must be a state of the free run (transparency), and the per-command stop rules of the property are evaluated on every transition. States are deduplicated by a structural hash of VM state + breakpoints + finished flag.',
         'Bounded by the debuggee set and history length; statement attribution is taken from the debug map (C11). The three genuine defects it found were repaired in /repo (fix: commits c4dd8ee, fa9b4a0, e4d97da).',
         'DESIGN.md section 4, C12'),
 'C17': ('exploration',
         'exhaustive bounded enumeration of PRINT item/separator sequences (up to length 5 quick, 6-7 thorough, 11 item values x 2 separators; 4 ways of computing an item x 5 statement positions x 6 configurations on a sub-bound) compiled and run on the real VM against a layout reference model',
         'Every grammatical element sequence below the bound is compiled as a PRINT statement, executed, and the text given to the terminal compared with a 20-line model of the property statement (number text + blank, strings verbatim, 14-column zones, line end rule).',
         'Item values are a boundary alphabet (zone widths 13/14/15/30, empty string, every numeric type), not all values; number-to-text itself is C16.',
         'DESIGN.md section 4, C17'),
}
NA_REASON = 'check not built yet in this session (planned, see DESIGN.md section 4); not claimed until it exists and is silent on the unchanged tree'

def main():
    checks = []
    for pid in PROPS:
        if pid not in CLAIMED:
            continue
        cat, tech, text, note, ref = CLAIMED[pid]
        checks.append({
            'property_id': pid,
            'quick_cmd': f'bin/check {pid} --tier quick',
            'thorough_cmd': f'bin/check {pid} --tier thorough',
            'evidence_file': f'/verif/evidence/{pid}.json',
            'replay_cmd_template': f'bin/check {pid} --replay {{path}}',
            'engine': 'qv',
            'level_claimed': {'category': cat, 'text': text, 'design_ref': ref},
            'level_note': note,
            'technique': tech,
        })
    m = {
        'version': 1,
        'setup_cmd': 'bin/setup',
        'hooks': {
            'guard': 'QBEE_VERIF',
            'enable': 'no source hooks are needed: every observation point is reachable through the public API (bin/check sets QBEE_VERIF=1 for uniformity)',
            'baseline_off_cmd': 'cd /repo && /venv/bin/python -m pytest -ra -q -p no:cacheprovider --timeout=900 --continue-on-collection-errors',
            'source_commits': [],
            'add_only': True,
        },
        'engines': [{'name': 'qv', 'path': '/verif/qv', 'serves_properties': sorted(CLAIMED),
                     'kind_free_text': 'hand-written explicit-state / bounded-exhaustive explorers in Python driving the real qbee compiler, QVM and debugger'}],
        'checks': checks,
        'not_applicable': [{'property_id': p, 'reason': NA_REASON} for p in PROPS if p not in CLAIMED],
        'notes': 'All checks run the real code from /repo\'s working tree; see DESIGN.md. known_findings.json lists genuine defects (open / fixed).',
    }
    with open(os.path.join(HERE, 'MANIFEST.json'), 'w') as f:
        json.dump(m, f, indent=1)
    print('MANIFEST.json: claimed', sorted(CLAIMED), 'not_applicable', len(m['not_applicable']))

if __name__ == '__main__':
    main()
