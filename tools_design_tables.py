#!/usr/bin/env python3
"""Regenerates the generated tables of DESIGN.md section 10 (between the markers
<!-- BEGIN:<name> --> and <!-- END:<name> -->): fix commits, seeded changes, open findings."""
import glob
import json
import os
import re
import subprocess

HERE = os.path.dirname(os.path.abspath(__file__))


def fixes():
    kf = json.load(open(os.path.join(HERE, 'known_findings.json')))['findings']
    for fn in glob.glob(os.path.join(HERE, 'known_findings.d', '*.json')):
        kf += json.load(open(fn))['findings']
    by = {}
    for f in kf:
        if f.get('status') == 'fixed' and f.get('commit'):
            by.setdefault(f['commit'][:7], set()).add(f['property'])
    extra = json.load(open(os.path.join(HERE, 'docs', 'fix_properties.json'))) if os.path.exists(os.path.join(HERE, 'docs', 'fix_properties.json')) else {}
    log = subprocess.run(['git', '-C', '/repo', 'log', '--format=%h %s', '--reverse'], capture_output=True, text=True).stdout.strip().split('\n')
    rows = ['| commit | found by | what failed / what the repair does |', '|---|---|---|']
    for l in log:
        h, msg = l.split(' ', 1)
        if not msg.startswith('fix:'):
            continue
        props = sorted(by.get(h[:7], set()) | set(extra.get(h[:7], [])))
        rows.append(f"| {h[:7]} | {'/'.join(props) or '-'} | {msg[5:].strip()} |")
    return '\n'.join(rows), len(rows) - 2


def seeds():
    rows = ['| seed | breaks | what it needs to manifest | caught by (quick tier) | missed by | note |', '|---|---|---|---|---|---|']
    n = 0
    notes = {}
    np_ = os.path.join(HERE, 'docs', 'seed_notes.json')
    if os.path.exists(np_):
        notes = json.load(open(np_))
    for d in sorted(glob.glob(os.path.join(HERE, 'seeded', '*'))):
        name = os.path.basename(d)
        try:
            meta = json.load(open(os.path.join(d, 'meta.json')))
        except Exception:
            continue
        res = {}
        rp = os.path.join(d, 'results.json')
        if os.path.exists(rp):
            res = json.load(open(rp))
        caught = sorted(p for p, r in res.items() if r.get('exit') == 1 and r.get('violations', 0) > 0)
        missed = sorted(p for p, r in res.items() if r.get('exit') == 0)
        other = sorted(p for p, r in res.items() if p not in caught and p not in missed)
        needs = re.sub(r'\s+', ' ', str(meta.get('needs', '')))[:220].replace('|', '/')
        rows.append(f"| {name} | {meta.get('property', name[:3])} | {needs} | {', '.join(caught) or '-'} | {', '.join(missed) or '-'}{(' (harness error: ' + ', '.join(other) + ')') if other else ''} | {notes.get(name, '')} |")
        n += 1
    return '\n'.join(rows), n


def open_findings():
    rows = ['| property | entry | what fails |', '|---|---|---|']
    n = 0
    for fn in [os.path.join(HERE, 'known_findings.json')] + sorted(glob.glob(os.path.join(HERE, 'known_findings.d', '*.json'))):
        for f in json.load(open(fn))['findings']:
            if f.get('status') == 'open':
                rows.append(f"| {f['property']} | {f['id']} | {re.sub(chr(10), ' ', f['what'])[:300].replace('|', '/')} |")
                n += 1
    return '\n'.join(rows), n


def main():
    p = os.path.join(HERE, 'DESIGN.md')
    s = open(p).read()
    for name, fn in (('fixes', fixes), ('seeds', seeds), ('open', open_findings)):
        table, n = fn()
        b, e = f'<!-- BEGIN:{name} -->', f'<!-- END:{name} -->'
        if b in s and e in s:
            s = s[:s.index(b) + len(b)] + '\n' + table + '\n' + s[s.index(e):]
            print(name, n, 'rows')
        else:
            print('markers missing for', name)
    open(p, 'w').write(s)


if __name__ == '__main__':
    main()
