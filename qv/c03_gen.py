"""C03 - bounded space of accepted programs (own generator).

Every family is a complete product of small alphabets (types, operators,
constructs, argument forms, contexts); nothing is sampled.  A case is
(family, tag, source, scripts).  Programs the compiler rejects are counted
and dropped (the property speaks about accepted programs).
"""
import itertools

T4 = ['%', '&', '!', '#']
T5 = T4 + ['$']
TN = {'%': 'integer', '&': 'long', '!': 'single', '#': 'double', '$': 'string'}
V = {'%': 'vi%', '&': 'vl&', '!': 'vs!', '#': 'vd#', '$': 'vt$'}
W = {'%': 'wi%', '&': 'wl&', '!': 'ws!', '#': 'wd#', '$': 'wt$'}
R = {'%': 'ri%', '&': 'rl&', '!': 'rs!', '#': 'rd#', '$': 'rt$'}
ARR = {'%': 'qa%', '&': 'qa&', '!': 'qa!', '#': 'qa#', '$': 'qa$'}
FLD = {'%': 'fi', '&': 'fl', '!': 'fs', '#': 'fd', '$': 'ft'}
LIT = {'%': '3', '&': '70000', '!': '2.5', '#': '1.25#', '$': '"ab"'}
SMALL = {'%': '2%', '&': '2&', '!': '2!', '#': '2#', '$': '"b"'}
INP = {'%': '5', '&': '70000', '!': '1.5', '#': '2.25', '$': 'hi'}
# a second menu of accepted answers: a numeral every numeric type accepts (a
# field converted to the wrong cell type still yields a legal cell)
INS = {'%': '7', '&': '7', '!': '7', '#': '7', '$': 'yo'}

TYPES = ('type rc\nfi as integer\nfl as long\nfs as single\nfd as double\nft as string\nend type\n'
         'type nest\nia as rc\nib as rc\nkk as long\nend type\n')
AGG = (TYPES +
       'dim shared gi as integer\ndim shared gt as string\ndim shared gr as rc\n'
       'dim shared ga(3) as single\n'
       'dim qa%(3)\ndim qa&(1 to 3)\ndim qa!(3)\ndim qa#(3)\ndim qd#(2, 2)\ndim qa$(3)\n'
       'dim p as rc\ndim pa(2) as rc\ndim w as nest\n')
SCAL = 'vi% = 3\nvl& = 70000\nvs! = 2.5\nvd# = 1.25\nvt$ = "ab"\nwi% = 2\nwl& = 2\nws! = 2\nwd# = 2\nwt$ = "b"\n'

BINOPS = ['+', '-', '*', '/', '\\', 'mod', '^', 'and', 'or', 'xor', 'eqv', 'imp',
          '=', '<>', '<', '>', '<=', '>=']
STROPS = ['+', '=', '<>', '<', '>', '<=', '>=']


def _case(fam, tag, src, scripts=None):
    return (fam, tag, src, scripts or [{}])


# ---------------------------------------------------------------------------
def fam_binop(tier):
    for op in BINOPS:
        for ta, tb in itertools.product(T4, T4):
            a, b = V[ta], W[tb]
            src = f'{a} = 7\n{b} = 2\n'
            for tr in T4:
                src += f'{R[tr]} = {a} {op} {b}\n'
            src += f'print {a} {op} {b}\n'
            src += f'rs! = 7{ta} {op} 2{tb}\nprint 7{ta} {op} 2{tb}; rs!\n'
            yield _case('binop', f'{op}:{ta}{tb}', src)
    for op in STROPS:
        tr = '$' if op == '+' else '%'
        src = (f'vt$ = "a"\nwt$ = "b"\n{R[tr]} = vt$ {op} wt$\nprint vt$ {op} wt$\n'
               f'{R[tr]} = "a" {op} "b"\n')
        if tr == '%':
            src += ''.join(f'{R[t]} = vt$ {op} wt$\n' for t in T4)
            src += f'if vt$ {op} wt$ then print 1\n'
        yield _case('binop', f'{op}:$$', src)


def fam_unary(tier):
    one_num = ['-{0}', '+{0}', 'not {0}', 'abs({0})', 'cint({0})', 'clng({0})', 'int({0})',
               'peek({0})', 'rnd({0})', '-(-{0})', 'not not {0}']
    one_str = ['str$({0})', 'chr$({0} + 60)', 'space$({0})', 'left$(vt$, {0})',
               'right$(vt$, {0})', 'mid$(vt$, {0})', 'string$({0}, "x")',
               'string$(2, {0} + 60)']
    for f in one_num + one_str:
        for t in T4:
            e = f.format(V[t])
            src = f'vt$ = "abc"\n{V[t]} = 2\n'
            if f in one_num:
                src += ''.join(f'{R[r]} = {e}\n' for r in T4)
            else:
                src += f'rt$ = {e}\n'
            src += f'print {e}\n'
            if f.startswith('peek'):
                src = 'def seg = 0\n' + src
            yield _case('unary', f'{f}:{t}', src)
    two = ['mid$(vt$, {0}, {1})', 'string$({0}, {1} + 60)', 'instr({0}, vt$, "b")',
           'lbound(qd#, {0}) + ubound(qd#, {1})']
    for f in two:
        for t, u in itertools.product(T4, T4):
            e = f.format(V[t], W[u])
            res = 'rt$' if f[0] in 'ms' else 'rl&'
            src = f'dim qd#(2, 2)\nvt$ = "abc"\n{V[t]} = 1\n{W[u]} = 2\n{res} = {e}\nprint {e}\n'
            if res == 'rl&':
                src += f'ri% = {e}\nrs! = {e}\n'
            yield _case('unary', f'{f}:{t}{u}', src)
    for f in ['len(vt$)', 'asc(vt$)', 'val(vt$)', 'instr(vt$, "b")', 'timer', 'rnd', 'err',
              'ubound(qd#)', 'lbound(qd#)']:
        src = 'dim qd#(2, 2)\nvt$ = "1b"\n' + ''.join(f'{R[r]} = {f}\n' for r in T4) + f'print {f}\n'
        yield _case('unary', f, src)
    for f in ['lcase$(vt$)', 'ucase$(vt$)', 'ltrim$(vt$)', 'rtrim$(vt$)', 'inkey$',
              'str$(val(vt$))', 'left$(vt$, len(vt$) - 1)', 'chr$(asc(vt$))']:
        src = f'vt$ = " aB "\nrt$ = {f}\nprint {f}; rt$\n'
        yield _case('unary', f, src, [{}, {'inkey': ['k']}])


COND_FORMS = ['{c}', '{c} > 0', '{c} and 1', '{c} - 0', '{c} * 1.5', 'not ({c} = 0)',
              '{c} > 0 and {c} < 5', '-{c}']
CONSTRUCTS = {
    'if-block': 'if {e} then\nprint 1\nelseif {e2} then\nprint 2\nelse\nprint 3\nend if\n',
    'if-line': 'if {e} then print 1 else print 2\n',
    'if-line-2': 'if {e} then print 1: print 2\nprint 3\n',
    'if-goto': 'if {e} then goto l1\nprint 0\nl1:\nprint 1\n',
    'if-nested': 'if {e} then\nif {e2} then print 1\nelse\nif {e} then\nprint 2\nend if\nend if\n',
    'while': 'while {e}\n{dec}\nk% = k% + 1\nif k% > 3 then goto dn\nwend\ndn:\n',
    'do-while': 'do while {e}\n{dec}\nk% = k% + 1\nif k% > 3 then exit do\nloop\n',
    'do-until': 'do until {e}\n{dec}\nk% = k% + 1\nif k% > 3 then exit do\nloop\n',
    'loop-while': 'do\n{dec}\nk% = k% + 1\nif k% > 3 then exit do\nloop while {e}\n',
    'loop-until': 'do\n{dec}\nk% = k% + 1\nif k% > 3 then exit do\nloop until {e}\n',
    'do-forever': 'do\n{dec}\nif {e} then\nelse\nexit do\nend if\nk% = k% + 1\nif k% > 3 then exit do\nloop\n',
    'while-nested': 'while {e}\n{dec}\ndo while {e2}\nk% = k% + 1\nif k% > 2 then exit do\nloop\nif k% > 5 then goto dn\nwend\ndn:\n',
}


def fam_cond(tier):
    for cn, tpl in CONSTRUCTS.items():
        for t in T4:
            for f in COND_FORMS:
                c = V[t]
                e = f.format(c=c)
                e2 = f.format(c=W[t])
                for init in (['2'] if tier == 'quick' else ['2', '0']):
                    src = f'{c} = {init}\n{W[t]} = 1\n' + tpl.format(e=e, e2=e2, dec=f'{c} = {c} - 1')
                    src += 'print "end"\n'
                    yield _case('cond', f'{cn}:{t}:{f}:{init}', src)


def fam_for(tier):
    steps = {'none': '', 'pos': ' step {s}', 'neg': ' step -{s}', 'var': ' step {sv}'}
    for t, u in itertools.product(T4, T4):
        for sk, stp in steps.items():
            c = V[t]
            lo, hi = ('1', '3') if sk != 'neg' else ('3', '1')
            lo, hi = lo + u, hi + u
            st = stp.format(s='1' + u, sv=W[u])
            src = (f'{W[u]} = 1\nfor {c} = {lo} to {hi}{st}\nprint {c};\nnext\n'
                   f'for {c} = {W[u]} to {W[u]} + 2{st}\nri% = ri% + 1\nif ri% > 6 then exit for\nnext {c}\nprint ri%\n')
            yield _case('for', f'{t}{u}:{sk}', src)
    bodies = {
        'exit': 'if {c} > 1 then exit for\n',
        'nested': 'for wi% = 1 to 2\nprint wi%;\nnext wi%\n',
        'nested-same-type': 'for {w} = 1 to 2\nif {w} = 2 then exit for\nnext\n',
        'modify': '{c} = {c} + 1\n',
        'goto-out': 'if {c} = 2 then goto fin\n',
        'gosub': 'gosub sr\n',
        'empty': '',
    }
    for t in T4:
        for bn, b in bodies.items():
            c = V[t]
            src = (f'for {c} = 1 to 3\n' + b.format(c=c, w=W[t]) + 'next\nfin:\nprint "x"\nend\n'
                   'sr:\nprint "s";\nreturn\n')
            yield _case('for', f'body:{bn}:{t}', src)
    # counters in other storage classes
    for t in T4:
        n = TN[t]
        yield _case('for', f'shared:{t}',
                    f'dim shared g as {n}\nfor g = 1 to 2\ncall s\nnext\nprint g\nsub s\nprint g;\nend sub\n')
        yield _case('for', f'sublocal:{t}',
                    f'call s\nsub s\ndim c as {n}\nfor c = 1 to 2\nprint c;\nnext\nfor k{t} = 2 to 1 step -1\nnext\nend sub\n')
        yield _case('for', f'static:{t}',
                    f'call s\ncall s\nsub s\nstatic c as {n}\nfor c = c to c + 1\nprint c;\nnext\nend sub\n')
        yield _case('for', f'function:{t}',
                    f'print f{t}(2)\nfunction f{t}(n%)\nfor c{t} = 1 to n%\nf{t} = f{t} + c{t}\nnext\nend function\n')
        yield _case('for', f'param:{t}',
                    f'k{t} = 9\ncall s(k{t})\nprint k{t}\nsub s(n{t})\nfor n{t} = 1 to 2\nprint n{t};\nnext\nend sub\n')


def fam_select(tier):
    for t, u in itertools.product(T4, T4):
        a = V[t]
        src = (f'{a} = 2\n{W[u]} = 1\nfor k% = 1 to 4\nselect case {a}\ncase 1{u}\nprint "a"\n'
               f'case {W[u]} + 1 to 3{u}\nprint "b"\n{a} = 4\ncase is > {W[u]} + 2\nprint "c"\n{a} = 0\n'
               f'case 9, 10 to 11, is < 0\nprint "d"\ncase else\nprint "e"\n{a} = 1\nend select\nnext\n')
        yield _case('select', f'{t}{u}', src)
    for t in T4:
        a = V[t]
        yield _case('select', f'expr:{t}',
                    f'{a} = 2\nselect case {a} * 2 + 1\ncase 5\nprint 1\ncase else\nprint 2\nend select\n'
                    f'select case {a}\ncase else\nprint 3\nend select\n')
        yield _case('select', f'nested:{t}',
                    f'{a} = 1\nselect case {a}\ncase 1\nselect case {a} + 1\ncase 2\nprint "in"\nend select\n'
                    f'if {a} then print "if"\ncase 2\nfor k% = 1 to 2\nnext\nend select\n')
        yield _case('select', f'insub:{t}',
                    f'call s(2)\nsub s(q{t})\nselect case q{t}\ncase 1 to 2\nprint "r"\nexit sub\ncase else\nend select\nprint "n"\nend sub\n')
    yield _case('select', '$',
                'vt$ = "b"\nselect case vt$\ncase "a"\nprint 1\ncase "b" to "c"\nprint 2\n'
                'case is > "x", "q"\nprint 3\ncase else\nprint 4\nend select\n'
                'select case vt$ + "c"\ncase "bc"\nprint 5\nend select\n')


GOSUB_PROGS = {
    'plain': 'gosub a\nprint "m"\nend\na:\nprint "a"\nreturn\n',
    'twice': 'gosub a\ngosub a\nend\na:\nprint "a"\nreturn\n',
    'nested2': 'gosub a\nend\na:\ngosub b\nprint "a"\nreturn\nb:\nprint "b"\nreturn\n',
    'nested3': 'gosub a\nend\na:\ngosub b\nreturn\nb:\ngosub c\nreturn\nc:\nprint "c"\nreturn\n',
    'nested4': 'gosub a\nend\na:\ngosub b\nreturn\nb:\ngosub c\nreturn\nc:\ngosub d\nreturn\nd:\nprint "d"\nreturn\n',
    'return-label': 'gosub a\nprint "no"\nb:\nprint "b"\nend\na:\nprint "a"\nreturn b\n',
    'in-loop': 'for i% = 1 to 3\ngosub a\nnext\nend\na:\nprint i%;\nreturn\n',
    'loop-in-sub': 'gosub a\nend\na:\nfor i% = 1 to 2\nprint i%;\nnext\nreturn\n',
    'cond-return': 'x% = 1\ngosub a\nprint "m"\nend\na:\nif x% then return\nprint "n"\nreturn\n',
    'in-if': 'x% = 1\nif x% then gosub a\nif x% then\ngosub a\nend if\nend\na:\nprint "a"\nreturn\n',
    'in-select': 'x% = 1\nselect case x%\ncase 1\ngosub a\nend select\nend\na:\nprint "a"\nreturn\n',
    'in-sub': 'call s\nend\nsub s\ngosub a\nprint "s"\nexit sub\na:\nprint "a"\nreturn\nend sub\n',
    'in-function': 'print f%(1)\nend\nfunction f%(n%)\ngosub a\nf% = n% + 1\nexit function\na:\nn% = n% + 1\nreturn\nend function\n',
    'recursive-bounded': 'n% = 3\ngosub a\nprint "m"\nend\na:\nn% = n% - 1\nif n% > 0 then gosub a\nprint n%;\nreturn\n',
    'expr-around': 'gosub a\nprint f!(2) + 1\nend\na:\nprint f!(1)\nreturn\nfunction f!(x!)\nf! = x! * 2\nend function\n',
    'call-in-gosub': 'gosub a\nend\na:\ncall s\nreturn\nsub s\nprint "s"\nend sub\n',
    'goto-in': 'goto a\nb:\nprint "b"\nend\na:\nprint "a"\ngoto b\n',
    'lineno': '10 gosub 40\n20 print "m"\n30 end\n40 print "a"\n50 return\n',
    'return-lineno': '10 gosub 40\n20 print "no"\n30 print "b": end\n40 return 30\n',
    'fall-into-after-end': 'gosub a\nprint "m"\nend\na:\nprint "a"\nreturn\nprint "dead"\n',
    'gosub-then-fall-off': 'gosub a\nprint x\nend\na:\nx = 5\n',
    'fall-off-in-sub': 'call s\nprint "m"\nsub s\ngosub a\nprint "back"\nexit sub\na:\nprint "a"\nend sub\n',
    'exit-sub-in-gosub': 'call s\nprint "m"\nsub s\ngosub a\nprint "back"\nexit sub\na:\nexit sub\nend sub\n',
    'end-in-gosub': 'gosub a\nprint "no"\na:\nprint "a"\nend\n',
    'return-no-gosub': 'print "m"\nreturn\n',
    'onerror-in-gosub': 'on error goto h\ngosub a\nprint "m"\nend\na:\nx% = 0\ny% = 1 \\ x%\nprint "a"\nreturn\nh:\nprint "h"\nresume next\n',
}


def fam_gosub(tier):
    for k, src in GOSUB_PROGS.items():
        yield _case('gosub', k, src)


ARGFORMS = {
    'var': '{v}', 'paren': '({v})', 'lit': '{lit}', 'expr': '{v} + {v}', 'elem': '{arr}(1)',
    'field': 'p.{fld}', 'elem-field': 'pa(1).{fld}', 'nested-field': 'w.ib.{fld}',
    'shared': '{g}', 'func': 'idf{t}({v})', 'const': 'kc',
}
BODIES = {
    'read': 'print q{t}\n',
    'write': 'q{t} = q{t} + {one}\nprint q{t}\n',
    'passon': 'call s2(q{t})\n',
    'passon-val': 'call s2((q{t}))\n',
    'local': 'dim z as {tn}\nz = q{t}\nq{t} = z\n',
    'exit': 'if 1 then exit {kind}\nprint "no"\n',
    'static': 'static n as {tn}\nn = n + q{t}\nq{t} = n\n',
    'input': 'input q{t}\n',
    'read-data': 'read q{t}\n',
    'for-other': 'for i% = 1 to 2\nq{t} = q{t} + {one}\nnext\n',
}


def _proc_prog(t, u, af, body, mode):
    """param type t, argument of type u, argument form af, body, mode"""
    one = '"x"' if t == '$' else '1'
    arg = ARGFORMS[af].format(v=V[u], lit=LIT[u], arr=ARR[u], fld=FLD[u], g='g' + u, t=u)
    kind = 'function' if mode == 'function' else 'sub'
    b = BODIES[body].format(t=t, tn=TN[t], one=one, kind=kind)
    src = (TYPES + f'dim {ARR[u]}(3)\ndim p as rc\ndim pa(2) as rc\ndim w as nest\n'
           f'dim shared g{u}\nconst kc = {LIT[u]}\n')
    src += f'{V[u]} = {SMALL[u]}\n{ARR[u]}(1) = {SMALL[u]}\np.{FLD[u]} = {SMALL[u]}\n'
    src += f'pa(1).{FLD[u]} = {SMALL[u]}\nw.ib.{FLD[u]} = {SMALL[u]}\ng{u} = {SMALL[u]}\n'
    if mode == 'call':
        src += f'call s({arg})\n'
    elif mode == 'nocall':
        src += f's {arg}\n'
    else:
        src += f'{R[t]} = s{t}({arg})\n'
    src += f'print {V[u]}; {ARR[u]}(1); p.{FLD[u]}; g{u}\n'
    if mode == 'function':
        src += f'function s{t}(q{t})\n{b}s{t} = q{t}\nend function\n'
    else:
        src += f'sub s(q{t})\n{b}end sub\n'
    src += f'sub s2(r{t})\nr{t} = r{t} + {one}\nend sub\n'
    src += f'function idf{u}(x{u})\nidf{u} = x{u}\nend function\n'
    src += 'data 1, 2, 3\n'
    return src


def fam_procs(tier):
    inp = {'input': ['9', '9', '9']}
    for t in T5:
        others = [t] + [x for x in (T4 if t != '$' else []) if x != t]
        for u in others:
            for af in ARGFORMS:
                if u != t and af in ('var', 'elem', 'field', 'elem-field', 'nested-field', 'shared'):
                    # by-reference argument of another type: rejected by the
                    # compiler; kept to count (and to notice if it ever is not)
                    if tier == 'quick':
                        continue
                bodies = list(BODIES) if (u == t or tier != 'quick') else ['write']
                for body in bodies:
                    for mode in ('call', 'nocall', 'function'):
                        if tier == 'quick':
                            # quick: argument form and body are generated by
                            # independent code paths (call site / callee):
                            # every argument form with the two basic bodies,
                            # every body with the two basic argument forms
                            if body not in ('write', 'read') and af not in ('var', 'expr'):
                                continue
                            if mode == 'nocall' and body not in ('write', 'read'):
                                continue
                        yield _case('procs', f'{t}<-{u}:{af}:{body}:{mode}',
                                    _proc_prog(t, u, af, body, mode), [inp])
    # two parameters, by-reference and by-value mixed
    for t, u in itertools.product(T5, T5):
        one_t = '"x"' if t == '$' else '1'
        one_u = '"y"' if u == '$' else '1'
        src = (f'{V[t]} = {SMALL[t]}\n{W[u]} = {SMALL[u]}\ncall s({V[t]}, {W[u]})\ncall s(({V[t]}), {W[u]})\n'
               f'call s({V[t]}, {W[u]} + {one_u})\ns {LIT[t]}, {LIT[u]}\nprint {V[t]}; {W[u]}\n'
               f'sub s(a{t}, b{u})\na{t} = a{t} + {one_t}\nb{u} = b{u} + {one_u}\nprint a{t}; b{u}\nend sub\n')
        yield _case('procs', f'two:{t}{u}', src)
    # function result type x type of the returned expression x use
    for t, u in itertools.product(T4, T4):
        src = (f'{V[u]} = 2\n{R[u]} = f{t}({V[u]}) + 1\nprint f{t}(1) * f{t}({V[u]}); {R[u]}\n'
               f'if f{t}(0) then print "t"\n'
               f'function f{t}(x{u})\nf{t} = x{u} / 2 + 1\nif x{u} > 5 then exit function\nf{t} = f{t} + x{u}\nend function\n')
        yield _case('procs', f'fret:{t}{u}', src)
    yield _case('procs', 'fret:$', 'print f$("a") + f$("b")\nfunction f$(x$)\nf$ = x$ + "!"\nend function\n')
    # recursion, DECLARE, STATIC, SHARED, arrays and records as parameters
    misc = {
        'recursion': 'print fact&(4)\nfunction fact&(n%)\nif n% <= 1 then\nfact& = 1\nelse\nfact& = n% * fact&(n% - 1)\nend if\nend function\n',
        'mutual': 'declare sub b(n%)\ncall a(3)\nsub a(n%)\nprint n%;\nif n% > 0 then call b(n% - 1)\nend sub\nsub b(n%)\nif n% > 0 then call a(n% - 1)\nend sub\n',
        'declare': 'declare function f!(x!)\ndeclare sub s(a%, b$)\ncall s(1, "x")\nprint f!(2)\nsub s(a%, b$)\nprint a%; b$\nend sub\nfunction f!(x!)\nf! = x!\nend function\n',
        'static-vars': 'call s\ncall s\nsub s\nstatic n%, t$, d#\nn% = n% + 1\nt$ = t$ + "x"\nd# = d# + .5\nprint n%; t$; d#\nend sub\n',
        'shared-access': AGG + 'gi = 1\ngt = "q"\ngr.fs = 1.5\nga(1) = 2\ncall s\nprint gi; gt; gr.fs; ga(1)\nsub s\ngi = gi + 1\ngt = gt + "r"\ngr.fs = gr.fs * 2\nga(1) = ga(1) + gi\nend sub\n',
        'local-shadows': 'x% = 1\ncall s\nprint x%\nsub s\nx% = 5\nx$ = "q"\nprint x%; x$\nend sub\n',
        'array-param': 'dim a%(3)\na%(1) = 4\ncall s(a%())\nprint a%(1); a%(2)\nsub s(q%())\nq%(2) = q%(1) + 1\nprint ubound(q%)\nend sub\n',
        'array-param-2d': 'dim a#(1 to 2, 1 to 2)\ncall s(a#())\nprint a#(2, 1)\nsub s(q#())\nq#(2, 1) = 1.5\nprint lbound(q#, 2)\nend sub\n',
        'array-param-str': 'dim a$(2)\ncall s(a$(), 1)\nprint a$(1)\nsub s(q$(), i%)\nq$(i%) = "z"\nend sub\n',
        'array-param-passon': 'dim a%(3)\ncall s(a%())\nprint a%(0)\nsub s(q%())\ncall u(q%())\nend sub\nsub u(r%())\nr%(0) = 1\nend sub\n',
        'dyn-array-param': 'n% = 3\ndim a%(n%)\ncall s(a%())\nprint a%(1)\nsub s(q%())\nq%(1) = 2\nend sub\n',
        'array-of-rec-param': TYPES + 'dim a(2) as rc\ncall s(a())\nprint a(1).fl\nsub s(q() as rc)\nq(1).fl = 7\nend sub\n',
        'record-param': TYPES + 'dim p as rc\ncall s(p)\nprint p.fi\nsub s(q as rc)\nq.fi = 4\nend sub\n',
        'record-param-2': TYPES + 'dim p as rc\nx% = 7\ncall s(x%, p)\nprint p.fi\nsub s(a%, q as rc)\nq.fi = a% + 1\nend sub\n',
        'record-param-last': TYPES + 'dim p as rc\nx% = 7\ncall s(p, x%)\nprint p.fs\nsub s(q as rc, a%)\nq.fs = a% + 1\nend sub\n',
        'record-elem-param': TYPES + 'dim pa(2) as rc\ncall s(pa(1))\nprint pa(1).ft\nsub s(q as rc)\nq.ft = "k"\nend sub\n',
        'nested-record-param': TYPES + 'dim w as nest\ncall s(w.ib)\nprint w.ib.fd\nsub s(q as rc)\nq.fd = 1.5\nend sub\n',
        'elem-by-ref': 'dim a!(3)\ncall s(a!(2))\nprint a!(2)\nsub s(q!)\nq! = q! + 1.5\nend sub\n',
        'field-by-ref': TYPES + 'dim p as rc\ncall s(p.fl, p.ft)\nprint p.fl; p.ft\nsub s(a&, b$)\na& = 70000\nb$ = "w"\nend sub\n',
        'sub-local-array': 'call s\nsub s\ndim a%(2), t$(1 to 2)\na%(1) = 3\nt$(2) = "q"\nprint a%(1); t$(2)\nend sub\n',
        'sub-local-record': TYPES + 'call s\nsub s\ndim p as rc\ndim pa(1) as rc\np.fd = 1.5\npa(1).ft = "q"\nprint p.fd; pa(1).ft\nend sub\n',
        'sub-dyn-array': 'call s(3)\nsub s(n%)\ndim a&(n%)\na&(n%) = 5\nprint a&(n%); ubound(a&)\nend sub\n',
        'sub-static-array': 'call s\ncall s\nsub s\nstatic a%(2)\na%(1) = a%(1) + 1\nprint a%(1)\nend sub\n',
        'func-in-arg': 'print f%(f%(1) + f%(2))\nfunction f%(n%)\nf% = n% + 1\nend function\n',
        'func-many-args': 'print f#(1, 2.5, "x", 70000)\nfunction f#(a%, b!, c$, d&)\nf# = a% + b! + len(c$) + d&\nend function\n',
        'func-no-args': 'print f%\nprint f% + 1\nfunction f%\nf% = 3\nend function\n',
        'func-implicit-ret': 'print f!(1)\nfunction f!(x)\nend function\n',
        'func-writes-param': 'x% = 1\ny% = f%(x%)\nprint x%; y%\nfunction f%(n%)\nn% = n% + 1\nf% = n%\nend function\n',
        'sub-calls-func': 'call s\nsub s\nprint f$(2)\nend sub\nfunction f$(n%)\nf$ = string$(n%, "x")\nend function\n',
        'exit-sub-in-loop': 'call s\nprint "m"\nsub s\nfor i% = 1 to 3\ndo\nif i% = 2 then exit sub\nexit do\nloop\nnext\nend sub\n',
        'exit-function-in-select': 'print f%(1)\nfunction f%(n%)\nselect case n%\ncase 1\nf% = 5\nexit function\nend select\nf% = 6\nend function\n',
    }
    for k, src in misc.items():
        yield _case('procs', k, src)


def fam_agg(tier):
    # arrays: element type x subscript type x shape x storage
    shapes = {
        'static1': ('dim a{t}(1 to 3)\n', 'a{t}({i})', 'a{t}(2)'),
        'static2': ('dim a{t}(2, 1 to 2)\n', 'a{t}({i}, {i})', 'a{t}(1, 2)'),
        'implicit': ('', 'a{t}({i})', 'a{t}(2)'),
        'dynamic': ('n% = 3\ndim a{t}(n%)\n', 'a{t}({i})', 'a{t}(2)'),
        'dynamic2': ('n% = 2\ndim a{t}(n%, 1 to n%)\n', 'a{t}({i}, {i})', 'a{t}(1, 2)'),
        'shared': ('dim shared a{t}(3)\n', 'a{t}({i})', 'a{t}(2)'),
        'as-type': ('dim a(1 to 3) as {tn}\n', 'a({i})', 'a(2)'),
    }
    for sn, (decl, el, el2) in shapes.items():
        for t in T5:
            for u in T4:
                i = W[u]
                e = el.format(t=t, i=i)
                e2 = el2.format(t=t)
                src = decl.format(t=t, tn=TN[t]) + f'{i} = 2\n'
                vals = T4 if t != '$' else ['$']
                for v in vals:
                    src += f'{e} = {LIT[v] if v != "&" else "9&"}\n{R[v]} = {e}\n'
                src += f'{e2} = {e}\nprint {e}; {e2}\n'
                yield _case('agg', f'{sn}:{t}:{u}', src)
    # records: field type x value type
    for t in T5:
        vals = T4 if t != '$' else ['$']
        for v in vals:
            f = FLD[t]
            lit = LIT[v] if v != '&' else '9&'
            src = (AGG + f'{V[v]} = {lit}\np.{f} = {V[v]}\npa(1).{f} = {V[v]}\nw.ia.{f} = {V[v]}\nw.ib.{f} = p.{f}\n'
                   f'gr.{f} = {lit}\n{R[v]} = p.{f}\n{R[v]} = pa(1).{f}\n{R[v]} = w.ib.{f}\n{R[v]} = gr.{f}\n'
                   f'print p.{f}; pa(1).{f}; w.ia.{f}; w.ib.{f}; gr.{f}; w.kk\n'
                   f'i% = 2\npa(i%).{f} = pa(1).{f}\nprint pa(i%).{f}; p.fi; p.ft\n')
            yield _case('agg', f'rec:{t}:{v}', src)
    misc = {
        'bounds-expr': 'dim a%(1 + 1 to 2 * 3)\nprint lbound(a%); ubound(a%)\na%(lbound(a%)) = 1\n',
        'bounds-float': 'dim a%(1.5 to 3.5)\nprint lbound(a%); ubound(a%)\n',
        'bounds-neg': 'dim a!(-2 to 2)\na!(-2) = 1.5\nprint a!(-2)\n',
        'bounds-long-var': 'n& = 3\ndim a#(1 to n&)\na#(n&) = 2\nprint a#(3)\n',
        'bounds-single-var': 'n! = 2.4\ndim a$(n!)\na$(2) = "q"\nprint a$(n!)\n',
        'bounds-const': 'const n = 3\ndim a%(n)\na%(n) = n\nprint a%(3)\n',
        'out-of-range': 'dim a%(2)\ni% = 5\na%(i%) = 1\n',
        'implicit-read': 'print a%(3); b$(1); c#(10)\n',
        'implicit-in-expr': 'x% = a%(1) + a%(2) * b!(0)\nprint x%\n',
        'implicit-in-sub': 'call s\nsub s\nq&(2) = 5\nprint q&(2); r$(1)\nend sub\n',
        'elem-as-index': 'dim a%(3), b%(3)\na%(1) = 2\nb%(a%(1)) = 7\nprint b%(2)\n',
        'rec-array-field-index': TYPES + 'dim pa(2) as rc\npa(1).fi = 2\npa(pa(1).fi).ft = "z"\nprint pa(2).ft\n',
        'nested-all': TYPES + 'dim w as nest\nw.ia.fi = 1\nw.ia.ft = "a"\nw.ib.fd = 2.5\nw.kk = 70000\nprint w.ia.fi; w.ia.ft; w.ib.fd; w.kk; w.ib.fi\n',
        'array-of-nest': TYPES + 'dim wa(1) as nest\nwa(1).ib.fs = 1.5\nwa(0).kk = 2\nprint wa(1).ib.fs; wa(0).kk; wa(1).ia.ft\n',
        'shared-rec-array': TYPES + 'dim shared sa(2) as rc\nsa(1).fl = 5\ncall s\nprint sa(1).fl\nsub s\nsa(1).fl = sa(1).fl + 1\nend sub\n',
        'dim-multi': 'dim a%, b as string, c(2) as double, d!(1 to 2)\na% = 1\nb = "q"\nc(1) = 2\nd!(2) = 3\nprint a%; b; c(1); d!(2)\n',
        'dim-scalar-types': 'dim a as integer, b as long, c as single, d as double, e as string\na = 1.6\nb = a\nc = b / 3\nd = c\ne = str$(d)\nprint a; b; c; d; e\n',
        'deftypes': 'defint a-b\ndeflng c\ndefsng d\ndefdbl e\ndefstr s\na = 1.5\nc = 70000\nd = 1.5\ne = 1.25\ns = "q"\nprint a; c; d; e; s\nb(1) = 2\nprint b(1)\n',
        'const-types': 'const a = 1, b = 2.5\nconst c$ = "q"\nconst d = a + 1\nx% = a + b\nprint a; b; c$; d; x%\n',
        'const-in-sub': 'const k = 3\ncall s\nsub s\nconst j = 2\nprint k + j\nend sub\n',
        'big-array': 'dim a%(50, 3)\na%(50, 3) = 1\nprint a%(50, 3)\n',
        'same-name-suffixes': 'x% = 1\nx& = 2\nx! = 3\nx# = 4\nx$ = "5"\nx = 6\nprint x%; x&; x!; x#; x$; x\n',
    }
    for k, src in misc.items():
        yield _case('agg', k, src)


def fam_convert(tier):
    targets = {
        'scalar': ('', '{r}'), 'elem': ('dim a{t}(2)\n', 'a{t}(1)'),
        'field': (TYPES + 'dim p as rc\n', 'p.{f}'), 'shared': ('dim shared g{t}\n', 'g{t}'),
        'elem-field': (TYPES + 'dim pa(1) as rc\n', 'pa(1).{f}'),
        'dyn-elem': ('n% = 2\ndim a{t}(n%)\n', 'a{t}(n%)'),
    }
    vals = {'%': ['3', '-2'], '&': ['70000', '9&'], '!': ['2.5', '3.5'], '#': ['1.25#', '4.5#']}
    for tk, (decl, lv) in targets.items():
        for t, u in itertools.product(T4, T4):
            l = lv.format(t=t, r=R[t], f=FLD[t])
            src = decl.format(t=t)
            for v in vals[u]:
                src += f'{V[u]} = {v}\n{l} = {V[u]}\n{l} = {v}\n{l} = {V[u]} + {v}\nprint {l}\n'
            yield _case('convert', f'{tk}:{t}<-{u}', src)
    for t, u in itertools.product(T4, T4):
        yield _case('convert', f'refparam:{t}<-{u}',
                    f'{V[t]} = 1\n{W[u]} = 2\ncall s({V[t]}, {W[u]})\nprint {V[t]}\n'
                    f'sub s(a{t}, b{u})\na{t} = b{u}\na{t} = b{u} + a{t}\nend sub\n')
        yield _case('convert', f'static:{t}<-{u}',
                    f'call s(2)\ncall s(3)\nsub s(b{u})\nstatic a{t}\na{t} = a{t} + b{u}\nprint a{t}\nend sub\n')


PRINT_FORMS = ['print {a}', 'print {a};', 'print {a},', 'print {a}; {b}', 'print {a}, {b};',
               'print ; {a}', 'print , {a}', 'print {a} {b}', 'print', 'print ;', 'print ,',
               'print using "##.##"; {a}', 'print using "##.## &"; {a}; "s"',
               'print using "##"; {a}; {b};', 'print using vt$; {a}',
               'print {a}; tab(3); {b}', 'print spc(2); {a}', 'print {a} + {b}; -{a}',
               '? {a}', 'print ({a}); ({b})']


def fam_io(tier):
    for f in PRINT_FORMS:
        for t, u in itertools.product(T4, T4):
            src = SCAL + 'vt$ = "#.#"\n' + f.format(a=V[t], b=W[u]) + '\nprint "|"\n'
            yield _case('io', f'{f}:{t}{u}', src)
    for f in ['print {a}', 'print {a}; {b}', 'print {a}, {b},', 'print {a} + {b}; {a}',
              'print using "&!"; {a}; {b}', 'print using "\\ \\"; {a}', 'print {a} {b}']:
        src = SCAL + f.format(a='vt$', b='wt$') + '\n'
        yield _case('io', f'{f}:$$', src)
    # INPUT: variable type x target x prompt form x number of variables
    prompts = {'none': 'input ', 'semi': 'input "p"; ', 'comma': 'input "p", ', 'same': 'input ; ',
               'same-prompt': 'input ; "p"; '}
    targets = {'scalar': '{v}', 'elem': '{arr}(1)', 'field': 'p.{f}', 'shared': 'g{t}',
               'elem-field': 'pa(2).{f}', 'dyn': 'dy{t}(1)'}
    pre = AGG + 'n% = 2\n' + ''.join(f'dim shared g{t}\ndim dy{t}(n%)\n' for t in T5)
    for pn, pr in prompts.items():
        for tk, tg in targets.items():
            if tier == 'quick' and pn != 'none' and tk != 'scalar':
                continue
            for t in T5:
                l = tg.format(v=V[t], arr=ARR[t], f=FLD[t], t=t)
                src = pre + pr + l + f'\nprint {l}\n'
                bad = 'x' if t != '$' else 'a,b'
                yield _case('io', f'input:{pn}:{tk}:{t}', src,
                            [{'input': [INP[t]]}, {'input': [bad, '', INS[t]]}])
    for t, u in itertools.product(T5, T5):
        src = f'input {V[t]}, {W[u]}\nprint {V[t]}; {W[u]}\ninput "q"; {W[u]}, {V[t]}, k%\nprint {W[u]}; {V[t]}; k%\n'
        good1 = f'{INP[t]},{INP[u]}'
        good2 = f'{INP[u]},{INP[t]},1'
        small1 = f'{INS[t]},{INS[u]}'
        small2 = f'{INS[u]},{INS[t]},1'
        yield _case('io', f'input2:{t}{u}', src,
                    [{'input': [good1, good2]},
                     {'input': ['x,' + INP[u], INP[t], INP[t] + ',x', small1, 'x,' + INP[t] + ',1',
                                INP[u] + ',' + INP[t] + ',x', '1,2,3,4', small2]}])
    yield _case('io', 'input-in-sub', 'call s(a%, b$)\nprint a%; b$\nsub s(x%, y$)\ninput x%, y$\nend sub\n',
                [{'input': ['4,q']}, {'input': ['q,4', 'x,y', '4,q']}])
    yield _case('io', 'input-in-loop', 'for i% = 1 to 2\ninput a!(i%)\nnext\nprint a!(1) + a!(2)\n',
                [{'input': ['1.5', '2']}, {'input': ['z', '1.5', '', '2']}])
    yield _case('io', 'input-in-function', 'print f%(1) + 1\nfunction f%(n%)\ninput k%\nf% = k% + n%\nend function\n',
                [{'input': ['4']}, {'input': ['1,2', '4']}])
    # READ / DATA / RESTORE
    datas = {'%': '5', '&': '70000', '!': '1.5', '#': '2.25', '$': 'hi'}
    for tk, tg in targets.items():
        for t in T5:
            l = tg.format(v=V[t], arr=ARR[t], f=FLD[t], t=t)
            for d in T5:
                if tier == 'quick' and d != t and tk != 'scalar':
                    continue
                src = pre + f'read {l}\nprint {l}\nrestore\nread {l}, {l}\nprint {l}\ndata {datas[d]}, {datas[t]}\n'
                yield _case('io', f'read:{tk}:{t}<-{d}', src)
    for k, src in {
        'read-many': 'read a%, b&, c!, d#, e$\nprint a%; b&; c!; d#; e$\ndata 1, 2, 3.5, 4.5, "x y"\n',
        'read-labels': 'restore two\nread a%\nprint a%\nrestore one\nread a%\nprint a%\none:\ndata 1\ntwo:\ndata 2\n',
        'read-out-of-data': 'read a%, b%\ndata 1\n',
        'read-empty-item': 'read a%, b$, c!\nprint a%; b$; c!\ndata , , \n',
        'read-in-loop': 'for i% = 1 to 3\nread a%(i%)\nnext\nprint a%(1) + a%(3)\ndata 1, 2, 3\n',
        'read-in-sub': 'call s\nsub s\nread x%, y$\nprint x%; y$\nend sub\ndata 4, q\n',
    }.items():
        yield _case('io', k, src)
    # device statements: argument types and presence patterns
    dev = ['cls', 'beep', 'color {a}', 'color {a}, {b}', 'color , {b}', 'color {a}, {b}, {a}',
           'color , , {a}', 'locate {a}, {b}', 'locate , {b}', 'locate {a}, {b}, {a}',
           'locate {a}', 'screen {z}', 'width 80', 'width 80, 25', 'width , 25', 'view print',
           'view print {a} to {b}', 'sound 440 + {a}, {b}', 'play vt$', 'poke {a}, {b}',
           'def seg', 'def seg = {a}', 'randomize {a}', 'randomize timer', 'kill vt$',
           'bload vt$, {a}', 'bsave vt$, {a}, {b}', 'screen {z}, , {z}, {z}', 'screen {z}, {z}']
    for f in dev:
        pairs = [(t, u) for t in T4 for u in T4] if ('{a}' in f and '{b}' in f) else \
            [(t, t) for t in T4] if ('{a}' in f or '{b}' in f or '{z}' in f) else [('%', '%')]
        for t, u in pairs:
            z = {'%': 'zi%', '&': 'zl&', '!': 'zs!', '#': 'zd#'}[t]
            src = f'vt$ = "c"\n{V[t]} = 1\n{W[u]} = 2\ndef seg = 47104\n' + f.format(a=V[t], b=W[u], z=z) + '\nprint "ok"\n'
            yield _case('io', f'dev:{f}:{t}{u}', src,
                        [{}, {'peek': [1]}] if tier != 'quick' else [{}])


ERR_SOURCES = {
    'div0-stmt': 'y% = 1 \\ z%',
    'div0-mid-expr': 'y% = 5 + (1 \\ z%)',
    'div0-in-print': 'print 1; 2 \\ z%; 3',
    'float-div0': 'y! = 1 / z%',
    'subscript': 'qa%(i%) = 1',
    'subscript-read-mid': 'y% = 3 + qa%(i%)',
    'overflow-conv': 'y% = big&',
    'overflow-mid': 'y% = 1 + (big& * big&)',
    'illegal-call': 't$ = chr$(300 + z%)',
    'illegal-mid': 't$ = "a" + left$("x", neg%)',
    'out-of-data': 'read y%',
    'bad-data': 'restore bd\nread y%',
    'in-call-arg': 'call s(1 \\ z%)',
    'in-func-arg': 'y% = 2 + f%(1 \\ z%)',
    'in-sub': 'call dz',
    'in-function': 'y% = 1 + fz%(0)',
    'in-condition': 'if 1 \\ z% then print "t"',
    'in-for-bound': 'for k% = 1 to 1 \\ z%\nnext',
    'in-select': 'select case 1 \\ z%\ncase 1\nend select',
    'in-while': 'while 1 \\ z%\nwend',
    'in-dim': 'dim dd%(1 \\ z%)',
    'in-input-index': 'input qa%(i%)',
}
ERR_MODES = {
    'goto-resume-next': ('on error goto h\n', 'h:\nprint "h"; err\nresume next\n'),
    'goto-resume': ('on error goto h\n', 'h:\nprint "h"\nz% = 1\ni% = 1\nbig& = 1\nneg% = 1\nhc% = hc% + 1\nif hc% > 2 then end\nresume\n'),
    'resume-next-mode': ('on error resume next\n', ''),
    'goto-end': ('on error goto h\n', 'h:\nprint "h"; err\nend\n'),
    'goto-0-inside': ('on error goto h\n', 'h:\nprint "h"\non error goto 0\n'),
    'handler-uses-vars': ('on error goto h\n', 'h:\nhk% = hk% + 1\nht$ = ht$ + "x"\nprint hk%; ht$\nresume next\n'),
    'none': ('', ''),
}
ERR_TAIL = ('sub s(a%)\nprint a%\nend sub\nfunction f%(a%)\nf% = a%\nend function\n'
            'sub dz\ndim lt$\nlt$ = "q"\nlz% = 0\nly% = 1 \\ lz%\nprint "dz"\nend sub\n'
            'function fz%(a%)\ndim ft$\nft$ = "q"\nfz% = 1 \\ a%\nend function\n'
            'data 1\nbd:\ndata abc\n')


def fam_onerror(tier):
    for mn, (arm, handler) in ERR_MODES.items():
        for sn, stmt in ERR_SOURCES.items():
            src = ('dim qa%(2)\nhk% = 1\nht$ = "a"\nbig& = 70000\nneg% = -1\ni% = 5\nread y%\n' + arm + stmt +
                   '\nprint "after"; y%\n' + stmt.split('\n')[0].replace('dim dd%', 'dim de%') +
                   '\nprint "after2"\nend\n' + handler + ERR_TAIL)
            yield _case('onerror', f'{mn}:{sn}', src, [{'input': ['1']}])
    misc = {
        'rearm': 'on error goto h\nx% = 1 \\ z%\non error goto 0\non error goto h2\nx% = 1 \\ z%\nprint "end"\nend\nh:\nprint "h"\nresume next\nh2:\nprint "h2"\nresume next\n',
        'error-in-handler': 'on error goto h\nx% = 1 \\ z%\nprint "after"\nend\nh:\ny% = 1 \\ z%\nresume next\n',
        'onerror-in-handler': 'on error goto h\nx% = 1 \\ z%\nend\nh:\non error goto h\nresume next\n',
        'handler-falls-to-end': 'on error goto h\nx% = 1 \\ z%\nprint "after"\nh:\nprint "h"\n',
        'resume-without-error': 'resume next\n',
        'handler-in-loop': 'on error goto h\nfor i% = 1 to 3\nx% = 10 \\ (i% - 2)\nprint x%;\nnext\nend\nh:\nprint "h";\nresume next\n',
        'device-error': 'on error goto h\nbeep\nprint "after"\nend\nh:\nprint "h"; err\nresume next\n',
        'gosub-in-handler': 'on error goto h\nx% = 1 \\ z%\nprint "after"\nend\nh:\ngosub g\nresume next\ng:\nprint "g"\nreturn\n',
        'call-in-handler': 'on error goto h\nx% = 1 \\ z%\nprint "after"\nend\nh:\ncall s\nresume next\nsub s\nprint "s"\nend sub\n',
        'error-in-sub-handler-arith': ('on error goto h\nk% = 4\ncall s\nprint "after"\nend\nh:\nk% = k% + 1\nprint "h"; k%\nresume next\n'
                                       'sub s\ndim q as string\nq = "abc"\nx% = 0\ny% = 10 \\ x%\nprint "in s"\nend sub\n'),
        'onerror-inside-sub': 'call s\nprint "m"\nend\nh:\nprint "h"\nresume next\nsub s\non error goto h\nx% = 1 \\ z%\nprint "s"\nend sub\n',
    }
    for k, src in misc.items():
        sc = [{}]
        if k == 'device-error':
            sc = [{'_fail': ['pcspkr_beep']}]
        yield _case('onerror', k, src, sc)


# statement alphabet for the context and pair families
SNIPPETS = [
    'vi% = vi% + 1', 'vl& = vi% * 70000', 'vs! = vi% / 2', 'vd# = vs! ^ 2', 'vt$ = vt$ + "x"',
    'vi% = vs!', 'vi% = len(vt$)', 'vt$ = str$(vd#)', 'vi% = vt$ < "b"', 'vi% = not vi%',
    'qa%(1) = vi%', 'vi% = qa%(vi% mod 3)', 'qd#(1, 1) = vs!', 'qa$(2) = vt$', 'p.fs = vi%',
    'pa(1).ft = vt$', 'vi% = w.ib.fi + p.fi', 'gi = gi + 1', 'gr.fd = 1.5', 'ga(1) = vi%',
    'print vi%; vt$', 'print', 'print using "#.#"; vs!', 'input vi%', 'input "p"; vt$, vs!',
    'read vi%', 'read vt$', 'restore', 'if vi% then print 1', 'if vs! then vi% = 1 else vi% = 2',
    'if vi% > 1 then\nprint 1\nelse\nprint 2\nend if', 'for ki% = 1 to 2\nprint ki%;\nnext',
    'for ks! = 1 to 2 step .5\nnext', 'while vi% > 0\nvi% = vi% - 1\nwend',
    'do\nvi% = vi% - 1\nloop while vi% > 0', 'do until vi% <= 0\nvi% = vi% - 1\nloop',
    'select case vi%\ncase 1\nprint 1\ncase 2 to 3\nprint 2\ncase else\nend select',
    'select case vt$\ncase "a"\nprint 1\nend select', 'gosub sr', 'call sb(vi%, vt$)',
    'sb 1, "q"', 'call sb((vi%), vt$ + "x")', 'vi% = fn%(vi%)', 'vs! = fn%(1) + fs!(vs!)',
    'print fn%(fn%(1))', 'call sa(qa%())', 'call sr2(p)', 'cls', 'beep', 'color vi%, 1',
    'locate vi% + 1, 1', 'randomize vi%', 'vs! = rnd', 'vs! = timer', 'vt$ = inkey$',
    'vi% = peek(1)', 'poke 1, vi%', 'vi% = 1 \\ (vi% - vi%)', 'vi% = qa%(vi% + 9)',
    'vi% = 30000 + 30000', 'vt$ = chr$(vi% - 999)', 'on error goto hd', 'on error resume next',
    'on error goto 0', 'vi% = err', 'dim la&(2)', 'la&(1) = 5', 'dim ldy!(vi%)',
    'const kk = 5', 'vi% = ubound(qd#, 2)', 'vi% = instr(vt$, "b")', 'vt$ = mid$(vt$, 1, vi%)',
    'sound 440, 1', 'play "c"', 'view print 1 to 5', 'width 80', 'screen 0', 'def seg = 0',
]
SNIP_PRE = AGG + SCAL + 'dim shared hh%\n'
SNIP_TAIL = ('end\nsr:\nprint "sr"\nreturn\nhd:\nprint "hd"\nresume next\n'
             'sub sb(a%, b$)\na% = a% + 1\nb$ = b$ + "s"\nend sub\n'
             'function fn%(a%)\nfn% = a% + 1\nend function\n'
             'function fs!(a!)\nfs! = a! / 2\nend function\n'
             'sub sa(a%())\na%(1) = a%(1) + 1\nend sub\n'
             'sub sr2(r as rc)\nr.fi = r.fi + 1\nend sub\n'
             'data 1, 2, q, 4, 5, r, 7, 8\n')
SNIP_SCRIPT = [{'input': ['3', 'k,1.5', '4', 'm,2', '5', 'z,1']}]

CONTEXTS = {
    'main': '{s}\n',
    'in-if': 'if vi% then\n{s}\nend if\n',
    'in-else': 'if vi% = 99 then\nprint 0\nelse\n{s}\nend if\n',
    'in-for': 'for oi% = 1 to 2\n{s}\nnext\n',
    'in-do': 'do\n{s}\nhh% = hh% + 1\nloop until hh% > 1\n',
    'in-while': 'while hh% < 2\nhh% = hh% + 1\n{s}\nwend\n',
    'in-select': 'select case hh%\ncase 0\n{s}\ncase else\nend select\n',
    'in-gosub': 'gosub ctx\ngoto fin\nctx:\n{s}\nreturn\nfin:\n',
    'one-line-if': None,     # only for single-line snippets
    'after-onerror': 'on error resume next\n{s}\n',
}


def _snip_prog(body):
    return SNIP_PRE + body + SNIP_TAIL


def fam_context(tier):
    for cn, tpl in CONTEXTS.items():
        if tier == 'quick' and cn in ('in-else', 'in-do', 'in-while'):
            continue
        for i, s in enumerate(SNIPPETS):
            if cn == 'one-line-if':
                if '\n' in s:
                    continue
                body = f'if vi% then {s}: print "t" else {s}\n'
            else:
                body = tpl.format(s=s)
            yield _case('context', f'{cn}:{i}', _snip_prog(body), SNIP_SCRIPT)
    # every snippet inside a SUB and a FUNCTION body (own locals)
    for i, s in enumerate(SNIPPETS):
        if s.startswith('gosub') or s.startswith('on error goto hd'):
            continue
        decl = 'dim qa%(3)\ndim qd#(2, 2)\ndim qa$(3)\ndim p as rc\ndim pa(2) as rc\ndim w as nest\nvi% = 2\nvt$ = "ab"\n'
        for kind in ('sub', 'function'):
            head = 'sub body\n' if kind == 'sub' else 'function body%\n'
            call = 'call body\n' if kind == 'sub' else 'vi% = body%\n'
            src = (AGG + call + 'end\nsr:\nreturn\nhd:\nresume next\n' + head + decl + s + f'\nend {kind}\n' +
                   SNIP_TAIL.split('resume next\n', 1)[1])
            yield _case('context', f'in-{kind}:{i}', src, SNIP_SCRIPT)


def fam_pairs(tier):
    n = len(SNIPPETS) if tier != 'quick' else 0
    for i in range(n):
        for j in range(n):
            body = SNIPPETS[i] + '\n' + SNIPPETS[j] + '\n'
            yield _case('pairs', f'{i},{j}', _snip_prog(body), SNIP_SCRIPT)


FAMILIES = [('binop', fam_binop), ('unary', fam_unary), ('cond', fam_cond), ('for', fam_for),
            ('select', fam_select), ('gosub', fam_gosub), ('procs', fam_procs), ('agg', fam_agg),
            ('convert', fam_convert), ('io', fam_io), ('onerror', fam_onerror),
            ('context', fam_context), ('pairs', fam_pairs)]


def cases(tier):
    out = []
    for name, f in FAMILIES:
        out.extend(f(tier))
    return out
