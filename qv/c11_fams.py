"""C11's own program families (the block-shape family is qv.blockshapes).

Every program comes with a statement table in the format of
qv.blockshapes (id kind tag line start end parent blk text) so that
qv.c11_map.analyse can judge it; three optional keys are added:

    ev      prefix of the device event the statement produces when executed,
            e.g. ['dev', 'pcspkr', 'beep'] or ['peek']; if exactly one
            statement of a program has a given prefix, every executed `io`
            that produces such an event must be attributed to it
    trap    name of the run-time error the statement is constructed to raise;
            a run that ends with it must report the statement
    nocode  the statement is a declaration (information only)

Node forms accepted by `build`:
    ('s', kind, text[, extra])              simple statement; '{t}' in text
                                            is replaced by a fresh tag
    ('b', [(kind, text, body[, extra])...], (kind, text[, extra]))
                                            block: header clause, further
                                            clauses, terminator
    ('l', name)                             label glued to the next statement
    ('if1', text, then_nodes, else_nodes|None)   one-line IF
Layouts: 'nl' one statement per line, 'colon' statements joined with ': '
(SUB / FUNCTION / END SUB / TYPE lines and statements flagged eol keep their
own line).  `relayout` derives 'indent' and 'blank' variants of any program.
"""
import itertools
from . import blockshapes as bs

OWN_LINE = ('sub', 'function', 'endsub', 'endfunction', 'type', 'endtype', 'field')


class _B:
    def __init__(self, style):
        self.style = style
        self.chunks = []
        self.pos = 0
        self.line = 1
        self.stmts = []
        self.ntag = 100
        self.nhdr = 7000
        self.first = True
        self.force_nl = False
        self.glue = None

    def put(self, text):
        self.chunks.append(text)
        self.pos += len(text)
        self.line += text.count('\n')

    def text_of(self, text, hdr):
        if '{t}' not in text:
            return text, None
        if hdr:
            self.nhdr += 1
            t = self.nhdr
        else:
            self.ntag += 1
            t = self.ntag
        return text.replace('{t}', str(t)), t

    def atom(self, kind, text, parent, blk=None, extra=None, hdr=False, sep=True,
             open_span=False):
        extra = dict(extra or {})
        if sep and not self.first:
            if self.glue is not None:
                s = self.glue
            elif self.force_nl or self.style == 'nl' or kind in OWN_LINE:
                s = '\n'
            else:
                s = ': '
            self.put(s)
        self.first = False
        self.glue = None
        self.force_nl = bool(extra.pop('eol', False)) or kind in OWN_LINE
        text, tag = self.text_of(text, hdr)
        st = {'id': len(self.stmts), 'kind': kind, 'tag': tag, 'line': self.line,
              'start': self.pos, 'end': None, 'parent': parent, 'blk': blk, 'text': text}
        st.update(extra)
        self.stmts.append(st)
        self.put(text)
        if not open_span:
            st['end'] = self.pos
        return st['id']

    def body(self, nodes, parent):
        for n in nodes:
            self.node(n, parent)

    def inline(self, nodes, parent):
        for i, n in enumerate(nodes):
            if i:
                self.put(': ')
            assert n[0] == 's'
            self.atom(n[1], n[2], parent, extra=n[3] if len(n) > 3 else None, sep=False)

    def node(self, n, parent):
        k = n[0]
        if k == 's':
            self.atom(n[1], n[2], parent, extra=n[3] if len(n) > 3 else None)
        elif k == 'l':
            if not self.first:
                self.put('\n')
            self.stmts.append({'id': len(self.stmts), 'kind': 'label', 'tag': None,
                               'line': self.line, 'start': self.pos, 'end': self.pos + len(n[1]) + 1,
                               'parent': parent, 'blk': None, 'text': n[1] + ':', 'nocode': True})
            self.put(n[1] + ':')
            self.first = False
            self.force_nl = False
            self.glue = '\n' if self.style == 'nl' else ' '
        elif k == 'b':
            clauses, end = n[1], n[2]
            h = None
            for i, c in enumerate(clauses):
                cid = self.atom(c[0], c[1], parent, blk=h, hdr=True,
                                extra=c[3] if len(c) > 3 else None)
                if i == 0:
                    h = cid
                self.body(c[2], cid)
            self.atom(end[0], end[1], parent, blk=h, hdr=True,
                      extra=end[2] if len(end) > 2 else None)
        elif k == 'if1':
            _, text, then, else_ = n[:4]
            h = self.atom('if1', text + ' ', parent, hdr=True, open_span=True,
                          extra=n[4] if len(n) > 4 else None)
            self.inline(then, h)
            if else_ is not None:
                self.put(' ELSE ')
                self.inline(else_, h)
            st = self.stmts[h]
            st['end'] = self.pos
            st['text'] = ''.join(self.chunks)[st['start']:self.pos]
            self.force_nl = True
        else:
            raise ValueError(n)


def build(nodes, style='nl'):
    """-> (src, stmts)"""
    base = 'colon' if style == 'colon' else 'nl'
    b = _B(base)
    b.body(nodes, None)
    b.put('\n')
    src = ''.join(b.chunks)
    if style in ('indent', 'blank'):
        return relayout(src, b.stmts, style)
    return src, b.stmts


def relayout(src, stmts, mode):
    """'indent': every line indented by two blanks per nesting depth of its
    first statement (at least two); 'blank': a comment line first, and an
    empty line and a comment line between the lines.  -> (src, stmts)"""
    lines = src.split('\n')
    if lines and lines[-1] == '':
        lines.pop()
    starts = []
    p = 0
    for ln in lines:
        starts.append(p)
        p += len(ln) + 1
    first_on_line = {}
    for s in stmts:
        first_on_line.setdefault(s['line'], s)
    ins = []        # (old position, inserted text)
    for i, p in enumerate(starts):
        if mode == 'indent':
            s = first_on_line.get(i + 1)
            d = 1 + (len(bs.ancestors(stmts, s['id'])) if s else 0)
            ins.append((p, '  ' * d))
        else:
            ins.append((p, "' note\n" if i == 0 else "\n' note\n"))
    out = []
    for i, ln in enumerate(lines):
        out.append(ins[i][1] + ln + '\n')
    new_src = ''.join(out)

    def shift(off, inclusive):
        d = 0
        for p, t in ins:
            if p < off or (inclusive and p == off):
                d += len(t)
        return off + d
    new = []
    for s in stmts:
        s2 = dict(s)
        s2['start'] = shift(s['start'], True)
        s2['end'] = shift(s['end'], False)
        s2['line'] = new_src.count('\n', 0, s2['start']) + 1
        assert new_src[s2['start']:s2['end']] == src[s['start']:s['end']], (s, mode)
        new.append(s2)
    return new_src, new


# ---------------------------------------------------------------------------
# statement kinds

def P():
    return ('s', 'print', 'PRINT {t}')


DEVICE = [
    ('beep', 'BEEP', ['dev', 'pcspkr', 'beep']),
    ('cls', 'CLS', ['dev', 'terminal', 'cls']),
    ('color', 'COLOR 7, 1', ['dev', 'terminal', 'color']),
    ('locate', 'LOCATE 2, 3', ['dev', 'terminal', 'locate']),
    ('poke', 'POKE {t}, 1', ['dev', 'memory', 'poke']),
    ('peek', 'y% = PEEK({t})', ['peek']),
    ('defseg', 'DEF SEG = {t}', ['dev', 'memory', 'set_segment']),
    ('sound', 'SOUND {t}, 1', ['dev', 'pcspkr', 'sound']),
    ('play', 'PLAY "t{t}"', ['dev', 'pcspkr', 'play']),
    ('screen', 'SCREEN 0', ['dev', 'terminal', 'set_mode']),
    ('width', 'WIDTH 80', ['dev', 'terminal', 'width']),
    ('viewprint', 'VIEW PRINT 1 TO 24', ['dev', 'terminal', 'view_print']),
    ('randomize', 'RANDOMIZE {t}', ['dev', 'rng', 'seed']),
    ('rnd', 'y! = RND', ['rnd']),
    ('timerf', 'y! = TIMER + {t}', ['timer']),
    ('inkey', 'a$ = INKEY$', ['inkey']),
    ('input', 'INPUT y%', ['input']),
    ('inputp', 'INPUT "t{t}"; y%', ['input']),
    ('kill', 'KILL "t{t}"', ['dev', 'fs', 'kill']),
    ('bload', 'BLOAD "t{t}", 0', ['dev', 'memory', 'bload']),
    ('bsave', 'BSAVE "t{t}", 0, 1', ['dev', 'memory', 'bsave']),
]
PLAIN = [
    ('assign', 'y% = {t}'),
    ('let', 'LET y% = {t}'),
    ('sassign', 'a$ = "t{t}"'),
    ('dimarr', 'DIM a%({t})'),
    ('arrassign', 'b%(1) = {t}'),
    ('restore', 'RESTORE'),
    ('printusing', 'PRINT USING "####"; {t}'),
    ('prints', 'PRINT "t{t}";'),
]
NOCODE = [
    ('const', 'CONST k% = {t}', {}),
    ('data', 'DATA {t}', {'eol': True}),
    ('dimvar', 'DIM q%', {}),
    ('dimshared', 'DIM SHARED g%', {}),
    ('defint', 'DEFINT A-Z', {}),
    ('declare', 'DECLARE SUB zz ()', {}),
    ('rem', 'REM note', {'eol': True}),
    ('tick', "' note", {'eol': True}),
]
TRAPS = [
    ('divzero', 'y% = {t} \\ x%', 'DIVISION_BY_ZERO'),
    ('modzero', 'y% = {t} MOD x%', 'DIVISION_BY_ZERO'),
    ('fdivzero', 'y! = {t} / x%', 'DIVISION_BY_ZERO'),
    ('index', 'c%({t}) = 1', 'INDEX_OUT_OF_RANGE'),
    ('readempty', 'READ y%', 'DEVICE_ERROR'),
    ('midzero', 'a$ = MID$("t{t}", x%)', 'INVALID_OPERAND_VALUE'),
    ('chr', 'a$ = CHR$({t})', 'INVALID_OPERAND_VALUE'),
    ('overflow', 'y% = (x% + {t}) * 20000', 'INVALID_CELL_VALUE'),
    ('resume', 'RESUME', 'CANNOT_RESUME'),
    ('dimneg', 'DIM d%(x% - {t})', 'INDEX_OUT_OF_RANGE'),
    ('devfail', 'BEEP', 'DEVICE_ERROR'),
]
FAIL_DEVICES = ('pcspkr_beep',)
SCRIPT = {'timer': bs.TIMER_SCRIPT, 'input': ['5', '6', '7', '8'], 'inkey': ['k']}
ON_EMPTY = {'timer': 'raise'}


def kind_nodes():
    """[(class, name, node, simple?)]"""
    out = []
    for name, text, ev in DEVICE:
        out.append(('device', name, ('s', name, text, {'ev': ev})))
    for name, text in PLAIN:
        out.append(('plain', name, ('s', name, text)))
    for name, text, extra in NOCODE:
        out.append(('nocode', name, ('s', name, text, dict(extra, nocode=True))))
    out.append(('nocode', 'label', ('l', 'lb1')))
    for name, text, trap in TRAPS:
        out.append(('trap', name, ('s', name, text, {'trap': trap})))
    return out


def _if(cond, body, else_=None):
    cl = [('if', f'IF {cond} THEN', body)]
    if else_ is not None:
        cl.append(('else', 'ELSE', else_))
    return ('b', cl, ('endif', 'END IF'))


CONTEXTS = {
    # name: (builder, needs a simple statement)
    'top': lambda k: [P(), k, P()],
    'if': lambda k: [P(), _if('x% <> {t}', [k]), P()],
    'if-first': lambda k: [P(), _if('x% <> {t}', [k, P()]), P()],
    'if-last': lambda k: [P(), _if('x% <> {t}', [P(), k]), P()],
    'else': lambda k: [P(), _if('x% = {t}', [P()], [k]), P()],
    'for': lambda k: [P(), ('b', [('for', 'FOR i1% = {t} TO {t}', [k])], ('next', 'NEXT')), P()],
    'do': lambda k: [P(), ('b', [('do', 'DO', [k])], ('loop', 'LOOP UNTIL x% <> {t}')), P()],
    'while': lambda k: [P(), ('b', [('while', 'WHILE TIMER < {t}', [k])], ('wend', 'WEND')), P()],
    'select': lambda k: [P(), ('b', [('select', 'SELECT CASE {t}', []),
                                     ('case', 'CASE IS > 0', [k])],
                               ('endselect', 'END SELECT')), P()],
    'sub': lambda k: [P(), ('s', 'call', 'CALL s1'), P(),
                      ('b', [('sub', 'SUB s1', [k])], ('endsub', 'END SUB'))],
    'function': lambda k: [P(), ('s', 'fcall', 'y% = f1% + {t}'), P(),
                           ('b', [('function', 'FUNCTION f1%', [k])],
                            ('endfunction', 'END FUNCTION'))],
    'if1': lambda k: [P(), ('if1', 'IF x% <> {t} THEN', [k], None), P()],
    'if1-else': lambda k: [P(), ('if1', 'IF x% = {t} THEN', [P()], [k]), P()],
    'if1-mid': lambda k: [P(), ('if1', 'IF x% <> {t} THEN', [P(), k, P()], None), P()],
}
CTX_QUICK = ('top', 'if', 'if-last', 'do', 'sub', 'if1')
NO_IF1 = ('data', 'rem', 'tick', 'label', 'const', 'declare', 'defint', 'dimshared', 'dimvar',
          'dimarr', 'dimneg')


def kinds_programs(tier):
    """-> [(feat, nodes, style)]"""
    quick = tier == 'quick'
    out = []
    for cls, name, node in kind_nodes():
        for ctx in (CTX_QUICK if quick else tuple(CONTEXTS)):
            if ctx.startswith('if1') and (name in NO_IF1):
                continue
            nodes = CONTEXTS[ctx](node)
            if name in ('arrassign', 'index'):
                nodes = [('s', 'dimb', 'DIM b%(5)'), ('s', 'dimc', 'DIM c%(5)')] + nodes
            if name == 'restore':
                nodes = nodes + [('s', 'data', 'DATA {t}', {'eol': True, 'nocode': True})]
            for style in (('nl', 'colon') if quick else ('nl', 'colon', 'indent', 'blank')):
                out.append(({'construct': 'kind@' + ctx, 'kind': name, 'class': cls,
                             'style': style}, nodes, style))
    # EXIT FOR / EXIT SUB / EXIT FUNCTION / SYSTEM / END in place
    extra = [
        ('exitfor', [P(), ('b', [('for', 'FOR i1% = {t} TO {t}',
                                  [P(), ('s', 'exitfor', 'EXIT FOR'), P()])], ('next', 'NEXT')), P()]),
        ('exitfor-only', [P(), ('b', [('for', 'FOR i1% = {t} TO {t}',
                                       [('s', 'exitfor', 'EXIT FOR')])], ('next', 'NEXT')), P()]),
        ('exitsub', [P(), ('s', 'call', 'CALL s1'), P(),
                     ('b', [('sub', 'SUB s1', [P(), ('s', 'exitsub', 'EXIT SUB'), P()])],
                      ('endsub', 'END SUB'))]),
        ('exitsub-only', [P(), ('s', 'call', 'CALL s1'), P(),
                          ('b', [('sub', 'SUB s1', [('s', 'exitsub', 'EXIT SUB')])],
                           ('endsub', 'END SUB'))]),
        ('exitfunction', [P(), ('s', 'fcall', 'y% = f1% + {t}'), P(),
                          ('b', [('function', 'FUNCTION f1%',
                                  [P(), ('s', 'exitfunction', 'EXIT FUNCTION'), P()])],
                           ('endfunction', 'END FUNCTION'))]),
        ('system', [P(), ('s', 'system', 'SYSTEM'), P()]),
        ('typeblock', [P(), ('b', [('type', 'TYPE rec', [('s', 'field', 'f AS INTEGER',
                                                          {'nocode': True})])],
                             ('endtype', 'END TYPE')), P()]),
        ('sub-params', [P(), ('s', 'call', 'CALL s1({t}, y%)'), ('s', 'call', 's1 {t}, y%'), P(),
                        ('b', [('sub', 'SUB s1 (a%, b%)', [P()])], ('endsub', 'END SUB'))]),
        ('function-params', [P(), ('s', 'fcall', 'y% = f1%({t}) + {t}'), P(),
                             ('b', [('function', 'FUNCTION f1% (a%)',
                                     [P(), ('s', 'setret', 'f1% = a% + {t}')])],
                              ('endfunction', 'END FUNCTION'))]),
        ('two-subs', [('s', 'call', 'CALL s1'), ('s', 'call', 'CALL s2'), P(),
                      ('b', [('sub', 'SUB s1', [P(), ('s', 'call', 'CALL s2')])], ('endsub', 'END SUB')),
                      ('b', [('sub', 'SUB s2', [P()])], ('endsub', 'END SUB'))]),
        ('sub-static', [('s', 'call', 'CALL s1'), P(),
                        ('b', [('sub', 'SUB s1 STATIC', [('s', 'assign', 'n% = n% + {t}'), P()])],
                         ('endsub', 'END SUB'))]),
    ]
    for name, nodes in extra:
        for style in ('nl', 'colon', 'indent', 'blank'):
            out.append(({'construct': name, 'kind': name, 'class': 'extra', 'style': style},
                        nodes, style))
    return out


# ---------------------------------------------------------------------------
# run-time errors and device calls raised by the expression of a block
# header, clause or terminator (their records are synthesised)

DZ = '({t} \\ x%)'          # division by zero, tagged
TM = '(TIMER + {t})'        # device call, tagged


def header_programs(tier):
    out = []
    for what, E in (('dz', DZ), ('tm', TM)):
        X = {'trap': 'DIVISION_BY_ZERO'} if what == 'dz' else {'ev': ['timer']}

        def c(kind, text, body=None):
            """clause / terminator whose expression is the marked one"""
            text = text.replace('@', E)
            return (kind, text, X) if body is None else (kind, text, list(body), X)

        for bname, body in (('E', []), ('P', [P()])):
            B = lambda: list(body)
            sub = ('b', [('sub', 'SUB s1 (a%)', B())], ('endsub', 'END SUB'))
            fun = ('b', [('function', 'FUNCTION f1% (a%)', B())], ('endfunction', 'END FUNCTION'))
            progs = [
                ('if', ('b', [c('if', 'IF @ THEN', body)], ('endif', 'END IF'))),
                ('elseif', ('b', [('if', 'IF x% = {t} THEN', B()), c('elseif', 'ELSEIF @ THEN', body)],
                            ('endif', 'END IF'))),
                ('elseif-else', ('b', [('if', 'IF x% = {t} THEN', B()), c('elseif', 'ELSEIF @ THEN', body),
                                       ('else', 'ELSE', B())], ('endif', 'END IF'))),
                ('while', ('b', [c('while', 'WHILE @', body)], ('wend', 'WEND'))),
                ('do-while', ('b', [c('do', 'DO WHILE @', body)], ('loop', 'LOOP'))),
                ('do-until', ('b', [c('do', 'DO UNTIL @', body)], ('loop', 'LOOP'))),
                ('loop-while', ('b', [('do', 'DO', B())], c('loop', 'LOOP WHILE @ < 0'))),
                ('loop-until', ('b', [('do', 'DO', B())], c('loop', 'LOOP UNTIL @'))),
                ('for-from', ('b', [c('for', 'FOR i1% = @ TO 1', body)], ('next', 'NEXT'))),
                ('for-to', ('b', [c('for', 'FOR i1% = 1 TO @', body)], ('next', 'NEXT'))),
                ('for-step', ('b', [c('for', 'FOR i1% = 1 TO 1 STEP @', body)], ('next', 'NEXT'))),
                ('select', ('b', [c('select', 'SELECT CASE @', []), ('case', 'CASE {t}', B())],
                            ('endselect', 'END SELECT'))),
                ('case', ('b', [('select', 'SELECT CASE {t}', []), c('case', 'CASE @', body)],
                          ('endselect', 'END SELECT'))),
                ('case2', ('b', [('select', 'SELECT CASE {t}', []), ('case', 'CASE {t}', B()),
                                 c('case', 'CASE 1 TO @', body), ('caseelse', 'CASE ELSE', B())],
                           ('endselect', 'END SELECT'))),
                ('if1', ('if1', 'IF @ THEN'.replace('@', E), [P()], None, X)),
                ('if1-else', ('if1', 'IF @ THEN'.replace('@', E), [P()], [P()], X)),
            ]
            progs = [(n, [P(), node, P()]) for n, node in progs]
            progs.append(('call-arg', [P(), ('s', 'call', 'CALL s1(@)'.replace('@', E), X), P(), sub]))
            progs.append(('fcall-arg', [P(), ('s', 'fcall', 'y% = f1%(@) + 1'.replace('@', E), X), P(), fun]))
            if what == 'dz':
                # NEXT overflows when it increments the counter
                progs.append(('next-overflow',
                              [P(), ('b', [('for', 'FOR i1% = 32767 TO 32767', B())],
                                     ('next', 'NEXT', {'trap': 'INVALID_CELL_VALUE'})), P()]))
            for name, nodes in progs:
                if bname == 'P' and name.startswith('if1'):
                    continue
                for style in ('nl', 'colon') if tier == 'quick' else ('nl', 'colon', 'indent', 'blank'):
                    out.append(({'construct': 'hdr-' + name, 'kind': what, 'bodies': bname,
                                 'style': style}, nodes, style))
    return out


# ---------------------------------------------------------------------------
# two adjacent constructs (no statement between them): empty-block markers
# and synthesised records of neighbours must not be confused

def pair_programs(tier):
    """-> [(feat, shape_items, style)] rendered with bs.render.
    first construct from all depth-1 shapes of level 'small' (quick: the
    empty-bodied ones), second from one representative per construct kind"""
    shapes = []
    for shape, f in bs.depth1('small'):
        if shape[0] in ('call', 'func'):
            continue
        names = set(f.get('bodies', '-').replace('none', 'E').split('/'))
        if tier == 'quick' and names - {'E', '-'}:
            continue            # quick: empty bodies only
        shapes.append((shape, f))
    if True:
        second, seen = [], set()
        for shape, f in shapes:
            k = (f['construct'], f.get('elseif'), f.get('else'), f.get('cases'))
            if k not in seen:
                seen.add(k)
                second.append((shape, f))
    out = []
    for (a, fa), (b, fb) in itertools.product(shapes, second):
        feat = {'construct': fa['construct'] + ',' + fb['construct'],
                'outer': {k: v for k, v in fa.items() if k != 'construct'},
                'inner': {k: v for k, v in fb.items() if k != 'construct'}}
        for pre in ((('P',),), ()):
            items = list(pre) + [a, b] + ([('P',)] if pre else [])
            for style in ('nl',) if tier == 'quick' else ('nl', 'colon'):
                out.append((dict(feat, style=style, bare=not pre), items, style))
    return out


def layout_programs(tier):
    """block-shape programs (depth 1, one statement per line) re-laid out with
    indentation and with comment / empty lines -> [(feat, shape_items, mode)]"""
    out = []
    seen = set()
    for shape, f in bs.depth1('full' if tier != 'quick' else 'inner'):
        key = repr(shape)
        if key in seen:
            continue
        seen.add(key)
        for mode in ('indent', 'blank'):
            out.append((dict(f, style=mode), bs.wrap(shape), mode))
    return out
