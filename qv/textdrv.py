"""Loop driver shared by C16 / C17 / C19.

One compiled program serves thousands of cases: the program is a `DO ... LOOP`
whose body starts with `BEEP` (iteration boundary, a non-print device call that
the environment sees) and takes its case data from the environment (INPUT lines
/ RND answers).  `LoopEnv` hands out the answers of one iteration at a time and
collects what the program printed, cut in segments at every INPUT question.

If an iteration kills the machine (trap / host exception) the driver records
how it ended and starts a fresh machine on the same module; the next BEEP takes
the next iteration, so one bad case never hides the following ones.

For loops that consume DATA (the position in the DATA list lives in the
machine) `snapshots=True` forks the machine after every BEEP; after a failure
the fork is resumed with the iteration's `skip` answers, which make the program
step over the offending items.
"""
from . import impl


class Stuck(BaseException):
    """an INPUT statement kept rejecting the answers of one iteration"""


class LoopEnv(impl.Env):
    def __init__(self, iterations, max_inputs=6):
        super().__init__({})
        self.iters = iterations      # list of dicts: inputs, rnd, fallback, skip
        self.pos = -1
        self.records = [None] * len(iterations)
        self.cur = None              # record of the running iteration
        self.preamble = {'seg': [''], 'inputs': 0, 'end': None}
        self.max_inputs = max_inputs
        self.boundary = False
        self.skipping = None         # list of answers while stepping over
        self.other = 0               # device calls that are not print/input/rnd/beep

    def __deepcopy__(self, memo):    # forks of the machine share the environment
        memo[id(self)] = self
        return self

    # -- iteration boundary
    def pcspkr_beep(self):
        self.skipping = None
        self.pos += 1
        if self.pos >= len(self.iters):
            self.cur = None
            raise impl.Exhausted('iterations')
        it = self.iters[self.pos]
        self.cur = {'seg': [''], 'inputs': 0, 'extra': 0, 'end': None,
                    'in': list(it.get('inputs', ())), 'rnd': list(it.get('rnd', ())),
                    'answers': []}
        self.records[self.pos] = self.cur
        self.boundary = True

    def start_skip(self):
        """resume a snapshot of the current iteration in skip mode"""
        it = self.iters[self.pos]
        self.skipping = list(it.get('skip', ()))

    def _rec(self):
        return self.cur if self.cur is not None else self.preamble

    def terminal_print(self, text):
        if self.skipping is not None:
            return
        self._rec()['seg'][-1] += text

    def terminal_input(self, same_line):
        if self.skipping is not None:
            if not self.skipping:
                raise Stuck()
            return self.skipping.pop(0)
        r = self.cur
        if r is None:
            raise impl.Exhausted('input before the first iteration')
        r['seg'].append('')
        r['inputs'] += 1
        if r['in']:
            a = r['in'].pop(0)
            if callable(a):
                a = a(r)
        else:
            r['extra'] += 1
            if r['inputs'] > self.max_inputs:
                raise Stuck()
            a = self.iters[self.pos].get('fallback', '0')
        r['answers'].append(a)
        return a

    def rng_get_next(self):
        r = self.cur
        if r is None or not r['rnd']:
            raise impl.Exhausted('rnd')
        return r['rnd'].pop(0)

    def time_get_time(self):
        return self.rng_get_next()

    def __getattr__(self, attr):
        if attr.startswith('_') or attr in ('iters', 'pos', 'records', 'cur', 'preamble',
                                            'max_inputs', 'boundary', 'skipping', 'other',
                                            'q', 'on_empty', 'fail', 'missing', 'events', 'consumed'):
            raise AttributeError(attr)
        for d in ('data', 'memory', 'pcspkr', 'rng', 'terminal', 'time', 'fs', 'misc'):
            if attr.startswith(d + '_'):
                def rec(*args):
                    self.other += 1
                return rec
        raise AttributeError(attr)


def drive(module, iterations, tick_budget=20000, snapshots=False, max_inputs=6):
    """-> (records, info).  records[i] = dict(seg=[text...], inputs, extra, end)
    with end None (iteration completed) or ('trap', name) | ('hostexc', type,
    where) | ('stuck',) | ('horizon',) | ('program-ended', how); records[i] is
    None if the iteration never started."""
    env = LoopEnv(iterations, max_inputs=max_inputs)
    info = {'machines': 0, 'ticks': 0, 'aborted': None}
    code_len = len(module.code)
    n = len(iterations)
    m = None
    resume = None
    while env.pos < n - 1 or resume is not None:
        resumed = resume is not None
        if resumed:
            m = resume
            resume = None
        else:
            m = impl.new_machine(module, env)
            info['machines'] += 1
        cpu = m.cpu
        pos_at_start = env.pos
        snap = None
        since = 0
        end = None
        try:
            with impl.quiet():
                while not cpu.halted:
                    if cpu.pc >= code_len:
                        end = ('program-ended', 'eoc')
                        break
                    cpu.tick()
                    info['ticks'] += 1
                    since += 1
                    if env.boundary:
                        env.boundary = False
                        since = 0
                        if snapshots:
                            snap = impl.fork_machine(m)
                    elif since > tick_budget:
                        end = ('horizon',)
                        break
        except impl.Exhausted as e:
            if env.pos >= n:
                break                      # all iterations served
            end = ('exhausted', str(e.kind))
        except Stuck:
            end = ('stuck',)
        except (impl.Timeout, KeyboardInterrupt):
            raise
        except BaseException as e:        # host exception escaping tick()
            end = ('hostexc', type(e).__name__, impl._where(e.__traceback__))
        if end is None:
            hr = getattr(cpu.halt_reason, 'name', str(cpu.halt_reason))
            if hr == 'TRAP':
                end = ('trap', cpu.last_trap.name if cpu.last_trap else None)
            else:
                end = ('program-ended', hr)
        was_skipping = env.skipping is not None
        env.skipping = None
        if env.cur is None or was_skipping or (env.pos == pos_at_start and not resumed):
            # failure outside any iteration (preamble, or while stepping over)
            env.preamble['end'] = end
            info['aborted'] = end
            break
        if env.cur['end'] is None:
            env.cur['end'] = end
        if snapshots and snap is not None and iterations[env.pos].get('skip') is not None:
            env.start_skip()
            resume = snap
    info['preamble'] = env.preamble
    info['other_device_calls'] = env.other
    return env.records, info


def lines_of(text):
    """split printed text into lines on CR LF (a last unterminated piece is kept)"""
    parts = text.split('\r\n')
    return parts
