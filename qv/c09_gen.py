"""C09 - program generators.  Every generated program is identified by a
small JSON-able *spec*; `build(spec)` -> (source text, meta).  meta may hold
  expect_print   exact text the program prints when run (VM view of literals)
  must_literals  texts that must be in the literal table
  limits         input-side size classes the program exceeds (ledger features)
"""
import itertools

from . import corpus

# ---------------------------------------------------------------------------
# statement templates.  {L} integer-valued lvalue, {T} string lvalue,
# {U} a suffix that makes labels unique when two templates are combined.

PRE = ('type pt\nx as integer\ny as long\nend type\n'
       'type ln\na as pt\nb as pt\ns as string\nend type\n'
       'dim shared gi as integer\ndim shared gs as string\ndim shared gr as ln\n'
       'dim shared ga(1 to 3) as integer\ndim shared gpa(1 to 2, 0 to 1) as pt\n')
LOCALS = ('dim li as integer\ndim ls as string\ndim lr as ln\ndim la(2) as long\n'
          'dim lpa(1 to 2) as pt\n')
HELPERS = ('sub p1(a%)\na% = a% + 1\nend sub\n'
           'sub p2(a%, b$)\nend sub\n'
           'sub prc(r as ln)\nr.a.x = 1\nend sub\n'
           'sub pa(arr() as long)\narr(1) = 2\nend sub\n'
           'function f1%(a%)\nf1% = a% * 2\nend function\n'
           'function f2$(s$)\nf2$ = s$ + "!"\nend function\n')
MAIN_TAIL = 'end\neh: resume next\ndlab: data 1, "two", , 3\ndata 4,5\n'

TEMPLATES_L = [
    '{L} = 1',
    '{L} = {L} + 2',
    '{L} = -{L}',
    'input {L}',
    'input "n"; {L}, li',
    'read {L}',
    'if {L} then beep',
    'while {L} < 3: {L} = {L} + 1: wend',
    'select case {L}\ncase 1\nbeep\ncase 2 to 3\ncls\ncase is > 5, 7\nbeep\ncase else\nend select',
    'call p1({L})',
    'p1 {L}',
    'print {L}; {L} * 2, {L}',
    'li = f1%({L})',
    'print using "##"; {L}',
]
TEMPLATES_T = [
    '{T} = "lit"',
    '{T} = {T} + "lit2" + "lit"',
    'input "p$"; {T}',
    'read {T}',
    'print {T}; "s"; {T}',
    'if {T} = "a" then beep',
    'select case {T}\ncase "a"\nbeep\ncase "b" to "c"\ncls\ncase else\nend select',
    'call p2(li, {T})',
    '{T} = f2$({T})',
    'li = len({T}) + asc({T}) + instr({T}, "x") + instr(2, {T}, "y")',
    '{T} = lcase$({T}) + ucase$({T}) + ltrim$({T}) + rtrim$({T})',
    '{T} = left$({T}, 1) + right$({T}, 2) + mid$({T}, 2) + mid$({T}, 1, 1)',
    'li = val({T})',
]
TEMPLATES_0 = [
    'beep', 'cls', 'print', 'print "only"', 'print 1; 2, 3;',
    'x# = 1.5: y! = 2.25: z& = 70000: w% = -3',
    'x# = 0#: x# = 1#: x# = 2#: x# = -1#: x# = -2#: x# = 1d300',
    'y! = 0: y! = 1: y! = 2: y! = -1: y! = -2: y! = .1: y! = 3.4e38',
    'z& = 0: z& = 1: z& = 2: z& = -1: z& = -2: z& = 2147483647: z& = -2147483647',
    'w% = 0: w% = 1: w% = 2: w% = -1: w% = -2: w% = 32767: w% = -32768: w% = &h7fff',
    'li = 3 + 4 * 2 - 1: y! = 7 / 2: li = 7 \\ 2: li = 7 mod 3: y! = 2 ^ 3',
    'li = (li and 3) or (li xor 5): li = li eqv 1: li = li imp 2: li = not li',
    'li = (li < 1) + (li <= 1) + (li > 1) + (li >= 1) + (li = 1) + (li <> 1)',
    'li = abs(li) + cint(2.5) + int(2.5) + qv: z& = clng(2.5)',
    'ls = chr$(65) + space$(2) + str$(li) + string$(2, 65) + string$(2, "ab")',
    'y! = rnd: y! = rnd(1): y! = timer: ls = inkey$: li = peek(1)',
    'li = lbound(la) + ubound(la) + lbound(gpa, 2) + ubound(gpa, 1)',
    'if li = 1 then beep else cls',
    'if li then\nbeep\nelseif li = 2 then\ncls\nelse\nprint\nend if',
    'if 0 then beep',
    'if 1 then beep else cls',
    'for i% = 1 to 3: li = i%: next',
    'for j = 3 to 1 step -1\nif j = 2 then exit for\nnext j',
    'for k& = 1 to 2: for m# = 1 to 2: next m#, k&',
    'while 0: wend',
    'do: loop until 1',
    'do while li < 2: li = li + 1: loop',
    'do until li > 2\nli = li + 1\nif li = 9 then exit do\nloop',
    'do: li = li + 1: loop while li < 3',
    'do\nexit do\nloop',
    'goto fw{U}\nbeep\nfw{U}:',
    'bk{U}:\nli = li + 1\nif li < 3 then goto bk{U}',
    'gosub gs{U}\ngoto sk{U}\ngs{U}: return\nsk{U}:',
    '10{U} li = li + 1\nif li < 3 then goto 10{U}',
    'on error goto eh',
    'on error goto 0',
    'on error resume next',
    'read li, ls',
    'restore',
    'dim loc{U}(3) as integer: loc{U}(1) = 2',
    'dim d2{U}(1 to 2, 1 to 3) as string: d2{U}(1, 2) = "e"',
    'dim dr{U} as pt: dr{U}.y = 5',
    'dim dpa{U}(-1 to 1) as ln: dpa{U}(0).b.y = 5: z& = dpa{U}(-1).a.y',
    'li = 2: dim dyn{U}(li) as long: dyn{U}(1) = 4: z& = dyn{U}(0)',
    'dim sc{U} as double: sc{U} = 1',
    'imp{U}(3) = 1: li = imp{U}(2)',
    'const c{U} = 5: li = c{U}',
    'const cs{U}$ = "cs": print cs{U}$',
    'const cc{U}$ = "c" + "d": print cc{U}$',
    'call p1(li + 1)',
    'p2 3, "x"',
    'call prc(lr)',
    'prc gr',
    'call pa(la())',
    'li = f1%(2) + f1%(li)',
    'print f2$("q")',
    'lr.a.x = 1: lr.a.y = 2: lr.b.x = 3: lr.b.y = 4: lr.s = "f"',
    'li = lr.a.x + lr.b.x: z& = lr.b.y: ls = lr.s',
    'gr.b.y = 7: z& = gr.b.y: gs = gr.s',
    'la(0) = 1: la(li) = la(0) + 1',
    'lpa(1).x = 1: lpa(2).y = 2: li = lpa(1).x: z& = lpa(2).y',
    'ga(1) = 1: gpa(2, 1).y = 2: li = ga(1): z& = gpa(1, 0).y',
    'color 1: color 1, 2: color 1, 2, 3: color , 2',
    'locate 1, 2: locate 1: locate , 2: locate 1, 2, 1',
    'screen 0: width 80: width 80, 25: view print 1 to 2: view print',
    'sound 100, 1: play "c": poke 1, 2: def seg = 0: def seg',
    'randomize 1: randomize timer',
    'kill "f": bload "f", 0: bsave "f", 0, 1',
    'input ; li',
    'input "q", li',
    'print using "##.#"; 1.5; 2.5',
    'print using "&"; ls',
    'li = err',
    'defint q: qq = 1',
    "rem nothing\n' nothing",
    'end',
    'system',
]
# templates that are only meaningful inside a routine / at module level
TEMPLATES_SUB = ['exit sub', 'static st{U} as long: st{U} = st{U} + 1',
                 'static sa{U}(2) as integer: sa{U}(1) = 1']
TEMPLATES_FUNC = ['exit function', 'tf% = 3', 'static st{U} as long: st{U} = st{U} + 1']
TEMPLATES_MAIN = ['restore dlab', 'data 9, "z",', 'resume', 'resume next', 'dl{U}: data "after label"\nrestore dl{U}']

LV_MAIN = ['li', 'n%', 'gi', 'lr.a.x', 'lr.b.x', 'la(1)', 'lpa(2).x', 'ga(2)',
           'gpa(1, 1).x', 'gr.b.x', 'z&', 'lr.b.y']
LV_SUB = LV_MAIN + ['pi', 'prr.b.x', 'parr(1)', 'si', 'prr.a.y']
TV_MAIN = ['ls', 's$', 'gs', 'lr.s', 'gr.s']
TV_SUB = TV_MAIN + ['ps', 'prr.s', 'ss']

CONTEXTS = ['main', 'sub', 'func', 'staticsub']
PARAMS = '(pi as integer, prr as ln, parr() as long, ps as string, pv!)'


def _wrap(context, body):
    if context == 'main':
        return PRE + LOCALS + body + '\n' + MAIN_TAIL + HELPERS
    call = 'dim xli as integer\ndim xls as string\ndim xlr as ln\ndim xla(2) as long\n'
    if context == 'func':
        return (PRE + call + 'xli = tf%(xli, xlr, xla(), xls, 2.5)\n' + MAIN_TAIL + HELPERS +
                'function tf%' + PARAMS + '\n' + LOCALS +
                'static si as integer\nstatic ss as string\n' + body + '\ntf% = 1\nend function\n')
    st = ' static' if context == 'staticsub' else ''
    return (PRE + call + 'call t(xli, xlr, xla(), xls, 2.5)\n' + MAIN_TAIL + HELPERS +
            'sub t' + PARAMS + st + '\n' + LOCALS +
            'static si as integer\nstatic ss as string\n' + body + '\nend sub\n')


def _templates(context):
    t = [('L', x) for x in TEMPLATES_L] + [('T', x) for x in TEMPLATES_T] + \
        [('0', x) for x in TEMPLATES_0]
    if context == 'main':
        t += [('0', x) for x in TEMPLATES_MAIN]
    elif context == 'func':
        t += [('0', x) for x in TEMPLATES_FUNC]
    else:
        t += [('0', x) for x in TEMPLATES_SUB]
    return t


def _fill(tpl, lv, tv, u):
    return tpl.replace('{L}', lv).replace('{T}', tv).replace('{U}', str(u))


def stmts_specs():
    out = []
    for ctx in CONTEXTS:
        lvs = LV_MAIN if ctx == 'main' else LV_SUB
        tvs = TV_MAIN if ctx == 'main' else TV_SUB
        for ti, (kind, tpl) in enumerate(_templates(ctx)):
            if kind == 'L':
                for li in range(len(lvs)):
                    out.append(['stmts', ctx, ti, li])
            elif kind == 'T':
                for li in range(len(tvs)):
                    out.append(['stmts', ctx, ti, li])
            else:
                out.append(['stmts', ctx, ti, 0])
    return out


def pairs_specs():
    out = []
    for ctx in ('main', 'sub'):
        n = len(_templates(ctx))
        for i in range(n):
            for j in range(n):
                out.append(['pairs', ctx, i, j])
    return out


# ---------------------------------------------------------------------------
# content family

CP437_POS = ['print', 'assign', 'prompt', 'dataq', 'datau', 'const']


def cp437_specs():
    return [['cp437', pos, b] for pos in CP437_POS for b in range(256) if b != 0x22]


def _cp437(pos, b):
    ch = bytes([b]).decode('cp437')
    meta = {}
    if pos == 'print':
        src = f'print "{ch}";'
        meta['expect_print'] = ch
        meta['must_literals'] = [ch]
    elif pos == 'assign':
        src = f'a$ = "x{ch}y" + "{ch}{ch}"\nprint a$;'
        meta['expect_print'] = f'x{ch}y{ch}{ch}'
        meta['must_literals_O0'] = [f'x{ch}y', ch + ch]
    elif pos == 'prompt':
        src = f'input "{ch}?"; a$'
        meta['must_literals'] = [ch + '?']
    elif pos == 'dataq':
        src = f'data "{ch}", " {ch} ", 1\nread a$, b$\nprint a$; b$;'
        meta['expect_print'] = f'{ch} {ch} '
    elif pos == 'datau':
        src = f'data p{ch}q, 2\nread a$\nprint a$;'
        # a comma ends the item; every other byte is part of it
        meta['expect_print'] = 'p' if ch == ',' else f'p{ch}q'
        meta['expect_print_if_data'] = True
    else:
        src = f'const k$ = "{ch}k"\nprint k$; "{ch}k";'
        meta['expect_print'] = f'{ch}k{ch}k'
        meta['must_literals'] = [ch + 'k']
    return src, meta


DATA_ITEMS = ['', 'a', 'b c', ' d ', '"e"', '""', '"f,g"', ' "h" ', '"i:j"', '-1.5']


def datalayout_specs(maxlen):
    out = []
    for n in range(1, maxlen + 1):
        for seq in itertools.product(range(len(DATA_ITEMS)), repeat=n):
            out.append(['datalayout', list(seq), 0, 'none'])
            if n <= 3:
                for cut in range(1, n):
                    out.append(['datalayout', list(seq), cut, 'stmt'])
                    out.append(['datalayout', list(seq), cut, 'label'])
                out.append(['datalayout', list(seq), n, 'colon'])
    out.append(['datalayout', [], 0, 'none'])
    out.append(['datalayout', [], 0, 'bare2'])
    return out


def _datalayout(seq, cut, mode):
    items = [DATA_ITEMS[i] for i in seq]
    if mode == 'bare2':
        src = 'data\nmid:\ndata\n'
    elif mode == 'none':
        src = 'data ' + ','.join(items) + '\n'
    elif mode == 'colon':
        src = 'top: data ' + ','.join(items) + ': print "x": data 7\n'
    else:
        a = 'data ' + ','.join(items[:cut]) + '\n'
        b = 'data ' + ','.join(items[cut:]) + '\n'
        src = a + ('second:\n' if mode == 'label' else '') + b
    src += 'read a$\nrestore\n'
    return src, {}


# ---------------------------------------------------------------------------
# size family

LIT_PER_LINE = 1024
DATA_PER_LINE = 4096


def lit_lines(n):
    lines = []
    for a in range(0, n, LIT_PER_LINE):
        lines.append('print ' + ';'.join('"%d"' % i for i in range(a, min(n, a + LIT_PER_LINE))) + ';')
    return lines


def data_item(k):
    if k % 5 == 3:
        return ''
    if k % 5 == 1:
        return '"q%d"' % k
    return str(k)


def limits_of(**kw):
    """input-side size classes (features for the ledger); each names the
    narrowest limit of the module format the program exceeds"""
    out = []
    if kw.get('n_literals', 0) > 65536:
        out.append('literals>65536')
    elif kw.get('n_literals', 0) > 32768:
        out.append('literal-index>32767')
    if kw.get('literal_len', 0) > 65535:
        out.append('literal-length>65535')
    if kw.get('part_items', 0) > 65535:
        out.append('data-part-items>65535')
    elif kw.get('part_items', 0) > 32767:
        out.append('data-part-items>32767')
    if kw.get('item_len', 0) > 32767:
        out.append('data-item-length>32767')
    if kw.get('parts', 0) > 65535:
        out.append('data-parts>65535')
    if kw.get('frame_cells', 0) > 65535:
        out.append('frame-cells>65535')
    if kw.get('local_slot', 0) > 65535:
        out.append('local-slot>65535')
    if kw.get('global_slot', 0) > 65535:
        out.append('global-slot>65535')
    return out


def _sizes(kind, n, *rest):
    meta = {}
    if kind == 'nlits':
        lines = lit_lines(n) or ['print;']
        src = '\n'.join(lines) + '\n'
        meta['expect_print'] = ''.join(str(i) for i in range(n))
        meta['limits'] = limits_of(n_literals=n)
        meta['n_literals'] = n
    elif kind == 'ndata':
        mode = rest[0]          # 'one' part | 'multi' parts of DATA_PER_LINE items
        lines = []
        for a in range(0, n, DATA_PER_LINE):
            if mode == 'multi':
                lines.append('part%d:' % (a // DATA_PER_LINE))
            lines.append('data ' + ','.join(data_item(k) for k in range(a, min(n, a + DATA_PER_LINE))))
        lines.append('read a$')
        src = '\n'.join(lines) + '\n'
        meta['limits'] = limits_of(part_items=n if mode == 'one' else min(n, DATA_PER_LINE))
    elif kind == 'nparts':
        lines = ['p%d: data %d' % (k, k) for k in range(n)]
        if n:
            lines.append('restore p%d' % (n - 1))
        src = '\n'.join(lines) + '\n'
        meta['limits'] = limits_of(parts=n) + (['restore-part-index>32767'] if n - 1 > 32767 else [])
    elif kind == 'nlabels':
        lines = []
        if n:
            lines = ['on error goto l%d' % (n - 1), 'if x%% then goto l%d' % (n // 2),
                     'if x%% then gosub l%d' % (n - 1), 'if x% then goto l0', 'end']
        lines += ['l%d: beep' % k for k in range(n)]
        lines.append('return')
        src = '\n'.join(lines) + '\n'
    elif kind == 'nroutines':
        lines = []
        if n:
            lines = ['call r0', 'call r%d' % (n - 1), 'r%d' % (n // 2)]
        for k in range(n):
            lines += ['sub r%d' % k, 'end sub']
        src = '\n'.join(lines) + '\n'
    elif kind == 'litlen':
        txt = ('abcdefghij' * (n // 10 + 1))[:n]
        src = 'print "' + txt + '";\n'
        meta['expect_print'] = txt
        meta['must_literals'] = [txt]
        meta['limits'] = limits_of(literal_len=n)
    elif kind == 'itemlen':
        q = rest[0]
        txt = ('abcdefghij' * (n // 10 + 1))[:n]
        src = ('data "%s", 1\n' if q == 'quoted' else 'data %s, 1\n') % txt + 'read a$\n'
        meta['limits'] = limits_of(item_len=n)
    elif kind == 'framecells':
        # one static array so that the frame has exactly n cells before v%
        where = rest[0]       # 'main' | 'sub' | 'global'
        k = n - 5             # array of k elements: 5 + k cells
        decl = 'dim shared' if where == 'global' else 'dim'
        body = f'{decl} big(0 to {k - 1}) as integer\n{decl} v as integer\nv = 1\nbig({k - 1}) = v\n'
        if where == 'sub':
            src = 'call s\nsub s\n' + body + 'end sub\n'
        else:
            src = body
        if where == 'global':
            meta['limits'] = limits_of(global_slot=n)
        else:
            meta['limits'] = limits_of(frame_cells=n + 1, local_slot=n)
    elif kind == 'nparams':
        ps = ', '.join('p%d%%' % i for i in range(n))
        args = ', '.join(str(i % 7) for i in range(n))
        src = (f'call s({args})\n' if n else 'call s\n') + \
            (f'sub s({ps})\n' if n else 'sub s\n') + (f'p{n - 1}% = p0%\n' if n else '') + 'end sub\n'
    elif kind == 'nlocals':
        src = '\n'.join(': '.join('v%d%% = %d' % (i, i % 3) for i in range(a, min(n, a + 32)))
                        for a in range(0, n, 32)) + '\n'
    elif kind == 'codesize':
        # n identical lines (one parse) push the routine, the labels and the
        # jump targets behind them above address 65535
        lines = ['on error goto far', 'if x% then goto far', 'gosub far', 'call s']
        lines += ['x% = x% + 1'] * n
        lines += ['end', 'far: return', 'sub s', 'y% = 1', 'if y% then exit sub', 'end sub']
        src = '\n'.join(lines) + '\n'
    else:
        raise ValueError(kind)
    return src, meta


BIG_N = [32767, 32768, 65535, 65536]


def sizes_specs(tier):
    q = [0, 1, 255, 256, 257]
    out = []
    for n in q:
        out += [['sizes', 'nlits', n], ['sizes', 'ndata', n, 'one'], ['sizes', 'nparts', n],
                ['sizes', 'nlabels', n], ['sizes', 'nroutines', n], ['sizes', 'litlen', n]]
    for n in (255, 256, 257):
        out += [['sizes', 'itemlen', n, 'quoted'], ['sizes', 'itemlen', n, 'bare'], ['sizes', 'nlocals', n]]
    for n in (0, 1, 2, 16, 64):
        out.append(['sizes', 'nparams', n])
    for n in (255, 256, 257, 32767, 32768, 65534, 65535, 65536):
        for w in ('main', 'sub', 'global'):
            out.append(['sizes', 'framecells', n, w])
    # the 16-bit boundaries that compile in well under a second
    for n in BIG_N:
        out += [['sizes', 'ndata', n, 'one'], ['sizes', 'ndata', n, 'multi'], ['sizes', 'litlen', n],
                ['sizes', 'itemlen', n, 'quoted'], ['sizes', 'itemlen', n, 'bare']]
    return out


def big_specs():
    """thorough only; each is evaluated one configuration per work item.
    Programs of 32768+ *distinct* lines (labels, DATA parts) are cut: every
    distinct line costs a 15-50 ms parse (see docs/notes/C09.md); the reader
    side of those boundaries is in the synth family."""
    out = [['sizes', 'nlits', n] for n in (32767, 32768, 32769)]
    out += [['sizes', 'codesize', 9000], ['sizes', 'nroutines', 4096], ['sizes', 'nlabels', 4096],
            ['sizes', 'nparts', 4096], ['sizes', 'nparams', 255], ['sizes', 'nparams', 256],
            ['sizes', 'nlocals', 4096]]
    return out


# statement-per-line programs above this many statements skip the -g
# configurations (the debug-info collector is quadratic in statements)
G_STATEMENT_CAP = 4096


def many_statements(spec):
    return spec[0] == 'sizes' and spec[1] in ('nlabels', 'nparts', 'nroutines', 'nlocals') \
        and spec[2] > G_STATEMENT_CAP


# ---------------------------------------------------------------------------
# synth family: a small compiled module whose literal / DATA / globals
# sections are rewritten (qv.c09_model.patch_module) to the boundary sizes
# that take the compiler minutes to produce.  meta['patch'] = keyword
# arguments of patch_module.

SYNTH_N = [0, 1, 255, 256, 257, 32767, 32768, 32769, 65535, 65536]


def synth_lit(k):
    return 'L%d' % k


def synth_specs():
    out = []
    for n in SYNTH_N:
        if n == 0:
            continue
        idxs = sorted(set([0, n - 1] + [b for b in (255, 256, 32767, 32768, 32769, 65534) if b < n]))
        out += [['synth', 'litidx', n, i] for i in idxs]
    out += [['synth', 'litlen', n] for n in (0, 1, 255, 256, 32767, 32768, 65535)]
    out += [['synth', 'partitems', n] for n in (0, 1, 255, 256, 32767, 32768, 65535)]
    out += [['synth', 'nparts', n] for n in (0, 1, 255, 256, 32767, 32768, 65535)]
    out += [['synth', 'itemlen', n] for n in (0, 1, 255, 256, 32766, 32767)]
    out += [['synth', 'globals', n] for n in (0, 1, 65535, 65536, 2 ** 31 - 1, 2 ** 31, 2 ** 32 - 1)]
    return out


def _synth(kind, n, *rest):
    meta = {}
    if kind == 'litidx':
        idx = rest[0]
        src = 'print "L0";\n'
        meta['patch'] = {'literals': [synth_lit(k) for k in range(n)], 'push_index': idx}
        meta['expect_print'] = synth_lit(idx)
        meta['limits'] = ['literal-index>32767'] if idx > 32767 else []
    elif kind == 'litlen':
        txt = ('abcdefghij' * (n // 10 + 1))[:n]
        src = 'print "L0";\n'
        meta['patch'] = {'literals': [txt], 'push_index': 0}
        meta['expect_print'] = txt
    elif kind in ('partitems', 'nparts', 'itemlen'):
        src = 'data x\nread a$\nprint a$;\n'
        if kind == 'partitems':
            parts = [[(None if k % 3 == 1 else 'i%d' % k if k % 3 == 0 else '') for k in range(n)]]
        elif kind == 'nparts':
            parts = [['p%d' % k] for k in range(n)]
        else:
            parts = [[('abcdefghij' * (n // 10 + 1))[:n], None, 'z']]
        meta['patch'] = {'data': parts}
        flat = [x for p in parts for x in p]
        meta['data_items'] = flat
        if flat:
            meta['expect_print'] = flat[0] or ''
    elif kind == 'globals':
        src = 'print "L0";\n'
        meta['patch'] = {'n_global_cells': n}
        meta['n_global_cells'] = n
    else:
        raise ValueError(kind)
    return src, meta


# ---------------------------------------------------------------------------
# history family: programs that give the same names different meanings.  A
# sequence is compiled in one process, in order (qv.checks.c09.judge_history);
# spec = ['history', theme, [variant id, ...]].

def _h_type(decl, first, last, extra=''):
    """a record type `rec` (declared by `decl`) stored in shared, local,
    array, parameter and STATIC variables, each followed by a scalar whose
    slot depends on the record's size"""
    return (decl +
            'dim shared g as rec\ndim shared ga(1 to 2) as rec\ndim shared gz as integer\n'
            'dim r as rec\ndim z as integer\ndim la(1) as rec\ndim w as integer\n'
            f'r.{last} = 5\ng.{last} = 7\ngz = 1\nz = 9\nw = 2\n'
            f'la(1).{first} = 1\nga(2).{last} = 2\n' + extra +
            'show r\nprint z; w; gz\n'
            'sub show (p as rec)\ndim q as rec\nstatic s as rec\ndim k as integer\n'
            f'q.{last} = p.{last}\ns.{first} = 1\nk = 3\nend sub\n')


HISTORY = {
    'type': [
        ('t1', _h_type('type rec\na as integer\nend type\n', 'a', 'a')),
        ('t2', _h_type('type rec\na as integer\nb as long\nend type\n', 'a', 'b')),
        ('t4', _h_type('type rec\na as integer\nb as long\nc as double\nd as string\nend type\n', 'a', 'c',
                       'r.d = "x"\ng.d = "y"\n')),
        ('tn', _h_type('type inner\nx as integer\ny as long\nend type\n'
                       'type rec\na as inner\nb as inner\nc as integer\nend type\n', 'a.x', 'c', 'r.b.y = 4\n')),
        ('tn1', _h_type('type inner\nx as integer\nend type\n'
                        'type rec\na as inner\nc as integer\nend type\n', 'a.x', 'c')),
    ],
    'sub': [
        ('s0', 'call work\nwork\nsub work\ndim a(1 to 3) as integer\ndim t as integer\na(3) = 1\nt = 2\nend sub\n'),
        ('s1', 'dim v as integer\ncall work(v)\nwork 3\nsub work (x as integer)\ndim a(1 to 10) as long\n'
               'dim t as integer\na(10) = x\nt = 2\nend sub\n'),
        ('s3', 'dim v as integer\ndim n as string\ndim m(2) as long\ncall work(v, n, m())\n'
               'sub work (x as integer, y as string, z() as long)\ndim t as integer\ndim a as double\n'
               't = x\na = z(1)\ny = "q"\nend sub\n'),
        ('sf', 'dim v as integer\nv = work%(4)\nfunction work%(x%)\ndim a(1 to 2) as integer\ndim t as integer\n'
               'a(2) = x%\nt = 2\nwork% = t\nend function\n'),
        ('sr', 'type rec\na as integer\nb as long\nend type\ndim v as rec\nwork v\n'
               'sub work (x as rec)\ndim t as integer\ndim a as rec\nt = x.a\na.b = t\nend sub\n'),
    ],
    'glob': [
        ('g1', 'dim shared g as integer\ndim shared h as integer\ng = 1\nh = 2\ntick\n'
               'sub tick\nstatic s as integer\ns = s + 1\nh = s\nend sub\n'),
        ('g2', 'dim shared g(1 to 5) as long\ndim shared h as integer\ng(5) = 1\nh = 2\ntick\n'
               'sub tick\nstatic s(1 to 3) as integer\ns(3) = 1\nh = s(3)\nend sub\n'),
        ('g3', 'dim shared g as string\ndim shared h as integer\ng = "a"\nh = 2\ntick\n'
               'sub tick\nstatic s as double\ns = 1.5\nh = 3\nend sub\n'),
        ('g4', 'dim shared h as integer\ndim shared g as double\ng = 1\nh = 2\ntick\n'
               'sub tick\nstatic t as long\nstatic s as string\ns = "b"\nt = 1\nh = 4\nend sub\n'),
    ],
    'label': [
        ('l1', 'on error goto fail\ngosub again\ngoto done\nagain: return\nfail: resume next\n'
               'done: restore d1\nd1: data 1,2\nread q%\n'),
        ('l2', 'x% = 1\nx% = x% + 1\nprint x%\non error goto fail\nd0: data 9\ngosub again\ngoto done\n'
               'fail: resume next\nagain: x% = 2: return\nd1: data 1,2\ndone: restore d1\nread q%\nprint "more"\n'),
        ('l3', 'done: x% = x% + 1\nif x% < 3 then goto done\nd1: data "z"\ngosub again\nend\n'
               'again: restore d1: return\nfail: beep\n'),
    ],
}


def history_specs():
    out = []
    for theme, variants in HISTORY.items():
        ids = [v[0] for v in variants]
        for n in (2, 3):
            for seq in itertools.permutations(ids, n):
                out.append(['history', theme, list(seq)])
    return out


def history_programs(spec):
    """-> [(variant id, source, meta)] in compilation order"""
    table = dict(HISTORY[spec[1]])
    return [(v, table[v], {}) for v in spec[2]]


# ---------------------------------------------------------------------------

def build(spec):
    fam = spec[0]
    if fam == 'corpus':
        c = corpus.cases()[spec[1]]
        return c['src'], {'corpus': f"{c['file']}#{c['idx']}", 'expected': c['expected']}
    if fam == 'stmts':
        _, ctx, ti, li = spec
        kind, tpl = _templates(ctx)[ti]
        lvs = LV_MAIN if ctx == 'main' else LV_SUB
        tvs = TV_MAIN if ctx == 'main' else TV_SUB
        body = _fill(tpl, lvs[li] if kind == 'L' else 'li', tvs[li] if kind == 'T' else 'ls', 1)
        return _wrap(ctx, body), {'template': tpl, 'context': ctx}
    if fam == 'pairs':
        _, ctx, i, j = spec
        t = _templates(ctx)
        body = _fill(t[i][1], 'li', 'ls', 1) + '\n' + _fill(t[j][1], 'lr.b.x', 'lr.s', 2)
        return _wrap(ctx, body), {'template': t[i][1] + ' | ' + t[j][1], 'context': ctx}
    if fam == 'cp437':
        return _cp437(spec[1], spec[2])
    if fam == 'datalayout':
        return _datalayout(spec[1], spec[2], spec[3])
    if fam == 'sizes':
        return _sizes(spec[1], spec[2], *spec[3:])
    if fam == 'synth':
        return _synth(spec[1], spec[2], *spec[3:])
    raise ValueError(spec)
