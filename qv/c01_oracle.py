"""C01 oracle: run one generated program through QB-ref and through the real
compiler + VM in the six configurations and compare (DESIGN 4, C01).

A *case* is a pack of independent *items* (each a few statements ending in
PRINTs) sharing a preamble/epilogue; items whose reference run does not end
normally are evaluated alone (one run-time error per program), the others are
packed to amortise compile cost and unpacked again when a pack diverges.
"""
import math

from . import impl
from .ref import interp as R
from .ref import values as V
from .spaces import ast as A

TRAP_CLASS = {
    'INVALID_CELL_VALUE': V.OVERFLOW,
    'DIVISION_BY_ZERO': V.DIVZERO,
    'INDEX_OUT_OF_RANGE': V.SUBSCRIPT,
    'INVALID_OPERAND_VALUE': V.IFC,
    'DEVICE_ERROR': V.DEVICE,
}
CFG_NAMES = ['O%d%s' % (o, 'g' if g else '') for o, g in impl.CONFIGS]
PACK = 24


class Item:
    __slots__ = ('stmts', 'feat', 'size', 'pre', 'post', 'script')

    def __init__(self, stmts, feat, size=1, pre=None, post=None, script=None):
        self.stmts = stmts
        self.feat = feat
        self.size = size
        self.pre = pre            # item-specific preamble (declarations)
        self.post = post          # item-specific epilogue (procedures)
        self.script = script


class Case:
    __slots__ = ('family', 'pre', 'items', 'post', 'packable', 'desc')

    def __init__(self, family, items, pre=(), post=(), packable=True):
        self.desc = None
        self.family = family
        self.pre = list(pre)
        self.items = list(items)
        self.post = list(post)
        self.packable = packable


# ---------------------------------------------------------------------------
# implementation side

def stmt_line(module, cpu):
    """source line of the statement containing the trapped address (-g)"""
    di = getattr(module, 'debug_info', None)
    if di is None:
        return None
    addr = cpu.trapped_addr
    try:
        st = di.find_stmt(addr, cpu)
    except TypeError:
        try:
            st = di.find_stmt(addr)
        except Exception:
            st = None
    except Exception:
        st = None
    if st is None:
        best = None
        try:
            for r in di.stmts:
                if r.start_offset <= addr < r.end_offset:
                    if best is None or (r.end_offset - r.start_offset) < (best.end_offset - best.start_offset):
                        best = r
        except Exception:
            best = None
        st = best
    return getattr(st, 'source_start_line', None) if st is not None else None


def run_impl(src, script, horizon):
    """-> list of per-config observations (dict)"""
    obs = []
    for (o, g), cname in zip(impl.CONFIGS, CFG_NAMES):
        r = impl.compile_text(src, o, g, limit=30.0, want_listing=False)
        if r.kind == 'timeout':
            # a loaded machine must not look like a hanging compiler: once more, generously
            r = impl.compile_text(src, o, g, limit=240.0, want_listing=False)
        if not r.ok:
            obs.append({'cfg': cname, 'compile': r.kind, 'brief': r.brief()[:200]})
            continue
        try:
            mod = impl.load(r.binary)
        except Exception as e:  # loader refused
            obs.append({'cfg': cname, 'compile': 'load', 'brief': repr(e)[:200]})
            continue
        env = impl.Env(script)
        out, m = impl.run_module(mod, env, horizon=horizon, typed_prints=True)
        d = {'cfg': cname, 'compile': 'ok', 'end': out.end, 'events': out.events,
             'prints': out.prints, 'ticks': out.ticks}
        if out.end in ('halt', 'eoc'):
            d['outcome'] = ('normal',)
        elif out.end == 'trap':
            cls = TRAP_CLASS.get(out.trap, 'machine-fault:' + str(out.trap))
            line = stmt_line(mod, m.cpu) if g else None
            d['outcome'] = ('error', cls, line)
        elif out.end == 'hostexc':
            d['outcome'] = ('host-exception', out.exc, out.where)
        else:
            d['outcome'] = (out.end,)
        obs.append(d)
    return obs


# ---------------------------------------------------------------------------
# comparison

def _num_equal(rt, rv, approx, it, iv):
    if isinstance(rv, float) or isinstance(iv, float):
        if isinstance(iv, str) or isinstance(rv, str):
            return False
        if rv != rv or iv != iv:
            return False
        if approx:
            tol = 2e-6 if rt == V.SINGLE else 1e-12
            return abs(rv - iv) <= tol * max(abs(rv), abs(iv), 1e-300)
        return rv == iv
    return rv == iv


def cmp_prints(ref_prints, impl_prints):
    """-> None or (kind, index, expected, observed)"""
    if impl_prints is None:
        return None
    n = min(len(ref_prints), len(impl_prints))
    for k in range(n):
        a, b = ref_prints[k], impl_prints[k]
        if b is None:
            return ('trace', k, a, None)
        if len(a) != len(b):
            return ('trace', k, a, b)
        for x, y in zip(a, b):
            if isinstance(x, str) or isinstance(y, str):
                if x != y:
                    return ('trace', k, a, b)
                continue
            if x[0] != y[0]:
                return ('type', k, x[:2], y)
            approx = len(x) > 2 and x[2]
            if not _num_equal(x[0], x[1], approx, y[0], y[1]):
                return ('value', k, x[:2], y)
    if len(ref_prints) != len(impl_prints):
        return ('trace', n, len(ref_prints), len(impl_prints))
    return None


def cmp_events(ref_events, impl_events):
    n = min(len(ref_events), len(impl_events))
    for k in range(n):
        a, b = ref_events[k], tuple(impl_events[k])
        if a[0] != b[0]:
            return ('trace', k, a, b)
        if a[0] == 'print':
            if not R.match_text(a[1], b[1]):
                return ('trace', k, _clean(a), b)
        elif tuple(a) != b:
            return ('trace', k, a, b)
    if len(ref_events) != len(impl_events):
        return ('trace', n, 'n=%d' % len(ref_events), 'n=%d %r' % (len(impl_events), impl_events[n:n + 2]))
    return None


def _clean(ev):
    if ev[0] == 'print':
        t = ev[1].replace(R.PAD_MARK, '<pad>')
        out = ''
        i = 0
        while i < len(t):
            if t[i] == R.FLOAT_MARK:
                j = t.index(R.END_MARK, i)
                out += '<' + t[i + 1:j] + '>'
                i = j + 1
            else:
                out += t[i]
                i += 1
        return ('print', out)
    return ev


def judge_config(ref, ob):
    """one configuration against the reference result -> None | divergence
    (kind, expected, observed)"""
    if ob['compile'] != 'ok':
        kind = 'compile-rejected' if ob['compile'] in ('syntax', 'compile') else 'compile-crash'
        return (kind, 'accepted', ob['brief'])
    exp = ref.outcome
    got = ob['outcome']
    # outcome class first: it is the most informative difference
    if exp[0] == 'normal':
        if got[0] != 'normal':
            return ('outcome', 'normal', _oc(got))
    elif exp[0] == 'error':
        if got[0] != 'error':
            return ('outcome', 'error:' + exp[1], _oc(got))
        if got[1] not in exp[3]:
            return ('outcome', 'error:' + exp[1], _oc(got))
    elif exp[0] == 'exhausted':
        if got[0] != 'exhausted':
            return ('outcome', 'exhausted', _oc(got))
    d = cmp_prints(ref.prints, ob['prints'])
    if d is not None and d[0] in ('type', 'value'):
        return (d[0], d[2], d[3])
    e = cmp_events(ref.events, ob['events'])
    if e is not None:
        return ('trace', e[2], e[3])
    if d is not None:
        return ('trace', d[2], d[3])
    if exp[0] == 'error' and got[2] is not None and exp[2] is not None and got[2] != exp[2]:
        return ('error-line', exp[2], got[2])
    if exp[0] == 'error' and ob['cfg'].endswith('g') and got[2] is None:
        return ('error-line', exp[2], None)
    return None


def _oc(got):
    if got[0] == 'normal':
        return 'normal'
    if got[0] == 'error':
        return 'error:' + str(got[1])
    if got[0] == 'host-exception':
        return 'host-exception:' + str(got[1])
    return str(got[0])


def consistency(obs):
    """unspecified programs: the six configurations must agree among
    themselves (events, outcome class)"""
    def key(ob):
        if ob['compile'] != 'ok':
            return ('compile', ob['compile'])
        oc = ob['outcome']
        return (oc[0], oc[1] if len(oc) > 1 else None, impl.jsonable(ob['events']))
    k0 = key(obs[0])
    bad = [ob['cfg'] for ob in obs if key(ob) != k0]
    if bad:
        other = next(ob for ob in obs if ob['cfg'] == bad[0])
        return ('config-inconsistency', repr(k0)[:300], repr(key(other))[:300], bad)
    return None


class Verdict:
    __slots__ = ('status', 'divs', 'ref', 'src', 'note')

    def __init__(self, status, divs=(), ref=None, src=None, note=None):
        self.status = status      # ok | diverges | unspecified | static | horizon
        self.divs = list(divs)    # [(kind, expected, observed, configs)]
        self.ref = ref
        self.src = src
        self.note = note


def judge(stmts, script=None, budget=20000):
    """full judgement of one program"""
    src = A.render(stmts)
    ref = None
    status = 'ok'
    note = None
    try:
        ref = R.run(stmts, script, budget=budget)
    except V.Unspecified as e:
        status, note = 'unspecified', str(e)
    except R.StaticError as e:
        status, note = 'static', str(e)
    except R.Horizon:
        status = 'horizon'
    horizon = 200 * budget if ref is None else max(20000, 400 * ref.steps + 20000)
    obs = run_impl(src, script, horizon)
    divs = []
    if ref is None:
        if status == 'horizon' and all(ob.get('end') == 'horizon' for ob in obs):
            return Verdict('horizon', src=src)
        c = consistency(obs)
        if c is not None:
            divs.append((c[0], c[1], c[2], ','.join(c[3])))
        # totality still applies: no host exception, no compiler crash
        for ob in obs:
            if ob['compile'] not in ('ok', 'syntax', 'compile'):
                divs.append(('compile-crash', 'module or diagnostic', ob['brief'], ob['cfg']))
                break
        return Verdict(status, divs, None, src, note)
    per = {}
    for ob in obs:
        d = judge_config(ref, ob)
        if d is not None:
            k = (d[0], repr(d[1])[:200], repr(d[2])[:200])
            per.setdefault(k, [d, []])[1].append(ob['cfg'])
    for k, (d, cfgs) in per.items():
        divs.append((d[0], d[1], d[2], 'all' if len(cfgs) == len(obs) else ','.join(cfgs)))
    return Verdict('diverges' if divs else 'ok', divs, ref, src)


# ---------------------------------------------------------------------------
# cases

def _prog(case, items):
    pre = list(case.pre)
    post = list(case.post)
    body = []
    for it in items:
        if it.pre:
            pre.extend(it.pre)
        body.extend(it.stmts)
        if it.post:
            post.extend(it.post)
    return pre + body + post


def _ref_class(case, it):
    try:
        r = R.run(_prog(case, [it]), it.script, budget=20000)
    except V.Unspecified:
        return 'unspecified'
    except R.StaticError:
        return 'static'
    except R.Horizon:
        return 'horizon'
    return r.outcome[0] if r.outcome[0] != 'error' else 'error:' + r.outcome[1]


def _viol(case, it, v, d, extra=None):
    feat = {'family': case.family}
    feat.update(it.feat)
    feat.pop('key', None)         # identifies the item (kept in case.rebuild), not a cause class
    feat['divergence'] = d[0]
    feat['configs'] = d[3]
    feat['expected_class'] = _short(d[1]) if d[0] == 'outcome' else None
    feat['observed_class'] = _short(d[2]) if d[0] in ('outcome', 'compile-rejected', 'compile-crash') else None
    if feat['expected_class'] is None:
        del feat['expected_class']
    if feat['observed_class'] is None:
        del feat['observed_class']
    if extra:
        feat.update(extra)
    c = {'source': v.src, 'script': it.script, 'note': v.note,
         'rebuild': {'desc': list(case.desc or ()), 'key': it.feat.get('key')}}
    return (feat, c, impl.jsonable(d[1]), impl.jsonable(d[2]), it.size + len(v.src))


def _short(x):
    s = str(x)
    if s.startswith('SyntaxError'):
        return 'SyntaxError'
    if s.startswith('CompileError['):
        return s[:s.index(']') + 1]
    if s.startswith('crash '):
        return ' '.join(s.split()[:2])
    return s[:60]


def evaluate(case, st):
    """-> list of violation tuples ; st: stats dict updated in place"""
    viol = []
    singles = []
    packable = []
    for it in case.items:
        cls = _ref_class(case, it)
        st['ref_classes'].add((case.family, cls))
        st['by_ref_class'][cls.split(':')[0]] = st['by_ref_class'].get(cls.split(':')[0], 0) + 1
        if cls == 'normal' and case.packable and it.script is None:
            packable.append(it)
        else:
            singles.append(it)
    groups = [packable[i:i + PACK] for i in range(0, len(packable), PACK)]
    for grp in groups:
        if len(grp) == 1:
            singles.append(grp[0])
            continue
        st['programs'] += 1
        v = judge(_prog(case, grp))
        st['runs'] += 6
        if v.status == 'ok':
            st['evaluations'] += len(grp)
            st['nontrivial'] += len(grp)
            _note_outcomes(st, case, v)
            continue
        # unpack
        st['unpacked'] += 1
        found = False
        for it in grp:
            n0 = len(viol)
            _single(case, it, st, viol)
            found = found or len(viol) > n0
        if not found and v.status == 'diverges':
            for d in v.divs:
                feat = {'family': case.family, 'divergence': 'pack-interaction',
                        'inner': d[0], 'configs': d[3],
                        'keys': sorted(set(str(it.feat.get('key', '')) for it in grp))[:3]}
                viol.append((feat, {'source': v.src, 'script': None,
                                    'rebuild': {'desc': list(case.desc or ()), 'key': None,
                                                'pack': [it.feat.get('key') for it in grp]}},
                             impl.jsonable(d[1]),
                             impl.jsonable(d[2]), 100000 + len(v.src)))
    for it in singles:
        _single(case, it, st, viol)
    return viol


def _note_outcomes(st, case, v):
    if v.ref is not None:
        oc = v.ref.outcome
        st['outcomes'].add((case.family, oc[0], oc[1] if len(oc) > 1 else None))


def _single(case, it, st, viol):
    st['programs'] += 1
    st['runs'] += 6
    st['evaluations'] += 1
    v = judge(_prog(case, [it]), it.script)
    st['status'][v.status] = st['status'].get(v.status, 0) + 1
    if v.status in ('ok', 'diverges'):
        st['nontrivial'] += 1
        _note_outcomes(st, case, v)
    if v.status == 'static' and len(st['static_samples']) < 3:
        st['static_samples'].append({'source': v.src[:400], 'why': v.note})
    for d in v.divs:
        viol.append(_viol(case, it, v, d))


def new_stats():
    return {'evaluations': 0, 'nontrivial': 0, 'programs': 0, 'runs': 0, 'unpacked': 0,
            'status': {}, 'by_ref_class': {}, 'ref_classes': set(), 'outcomes': set(),
            'static_samples': []}


# ---------------------------------------------------------------------------
# feature helpers

def value_class(type, x):
    """sign / magnitude class of an operand value (ledger features)"""
    if type == V.STRING:
        return 'empty' if x == '' else ('len1' if len(x) == 1 else 'len2+')
    sign = 'zero' if x == 0 else ('neg' if x < 0 else 'pos')
    if x == 0:
        return 'zero'
    ax = abs(x)
    if type in V.INTEGRAL:
        lo, hi = V.LIMITS[type]
        if x in (lo, hi):
            mag = 'limit'
        elif ax <= 7:
            mag = 'small'
        else:
            mag = 'big'
    else:
        if ax != math.floor(ax):
            mag = 'tie' if ax - math.floor(ax) == 0.5 else 'frac'
            if ax < 1e-30:
                mag = 'tiny'
        elif ax <= 7:
            mag = 'small'
        elif ax >= 1e30:
            mag = 'huge'
        else:
            mag = 'big'
    return sign + '-' + mag
