"""C03 - declared cell types of frames and of the global area, derived from
the listing text `str(code)` (sections .types / .globals / .routines) only.

Model (docs/ISA.md "Frame and global layout"): a scalar takes one cell of its
type; a record the concatenation of its fields; a static array
[reserved, rank, element size, lb1, ub1, ...] followed by the elements in
row-major order; a dynamic / `()` array one cell holding a reference; a
parameter (of any type, records and arrays included) one cell holding a
reference.
"""
import re

SCALAR = {'integer': '%', 'long': '&', 'single': '!', 'double': '#', 'string': '$'}
_DECL = re.compile(r'^ {4}([A-Za-z_][\w]*)(\([^)]*\))? (\S+)$')


class LayoutError(Exception):
    pass


class Layout:
    def __init__(self, listing):
        self.types = {}        # record name -> [(type name, field name)]
        self.globals = []      # [(typ, name)]   typ = (base, dims)
        self.routines = []     # [(name, [(typ, name)])] in code order
        self._flat = {}
        self._parse(listing)

    # -- parsing ---------------------------------------------------------
    def _parse(self, listing):
        sect = None
        cur = None
        for line in listing.split('\n'):
            if line.startswith('.'):
                sect = line.strip()
                cur = None
                if sect == '.code':
                    break
                continue
            if line.startswith(';;;') or not line.strip():
                continue
            if sect == '.types':
                if not line.startswith(' '):
                    cur = line.rstrip(':').strip()
                    self.types[cur] = []
                else:
                    parts = line.split()
                    if len(parts) != 2 or cur is None:
                        raise LayoutError('type field: ' + line)
                    self.types[cur].append((parts[0], parts[1]))
            elif sect == '.globals':
                self.globals.append(self._decl(line))
            elif sect == '.routines':
                if not line.startswith(' '):
                    cur = []
                    self.routines.append((line.rstrip(':').strip(), cur))
                else:
                    if cur is None:
                        raise LayoutError('routine entry: ' + line)
                    cur.append(self._decl(line))

    def _decl(self, line):
        m = _DECL.match(line)
        if not m:
            raise LayoutError('declaration: ' + line)
        base, dims, name = m.groups()
        if dims is not None:
            body = dims[1:-1].strip()
            if not body:
                d = []
            else:
                d = []
                for part in body.split(','):
                    mm = re.match(r'^\s*(-?\d+) to (-?\d+)\s*$', part)
                    if not mm:
                        raise LayoutError('bounds: ' + line)
                    d.append((int(mm.group(1)), int(mm.group(2))))
            return ((base, d), name)
        return ((base, None), name)

    # -- sizes and cell types -----------------------------------------------
    def flat(self, base, _depth=0):
        """tuple of scalar type chars of one value of type `base`"""
        f = self._flat.get(base)
        if f is not None:
            return f
        if base in SCALAR:
            f = (SCALAR[base],)
        else:
            if base not in self.types or _depth > 20:
                raise LayoutError('unknown type ' + base)
            out = []
            for ft, _ in self.types[base]:
                out.extend(self.flat(ft, _depth + 1))
            f = tuple(out)
        self._flat[base] = f
        return f

    def elem(self, base):
        """element / referent descriptor of a type name"""
        return SCALAR.get(base) or ('rec', base)

    def size(self, typ):
        base, dims = typ
        if dims is None:
            return len(self.flat(base))
        if not dims:
            return 1
        n = 1
        for lb, ub in dims:
            n *= (ub - lb + 1)
        return 3 + 2 * len(dims) + n * len(self.flat(base))

    def var_cells(self, typ):
        """cell descriptors of a variable of type typ:
        ('v', T) | ('h0',) | ('h',) | ('dyn', E)"""
        base, dims = typ
        if dims is None:
            return [('v', t) for t in self.flat(base)]
        if not dims:
            return [('dyn', self.elem(base))]
        n = 1
        for lb, ub in dims:
            n *= (ub - lb + 1)
        if n < 0:
            n = 0
        if n * len(self.flat(base)) > 200000:
            raise LayoutError('array too large for the shadow map')
        return ([('h0',)] + [('h',)] * (2 + 2 * len(dims))
                + [('v', t) for t in self.flat(base)] * n)

    def refdesc(self, typ):
        """what a reference to the start of a variable of type typ denotes"""
        base, dims = typ
        if dims is None:
            e = self.elem(base)
            return ('s', e) if isinstance(e, str) else ('r', base, 0)
        if not dims:
            return ('dynslot', self.elem(base))
        return ('a', self.elem(base))

    def param_refdesc(self, typ):
        """what the reference held by a parameter cell denotes"""
        base, dims = typ
        if dims is None:
            e = self.elem(base)
            return ('s', e) if isinstance(e, str) else ('r', base, 0)
        return ('a', self.elem(base))

    def segment(self, entries, nparams_cells=0):
        """-> (cells, var_at, nparams) for a list of (typ, name) entries.
        Every parameter occupies one cell holding a reference, so the first
        `nparams_cells` entries (the `p` operand of `frame p,l`) are the
        parameters; the rest are locals laid out by type size."""
        cells = []
        var_at = {}
        k = nparams_cells
        if k > len(entries):
            raise LayoutError(f'frame pops {k} argument cells, the routine declares '
                              f'{len(entries)} variables in all')
        for typ, name in entries[:k]:
            var_at[len(cells)] = ('param', typ, name)
            cells.append(('par', typ))
        for typ, name in entries[k:]:
            var_at[len(cells)] = ('var', typ, name)
            cells.extend(self.var_cells(typ))
        return cells, var_at, k

    def cell_type_in(self, desc, off=0):
        """scalar type char of the cell a reference descriptor denotes"""
        if desc[0] == 's':
            return desc[1]
        if desc[0] == 'r':
            f = self.flat(desc[1])
            o = desc[2]
            return f[o] if 0 <= o < len(f) else None
        return None
