"""qv - bounded model checking harness for elektito/qbee (see /verif/DESIGN.md)."""
import ctypes
import os

_so = os.path.join(os.path.dirname(os.path.dirname(os.path.abspath(__file__))),
                   'native', 'arenacache.so')
ARENA_SHIM = False
if os.path.exists(_so) and os.environ.get('QV_NO_SHIM') != '1':
    try:
        ARENA_SHIM = ctypes.CDLL(_so).arenacache_install() == 0
    except OSError:
        ARENA_SHIM = False
