"""C03 - own instruction table and decoder for QVM code (written from docs/ISA.md).

The table is the harness's statement of what the instruction set is.  It is
cross-checked against `qvm.instrs.op_code_to_instr` when a run starts; a
difference means *the harness is out of date* (exit 2), never a violation.
"""
import struct

# operand kinds: B UInt8, h Int16, H UInt16, i Int32, I UInt32 (label),
# f Float32, d Float64, S string-literal index (16 bit)
_SIZES = {'B': 1, 'h': 2, 'H': 2, 'i': 4, 'I': 4, 'f': 4, 'd': 8, 'S': 2}

_T = {}          # opcode -> (name, operand kinds)


def _d(name, oc, kinds=''):
    assert oc not in _T, oc
    _T[oc] = (name, kinds)


_d('add', 2); _d('and', 3); _d('arridx', 4, 'B'); _d('call', 5, 'I')
for _i, _n in enumerate(['%&', '%!', '%#', '&%', '&!', '&#', '!%', '!&', '!#',
                         '#%', '#&', '#!']):
    _d('conv' + _n, 6 + _i)
_d('deref%', 18); _d('div', 19); _d('eq', 20); _d('eqv', 21); _d('exp', 22)
_d('frame', 23, 'HH'); _d('ge', 24); _d('idiv', 25); _d('imp', 26)
_d('io', 27, 'BB'); _d('jmp', 28, 'I'); _d('jz', 29, 'I'); _d('le', 30)
_d('lt', 31); _d('mod', 32); _d('mul', 33); _d('ne', 34); _d('neg', 35)
_d('nop', 36); _d('not', 37); _d('or', 38)
_d('push%', 39, 'h'); _d('push&', 40, 'i'); _d('push!', 41, 'f')
_d('push#', 42, 'd'); _d('push$', 43, 'S')
for _i, _c in enumerate(['m2', 'm1', '0', '1', '2']):
    for _j, _t in enumerate('%&!#'):
        _d('push' + _c + _t, 44 + 4 * _i + _j)
_d('pushrefg', 64, 'H'); _d('pushrefl', 65, 'H')
for _j, _t in enumerate('%&!#$@'):
    _d('readg' + _t, 66 + _j, 'H')
    _d('readl' + _t, 72 + _j, 'H')
    _d('readidxg' + _t, 78 + _j, 'HH')
    _d('readidxl' + _t, 84 + _j, 'HH')
_d('refidx', 90); _d('ret', 91); _d('retv', 92); _d('sub', 93)
_d('storeg', 94, 'H'); _d('storel', 95, 'H')
_d('storeidxg', 96, 'HH'); _d('storeidxl', 97, 'HH'); _d('storeref', 98)
_d('xor', 99); _d('halt', 100); _d('allocarr', 101, 'Bi'); _d('gt', 102)
_d('dupl', 103); _d('pop', 104); _d('cmp', 105); _d('sign', 106)
_d('swap', 107); _d('swapprev', 108); _d('ijmp', 109); _d('strlen', 110)
_d('int', 111); _d('space', 112); _d('sdbl', 113); _d('ucase', 114)
_d('lcase', 115); _d('chr', 116); _d('ntos', 117); _d('strleft', 118)
_d('strright', 119); _d('strmid', 120); _d('asc', 121)
_d('deref&', 122); _d('deref!', 123); _d('deref#', 124); _d('deref$', 125)
_d('initarrg', 126, 'HBi'); _d('initarrl', 127, 'HBi'); _d('strrep', 128)
_d('cint', 129); _d('clng', 130); _d('ltrim', 131); _d('rtrim', 132)
_d('lbound', 133); _d('ubound', 134); _d('strfind', 135); _d('abs', 136)
_d('errget', 138); _d('errhand', 139, 'I'); _d('errline', 141)
_d('errraise', 142); _d('errres', 143); _d('errresn', 144)

TABLE = dict(_T)
SIZE = {oc: 1 + sum(_SIZES[k] for k in kinds) for oc, (_, kinds) in TABLE.items()}

# devices (docs/ISA.md, "Device operations")
DEVICES = {
    (2, 1): 'terminal.cls', (2, 2): 'terminal.print', (2, 3): 'terminal.color',
    (2, 4): 'terminal.view_print', (2, 5): 'terminal.set_mode',
    (2, 6): 'terminal.width', (2, 7): 'terminal.locate', (2, 8): 'terminal.input',
    (2, 9): 'terminal.inkey',
    (3, 1): 'pcspkr.beep', (3, 2): 'pcspkr.play', (3, 3): 'pcspkr.sound',
    (5, 1): 'time.get_time', (6, 1): 'rng.seed', (6, 2): 'rng.rnd',
    (7, 1): 'memory.poke', (7, 2): 'memory.peek', (7, 3): 'memory.set_segment',
    (7, 4): 'memory.set_default_segment', (7, 5): 'memory.bsave',
    (7, 6): 'memory.bload',
    (8, 1): 'data.read', (8, 2): 'data.restore', (9, 1): 'fs.kill',
}

_FMT = {'B': '>B', 'h': '>h', 'H': '>H', 'i': '>i', 'I': '>I', 'f': '>f',
        'd': '>d', 'S': '>H'}


def crosscheck():
    """-> list of differences between this table and the implementation's
    (empty = in step).  Uses only op names, opcode numbers, operand sizes."""
    from qvm.instrs import op_code_to_instr
    diffs = []
    for oc, ins in op_code_to_instr.items():
        mine = TABLE.get(oc)
        if mine is None:
            diffs.append(f'opcode {oc} ({ins.op}) unknown to the harness')
            continue
        sizes = [o.size for o in ins.operands]
        if mine[0] != ins.op or [_SIZES[k] for k in mine[1]] != sizes:
            diffs.append(f'opcode {oc}: harness {mine}, implementation {ins.op} {sizes}')
    for oc in TABLE:
        if oc not in op_code_to_instr:
            diffs.append(f'opcode {oc} ({TABLE[oc][0]}) not in the implementation')
    try:
        from qvm.cpu import QVM_DEVICES
        theirs = {}
        for dn, di in QVM_DEVICES.items():
            for on, oc in di['ops'].items():
                theirs[(di['id'], oc)] = f'{dn}.{on}'
        if theirs != DEVICES:
            diffs.append(f'device table differs: {sorted(set(theirs.items()) ^ set(DEVICES.items()))}')
    except ImportError:
        diffs.append('qvm.cpu.QVM_DEVICES not importable')
    return diffs


class Decoded:
    """linear-sweep decoding of a code section"""
    __slots__ = ('code', 'instrs', 'starts', 'error')

    def __init__(self, code):
        self.code = code
        self.instrs = {}      # pc -> (name, operands tuple, size)
        self.starts = []
        self.error = None
        i = 0
        n = len(code)
        while i < n:
            ent = TABLE.get(code[i])
            if ent is None:
                self.error = ('undefined-opcode', i, code[i])
                break
            name, kinds = ent
            j = i + 1
            ops = []
            if j + SIZE[code[i]] - 1 > n:
                self.error = ('truncated-instruction', i, code[i])
                break
            for k in kinds:
                sz = _SIZES[k]
                ops.append(struct.unpack(_FMT[k], code[j:j + sz])[0])
                j += sz
            self.instrs[i] = (name, tuple(ops), j - i)
            self.starts.append(i)
            i = j
