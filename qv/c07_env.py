"""C07 helper: a peripherals object whose *individual calls* can deviate.

`impl.Env` can fail a whole method (`fail={'terminal_print'}`) or a queued
answer; family (b) of C07 needs "the i-th device call of this run deviates", so
this module has its own scripted peripherals object.  It depends only on the
peripherals protocol pinned by tests/testvm.py (method names and argument
lists) and on `qvm.exceptions.DeviceError`.
"""
from . import impl

DeviceError = impl.DeviceError

_PREFIXES = ('data_', 'memory_', 'pcspkr_', 'rng_', 'terminal_', 'time_',
             'fs_', 'misc_')

# calls that return a value -> default answer
DEFAULTS = {
    'terminal_inkey': '',
    'rng_get_next': 0.5,
    'rng_get_with_seed': 0.25,
    'time_get_time': 1234.5,
    'memory_peek': 7,
}

# boundary answers per value-returning call (name -> list of (tag, value))
INF = float('inf')
NAN = float('nan')
BOUNDARY = {
    'terminal_input': [('empty', ''), ('long', '7' * 400), ('digits5000', '7' * 5000), ('commas', ',,,'),
                       ('huge', '1e999'), ('blank', '   ')],
    'terminal_inkey': [('two', '\x00H'), ('long', 'k' * 300)],
    'rng_get_next': [('huge', 1e39), ('negative', -3.5), ('one', 1.0),
                     ('inf', INF), ('nan', NAN)],
    'rng_get_with_seed': [('huge', 1e39), ('negative', -3.5), ('inf', INF),
                          ('nan', NAN)],
    'time_get_time': [('huge', 1e39), ('negative', -86400.0), ('big', 4e9),
                      ('inf', INF), ('nan', NAN)],
    'memory_peek': [('over', 70000), ('negative', -1), ('byte+1', 256),
                    ('huge', 2 ** 40)],
}
NONFINITE = ('inf', 'nan')


class Stuck(BaseException):
    """the program keeps asking the environment (INPUT retry loop does not end)"""


class DevEnv:
    """Scripted peripherals with a per-call deviation plan.

    plan: {call_index: deviation}, deviation one of
        'fail'            the call raises DeviceError
        'missing'         the method does not exist (AttributeError, obj=self)
        ('value', tag, v) the call returns v instead of the default answer
    Call indices count every device-method lookup of the run, in order.
    inp: the line answered to every terminal_input call (or a list of lines
    answered in order, the last one repeated).
    on_call(env, index, name): hook run inside every call before it answers
    (used to deliver an interrupt request while a device call is in progress).
    """

    def __init__(self, plan=None, inp='0', on_call=None, max_inputs=40):
        self.plan = dict(plan or {})
        self.inp = inp
        self.on_call = on_call
        self.max_inputs = max_inputs
        self.n = 0
        self.n_inputs = 0
        self.machine = None   # set by run_ticks / run_loop
        self.calls = []       # method names in call order
        self.fired = []       # (index, name, deviation tag, len(events) when fired)
        self.events = []

    def __getattr__(self, name):
        if name.startswith('_') or not name.startswith(_PREFIXES):
            raise AttributeError(name)
        idx = self.n
        self.n += 1
        self.calls.append(name)
        dev = self.plan.get(idx)
        if dev == 'missing':
            self.fired.append((idx, name, 'missing', len(self.events)))
            raise AttributeError(name, name=name, obj=self)

        def call(*args):
            if self.on_call is not None:
                self.on_call(self, idx, name)
            if dev == 'fail':
                self.fired.append((idx, name, 'fail', len(self.events)))
                raise DeviceError(f'injected failure of call {idx} ({name})')
            if name == 'terminal_print':
                text = args[0]
                if self.events and self.events[-1][0] == 'print':
                    self.events[-1] = ('print', self.events[-1][1] + text)
                else:
                    self.events.append(('print', text))
                return None
            if name == 'terminal_input':
                self.n_inputs += 1
                if self.n_inputs > self.max_inputs:
                    raise Stuck()
                if isinstance(self.inp, (list, tuple)):
                    ans = self.inp[min(self.n_inputs, len(self.inp)) - 1]
                else:
                    ans = self.inp
            elif name in DEFAULTS:
                ans = DEFAULTS[name]
            else:
                self.events.append(('dev', name) + tuple(args))
                return None
            if isinstance(dev, tuple) and dev[0] == 'value':
                ans = dev[2]
                self.fired.append((idx, name, 'value:' + dev[1], len(self.events)))
            self.events.append((name,) + tuple(args) + (ans,))
            return ans
        return call


def deviations_for(name, nonfinite=True):
    """deviation menu of one call"""
    out = ['fail', 'missing']
    for tag, v in BOUNDARY.get(name, ()):
        if not nonfinite and tag in NONFINITE:
            continue
        out.append(('value', tag, v))
    return out


def dev_tag(dev):
    return dev if isinstance(dev, str) else 'value:' + dev[1]


def run_ticks(module, env, horizon=20000, after_tick=None):
    """tick-by-tick execution under the harness (like impl.run_module, for any
    peripherals object).  after_tick(cpu) is called after every tick."""
    out = impl.Outcome()
    m = impl.new_machine(module, env)
    env.machine = m
    cpu = m.cpu
    n = len(module.code)
    try:
        with impl.quiet():
            while not cpu.halted:
                if out.ticks >= horizon:
                    out.end = 'horizon'
                    break
                if cpu.pc >= n:
                    out.end = 'eoc'
                    break
                cpu.tick()
                out.ticks += 1
                if after_tick is not None:
                    after_tick(cpu)
    except Stuck:
        out.end = 'stuck'
    except (impl.Timeout, KeyboardInterrupt):
        raise
    except BaseException as e:
        out.end = 'hostexc'
        out.exc = type(e).__name__
        out.where = impl._where(e.__traceback__)
    return impl.finish_outcome(out, cpu, env, module), m


def run_loop(module, env):
    """the same through the machine's own run() loop"""
    out = impl.Outcome()
    m = impl.new_machine(module, env)
    env.machine = m
    try:
        with impl.quiet():
            m.run()
    except Stuck:
        out.end = 'stuck'
    except (impl.Timeout, KeyboardInterrupt):
        raise
    except BaseException as e:
        out.end = 'hostexc'
        out.exc = type(e).__name__
        out.where = impl._where(e.__traceback__)
    return impl.finish_outcome(out, m.cpu, env, module), m
