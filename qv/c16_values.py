"""C16: the structured value sets (complete inside their description, no sampling).

A *block* is a small descriptor `(type, class, args...)` that a worker expands
with `expand(block)` into a list of non-negative magnitudes (floats for SINGLE /
DOUBLE - exactly representable in the type -, ints for INTEGER / LONG).  The
negative partners are added by the check itself."""
import struct
from fractions import Fraction

F32_MAX = struct.unpack('>f', b'\x7f\x7f\xff\xff')[0]
F64_MAX = struct.unpack('>d', b'\x7f\xef\xff\xff\xff\xff\xff\xff')[0]

GEOM = {
    # type: (mantissa bits, min exponent of the least significant bit, max binary exponent, pack code, int code)
    'SINGLE': (24, -149, 127, '>f', '>I'),
    'DOUBLE': (53, -1074, 1023, '>d', '>Q'),
}


def bits_of(x, typ):
    return struct.unpack(GEOM[typ][4], struct.pack(GEOM[typ][3], x))[0]


def from_bits(b, typ):
    return struct.unpack(GEOM[typ][3], struct.pack(GEOM[typ][4], b))[0]


def maxbits(typ):
    return bits_of(F32_MAX if typ == 'SINGLE' else F64_MAX, typ)


def neighbours(x, typ):
    """x (>= 0, finite) with the next value below and above in the type (finite, >= 0)"""
    b = bits_of(x, typ)
    out = [x]
    if b > 0:
        out.append(from_bits(b - 1, typ))
    if b < maxbits(typ):
        out.append(from_bits(b + 1, typ))
    return out


def nearest(fr, typ):
    """the value of the type nearest to the non-negative rational fr (ties to even);
    None if it rounds beyond the largest finite value"""
    if typ == 'DOUBLE':
        try:
            return float(fr)           # int / int true division: correctly rounded
        except OverflowError:
            return None
    try:
        d = float(fr)
        c = struct.unpack('>f', struct.pack('>f', d))[0]
    except OverflowError:
        return None
    # repair a possible double rounding: pick the best of c and its neighbours
    best = None
    for v in neighbours(c, typ):
        err = abs(Fraction(v) - fr)
        key = (err, bits_of(v, typ) & 1)
        if best is None or key < best[0]:
            best = (key, v)
    return best[1]


def around(fr, typ):
    """the values of the type just below and just above (or equal to) the rational fr"""
    c = nearest(fr, typ)
    if c is None:
        return []
    nb = sorted(neighbours(c, typ))
    lo = [v for v in nb if Fraction(v) <= fr]
    hi = [v for v in nb if Fraction(v) >= fr]
    out = []
    if lo:
        out.append(lo[-1])
    if hi:
        out.append(hi[0])
    return out


def dec_exponents(typ):
    return range(-46, 39) if typ == 'SINGLE' else range(-324, 309)


BOUNDARY_DIGITS = {'SINGLE': (7, 8), 'DOUBLE': (15, 16, 17)}


def boundary_patterns(n):
    return ['1' + '0' * (n - 1), '9' * n, '9' * (n - 1) + '5', '4' + '9' * (n - 1),
            '5' + '0' * (n - 2) + '1', '1234567890123456789'[:n]]


def mantissa_bits(typ, tier):
    if tier == 'quick':
        return 4
    return 8 if typ == 'SINGLE' else 6        # cut: DOUBLE planned 8


def float_blocks(typ, tier):
    """descriptors for SINGLE / DOUBLE"""
    mb, emin, emax, _, _ = GEOM[typ]
    blocks = [(typ, 'special')]
    for lo in range(emin, emax + 1, 64):
        blocks.append((typ, 'pow2', lo, min(lo + 64, emax + 1)))
    ks = list(dec_exponents(typ))
    for i in range(0, len(ks), 64):
        blocks.append((typ, 'pow10', ks[i], ks[min(i + 64, len(ks)) - 1] + 1))
    B = mantissa_bits(typ, tier)
    step = max(1, 512 >> (B - 1))
    for lo in range(emin, emax + 2 - B, step):
        blocks.append((typ, 'mantissa', B, lo, min(lo + step, emax + 2 - B)))
    if typ == 'SINGLE':
        # cut (thorough): 4 digits only where the plain notation and its switch-over live
        if tier == 'quick':
            dspec = [(3, ks[0], ks[-1] + 1)]
        else:
            dspec = [(3, ks[0], ks[-1] + 1), (4, -5, 9)]
    else:
        # cut: DOUBLE decimals at every exponent have fewer digits than planned (quick 1, thorough 3);
        # more digits only where the plain notation and its switch-over live (and, in quick, 2 digits
        # for 1e-40..1e40)
        if tier == 'quick':
            dspec = [(1, ks[0], ks[-1] + 1), (2, -40, 41), (3, -8, 19)]
        else:
            dspec = [(2, ks[0], ks[-1] + 1), (3, -40, 41), (4, -2, 8)]
    for D_, k0, k1 in dspec:
        per = 1 if D_ >= 4 else (4 if D_ == 3 else 16)
        for k in range(k0, k1, per):
            lo_m = 10 ** (D_ - 1) if D_ > 1 else 1
            if D_ >= 4:
                for m0 in range(lo_m, 10 ** D_, 1000):
                    blocks.append((typ, 'decimal', D_, k, k + 1, m0, min(m0 + 1000, 10 ** D_)))
            else:
                blocks.append((typ, 'decimal', D_, k, min(k + per, k1), lo_m, 10 ** D_))
    for n in BOUNDARY_DIGITS[typ]:
        for i in range(0, len(ks), 32):
            blocks.append((typ, 'boundary', n, ks[i], ks[min(i + 32, len(ks)) - 1] + 1))
    return blocks


def expand(block):
    typ, cls = block[0], block[1]
    if typ in ('INTEGER', 'LONG'):
        return _expand_int(block)
    mb, emin, emax, _, _ = GEOM[typ]
    out = []
    if cls == 'special':
        big = F32_MAX if typ == 'SINGLE' else F64_MAX
        tiny = 2.0 ** emin
        normal = 2.0 ** (emin + mb - 1)
        out += [0.0] + neighbours(big, typ) + neighbours(normal, typ)
        out += [tiny * k for k in (1, 2, 3, 4, 5, 7, 8)]
        out += neighbours(1.0, typ) + neighbours(0.5, typ) + neighbours(0.1 if typ == 'DOUBLE' else
                                                                           nearest(Fraction(1, 10), typ), typ)
    elif cls == 'pow2':
        for e in range(block[2], block[3]):
            out += neighbours(2.0 ** e, typ)
    elif cls == 'pow10':
        for k in range(block[2], block[3]):
            v = nearest(Fraction(10) ** k, typ)
            if v is not None and v > 0:
                out += neighbours(v, typ)
                for fr in (Fraction(10) ** k - Fraction(10) ** (k - 9), Fraction(10) ** k + Fraction(10) ** (k - 9)):
                    w = nearest(fr, typ)     # 10^k -+ one unit of its 9th digit below
                    if w is not None:
                        out.append(w)
    elif cls == 'mantissa':
        B = block[2]
        for s in range(block[3], block[4]):
            for m in range(1 << (B - 1), 1 << B):
                out.append(float(m) * 2.0 ** s if s >= -1000 else float(Fraction(m) * Fraction(2) ** s))
    elif cls == 'decimal':
        D, k0, k1, m0, m1 = block[2:7]
        for k in range(k0, k1):
            p = Fraction(10) ** k
            for m in range(m0, m1):
                v = nearest(m * p, typ)
                if v is not None:
                    out.append(v)
    elif cls == 'boundary':
        n = block[2]
        for k in range(block[3], block[4]):
            p = Fraction(10) ** (k - n + 1)       # n-digit mantissa d.ddd x 10^k
            for pat in boundary_patterns(n):
                m = int(pat)
                for fr in (Fraction(m), Fraction(2 * m + 1, 2), Fraction(2 * m - 1, 2)):
                    out += around(fr * p, typ)
    seen = set()
    res = []
    for v in out:
        if v is None or v != v or v in (float('inf'),):
            continue
        if typ == 'SINGLE' and v > F32_MAX:
            continue
        if v < 0:
            v = -v
        key = bits_of(v, typ)
        if key not in seen:
            seen.add(key)
            res.append(v)
    return res


def int_blocks(typ, tier):
    if typ == 'INTEGER':
        # every value: magnitudes 0..32768 (32768 only as -32768)
        return [(typ, 'all', lo, min(lo + 1024, 32769)) for lo in range(0, 32769, 1024)]
    B = 4 if tier == 'quick' else 8
    D = 3 if tier == 'quick' else 4
    return ([(typ, 'pow2'), (typ, 'pow10'), (typ, 'mantissa', B), (typ, 'limits')] +
            [(typ, 'decimal', D, k) for k in range(0, 10)])


def _expand_int(block):
    typ, cls = block[0], block[1]
    top = 32768 if typ == 'INTEGER' else 2 ** 31     # magnitude `top` exists only negated
    out = []
    if cls == 'all':
        out = list(range(block[2], block[3]))
    elif cls == 'pow2':
        for e in range(0, 32):
            out += [2 ** e - 1, 2 ** e, 2 ** e + 1]
    elif cls == 'pow10':
        for k in range(0, 10):
            out += [10 ** k - 1, 10 ** k, 10 ** k + 1]
    elif cls == 'mantissa':
        B = block[2]
        for s in range(0, 32):
            for m in range(1 << (B - 1), 1 << B):
                out.append(m << s)
    elif cls == 'decimal':
        D, k = block[2], block[3]
        for m in range(1, 10 ** D):
            if k == 0 or m % 10:          # m0 x 10^k is listed under k+1
                out.append(m * 10 ** k)
    elif cls == 'limits':
        out = [0, 1, 32767, 32768, 32769, 65535, 65536, 2 ** 31 - 2, 2 ** 31 - 1, 2 ** 31,
               999999999, 1000000000, 2147483639, 2147483640]
    res = sorted(set(v for v in out if 0 <= v <= top))
    return res
