"""E6 - DX, the debugger driver shared by C12 and C13.

A *session* is the real ``qvm.dbg.Cmd`` built over a real ``QvmMachine`` whose
peripherals object is a scripted ``impl.Env`` (never one of the terminal
classes).  Commands are issued with ``Cmd.onecmd(line)``; everything the
debugger prints while a command runs is captured per command.  A node of a
search is a command history; it is materialised by replaying the history on a
fresh machine (about 1 ms).

Only the observation points of DESIGN 2.8 are used: ``Cmd(machine,
module).onecmd``, ``cpu.pc / halted / halt_reason / last_trap / cur_frame /
stack``, ``module.debug_info.stmts / find_stmt`` and the peripherals protocol.
The statement records are read through the attributes the property anchors
name (``start_offset end_offset source_start_line source_start_offset``).
"""
import contextlib
import io
import sys

from . import impl
from .explore import canon_machine

from qvm.dbg import Cmd
from qvm.cpu import HaltReason


class Debuggee:
    """One compiled program (-g) with everything derived from it once."""

    def __init__(self, name, src, opt, script=None, horizon=20000):
        self.name = name
        self.src = src
        self.opt = opt
        self.script = script or {}
        r = impl.compile_text(src, opt, True, want_listing=False)
        if not r.ok:
            raise ValueError(f'debuggee {name} does not compile at O{opt}: {r.brief()}')
        self.binary = r.binary
        self.module = impl.load(r.binary)
        self.di = self.module.debug_info
        self.nlines = len(src.rstrip('\n').split('\n'))
        self.horizon = horizon
        self._free = None

    # -- statements --------------------------------------------------------
    def stmt_at(self, pc, cpu):
        """the statement record the debug map attributes `pc` to (or None)"""
        if pc is None or pc >= len(self.module.code):
            return None
        try:
            return self.di.find_stmt(pc, cpu)
        except TypeError:
            return self.di.find_stmt(pc)

    @staticmethod
    def sid(stmt):
        """hashable identity of a statement record: (line, col, code start, code end)"""
        if stmt is None:
            return None
        return (stmt.source_start_line, stmt.source_start_col,
                stmt.start_offset, stmt.end_offset)

    def stmts_with_code(self):
        return [s for s in self.di.stmts if s.end_offset > s.start_offset]

    def line_target(self, line):
        """first instruction of the first statement, in source order, that
        starts at or after `line` and has code (the property's definition of
        where a line breakpoint stops); None if there is none."""
        best = None
        for s in self.di.stmts:
            if s.end_offset <= s.start_offset or s.source_start_line < line:
                continue
            k = (s.source_start_offset, s.start_offset)
            if best is None or k < best[0]:
                best = (k, s)
        return best[1] if best else None

    # -- the free run ------------------------------------------------------
    def free(self):
        """free run with a pc trace: dict(outcome, events, pcs, depths, evn)
        pcs[i] = pc before tick i ; evn[i] = number of device events before
        tick i ; depths[i] = call-frame depth before tick i"""
        if self._free is None:
            env = impl.Env(self.script)
            mon = _PcMonitor(env)
            out, m = impl.run_module(self.module, env, horizon=self.horizon, monitor=mon)
            self._free = {'outcome': out, 'events': list(env.events), 'pcs': mon.pcs,
                          'depths': mon.depths, 'evn': mon.evn, 'final_pc': m.cpu.pc,
                          'end': outcome_key(out.end, out.trap)}
        return self._free

    def session(self):
        return Session(self)


class _PcMonitor:
    def __init__(self, env):
        self.env = env
        self.pcs = []
        self.depths = []
        self.evn = []

    def pre(self, cpu):
        self.pcs.append(cpu.pc)
        self.depths.append(frame_depth(cpu))
        self.evn.append(len(self.env.events))

    def post(self, cpu):
        pass


def frame_depth(cpu):
    n = 0
    f = cpu.cur_frame
    while f is not None and n < 10000:
        n += 1
        f = f.prev_frame
    return n


def outcome_key(end, trap):
    return f'trap:{trap}' if end == 'trap' else end


class Session:
    """A live debugger over a fresh machine.  `do(line)` runs one command and
    returns a Step record; nothing is ever raised for a failing command (the
    exception is part of the observation)."""

    def __init__(self, dbe):
        self.dbe = dbe
        self.env = impl.Env(dbe.script)
        self.machine = impl.new_machine(dbe.module, self.env)
        self.cpu = self.machine.cpu
        self.history = []
        self.exc = None
        buf = io.StringIO()
        with _redirect(buf):
            try:
                self.cmd = Cmd(self.machine, dbe.module)
            except (impl.Timeout, KeyboardInterrupt):
                raise
            except BaseException as e:   # includes SystemExit from exit(1)
                self.cmd = None
                self.exc = f'{type(e).__name__}: {e}'
        self.start_output = buf.getvalue()

    # -- observation -------------------------------------------------------
    @property
    def finished(self):
        """the program has ended (an instruction, a trap or the end of the
        code halted the machine) - as opposed to being stopped by the debugger"""
        return bool(self.cpu.halted) or self.cpu.pc >= len(self.dbe.module.code)

    def end_kind(self):
        r = self.cpu.halt_reason
        if r == HaltReason.TRAP:
            return outcome_key('trap', self.cpu.last_trap.name if self.cpu.last_trap else None)
        if r == HaltReason.INSTRUCTION:
            return 'halt'
        if r == HaltReason.END_OF_CODE or (not self.cpu.halted and self.finished):
            return 'eoc'
        return 'undefined:' + getattr(r, 'name', str(r))

    def stmt(self):
        return self.dbe.stmt_at(self.cpu.pc, self.cpu)

    def depth(self):
        return frame_depth(self.cpu)

    def bp_specs(self):
        """user breakpoints as sorted printable specs (the debugger's own
        objects have __str__; step/next temporaries are functions)"""
        out = []
        for bp in self.cpu.breakpoints:
            out.append('fn' if type(bp).__name__ == 'function' else str(bp))
        return sorted(out)

    def canon(self):
        return canon_machine(self.machine)

    def key(self):
        return (self.canon(), tuple(self.bp_specs()), self.finished)

    # -- commands ----------------------------------------------------------
    def do(self, line):
        st = Step()
        st.line = line
        st.ev_before = len(self.env.events)
        buf = io.StringIO()
        with _redirect(buf):
            try:
                st.ret = self.cmd.onecmd(line)
            except (impl.Timeout, KeyboardInterrupt):
                raise
            except impl.Exhausted as e:
                st.exc = f'Exhausted({e.kind})'
            except BaseException as e:
                st.exc = f'{type(e).__name__}: {e}'
                st.where = impl._where(e.__traceback__)
        st.out = buf.getvalue()
        st.ev_after = len(self.env.events)
        self.history.append(line)
        return st


class Step:
    __slots__ = ('line', 'out', 'exc', 'where', 'ret', 'ev_before', 'ev_after')

    def __init__(self):
        self.line = None
        self.out = ''
        self.exc = None
        self.where = None
        self.ret = None
        self.ev_before = self.ev_after = 0


@contextlib.contextmanager
def _redirect(buf):
    old = sys.stdout
    sys.stdout = buf
    try:
        yield
    finally:
        sys.stdout = old


def replay_history(dbe, history):
    """fresh session + the commands of `history`; returns (session, steps)"""
    s = Session(dbe)
    steps = []
    if s.cmd is None:
        return s, steps
    for line in history:
        steps.append(s.do(line))
    return s, steps
