"""C02 (b) - the constant space.

Every expression `a op b`, `op a`, `(a op b) op c` over a bounded set of literal
operands is evaluated by the compiler (folded at O1/O2, cloned into a CONST,
used as a static array bound) and compared with the same expression whose
operands are first stored in typed variables, compiled at O0 and evaluated by
the machine.  Types and values of operands are *calibrated*: `PRINT <operand>`
at O0 tells which typed variable holds it.
"""
import itertools

from . import impl

BIN_OPS = ['+', '-', '*', '/', '\\', 'MOD', '^', 'AND', 'OR', 'XOR', 'EQV', 'IMP',
           '=', '<>', '<', '>', '<=', '>=']
UN_OPS = ['-', '+', 'NOT']
SUFFIX = {'INTEGER': '%', 'LONG': '&', 'SINGLE': '!', 'DOUBLE': '#', 'STRING': '$'}

# operands per declared class; the class is only used to organise the lists,
# the real type comes from calibration
OPERANDS_T = {
    'I': ['0', '1', '-1', '2', '-2', '7', '-7', '32767', '(-32767 - 1)'],
    'L': ['0&', '1&', '-1&', '2&', '-2&', '7&', '-7&', '32768', '-32768', '-32769',
          '2147483647', '(-2147483647 - 1)'],
    'S': ['0!', '1!', '-1!', '2!', '-2!', '7!', '-7!', '0.5', '-0.5', '1.5', '2.5', '0.1',
          '16777216!', '2147483648!', '3.402823e38', '-3.402823e38', '1e-38'],
    'D': ['0#', '1#', '-1#', '2#', '-2#', '7#', '-7#', '0.5#', '-0.5#', '1.5#', '2.5#', '0.1#',
          '16777216#', '2147483648#', '-2147483649#', '3.402823466e38#',
          '1.7976931348623157d308', '4.9d-324'],
    '$': ['""', '"a"', '"b"', '"ab"'],
}
OPERANDS_Q = {
    'I': ['0', '-2', '7', '32767', '(-32767 - 1)'],
    'L': ['7&', '32768', '2147483647', '(-2147483647 - 1)'],
    'S': ['0!', '0.5', '-2.5', '3.402823e38', '1e-38'],
    'D': ['0.1#', '-7#', '2147483648#', '1.7976931348623157d308'],
    '$': ['""', '"a"', '"ab"'],
}
TER_VALUES_T = ['2', '32767', '70000', '0.5', '0.1#']
TER_VALUES_Q = ['2', '70000', '0.5']
TER_OPS_Q = ['+', '*', '/', '\\', '^', 'AND', '<']

QUICK_HUGE_POWER_BASES = ('0', '7', '(-2147483647 - 1)')

PACK = 20


def operands(tier):
    return OPERANDS_Q if tier == 'quick' else OPERANDS_T


def items(tier):
    ops = operands(tier)
    nums = ops['I'] + ops['L'] + ops['S'] + ops['D']
    out = []
    for a in nums + ops['$']:
        out.append(('un', (a,)))
    for a in nums:
        for b in nums:
            out.append(('bin', (a, b)))
    for a in ops['$']:
        for b in ops['$']:
            out.append(('bin', (a, b)))
    # mixed string / number: only acceptance has to agree
    for a in ops['$'][1:2]:
        for b in ('2', '0.5'):
            out.append(('bin', (a, b)))
            out.append(('bin', (b, a)))
    tv = TER_VALUES_Q if tier == 'quick' else TER_VALUES_T
    for t in itertools.product(tv, repeat=3):
        out.append(('ter', t))
    return out


def cells_of(item, tier):
    form, opnds = item
    if form == 'un':
        return [(form, (o,), opnds) for o in UN_OPS]
    if form == 'bin':
        ops = BIN_OPS
        if tier == 'quick' and opnds[1] == '2147483647' and opnds[0] not in QUICK_HUGE_POWER_BASES:
            # every |base| >= 2 hangs the folder here (known finding); each
            # confirmation costs SHORT_LIMIT + LONG_LIMIT seconds, so the quick
            # tier keeps three bases and leaves the rest to the thorough tier
            ops = [o for o in BIN_OPS if o != '^']
        return [(form, (o,), opnds) for o in ops]
    ops = TER_OPS_Q if tier == 'quick' else BIN_OPS
    return [(form, (o1, o2), opnds) for o1 in ops for o2 in ops]


def _un(op, x):
    if op == 'NOT':
        return 'NOT ' + x
    if x.startswith('-') or x.startswith('+'):
        return f'{op}({x})'
    return op + x


def expr_text(cell, names=None):
    form, ops, opnds = cell
    x = names or opnds
    if form == 'un':
        return _un(ops[0], x[0])
    a = x[0]
    if ops[0] == '^' and a.startswith('-'):
        # unary minus binds weaker than ^: keep the operand a (negative) value
        a = f'({a})'
    if form == 'bin':
        return f'{a} {ops[0]} {x[1]}'
    return f'({a} {ops[0]} {x[1]}) {ops[1]} {x[2]}'


# ---------------------------------------------------------------------------
# calibration and reference (run-time evaluation through typed variables)

_calib = {}
_varok = {}


def calibrate(text):
    """-> (type name, value) of an operand as the O0 machine sees it"""
    c = _calib.get(text)
    if c is None:
        for _ in range(3):     # a spurious timeout on an overloaded machine must not end the run
            r, out = impl.compile_and_run('PRINT ' + text, 0, False, typed_prints=True)
            if r.kind != 'timeout':
                break
        if not r.ok or out.end not in ('halt', 'eoc') or not out.prints or not out.prints[0]:
            raise RuntimeError(f'C02 consts: operand {text!r} cannot be calibrated: '
                               f'{r.brief()} {out and out.summary()}')
        c = _calib[text] = tuple(out.prints[0][0])
    return c


def var_names(opnds):
    return tuple('pqr'[i] + 'v' + SUFFIX[calibrate(o)[0]] for i, o in enumerate(opnds))


def var_accepted(vexpr):
    """does the O0 compiler accept `PRINT <expression over typed variables>`?
    (depends on operator and operand types only)"""
    v = _varok.get(vexpr)
    if v is None:
        r = compile_confirmed('PRINT ' + vexpr, 0)
        v = _varok[vexpr] = r.kind
    return v == 'ok'


SHORT_LIMIT = 3.0      # a compile that takes longer is repeated with LONG_LIMIT
LONG_LIMIT = 20.0      # before it is called a hang


def compile_confirmed(src, opt, dbg=False):
    r = impl.compile_text(src, opt, dbg, limit=SHORT_LIMIT, want_listing=False)
    if r.kind == 'timeout':
        r = impl.compile_text(src, opt, dbg, limit=LONG_LIMIT, want_listing=False)
    return r


def run_prog(src, opt, dbg=False):
    r = compile_confirmed(src, opt, dbg)
    if not r.ok:
        return r, None
    try:
        mod = impl.load(r.binary)
    except Exception as e:
        r = impl.CompileResult('crash', exc='LoaderRejected', stage='load', msg=str(e)[:100])
        return r, None
    out, _ = impl.run_module(mod, impl.Env(), horizon=20000, typed_prints=True)
    return r, out


def reference(opnds, cells, fmt):
    """evaluate the cells at run time (O0, operands in typed variables).
    fmt(vexpr, k) -> list of source lines that print cell k's value.
    -> {index: ('ok', item) | ('trap', name) | ('hostexc', exc) | ('other', x)}"""
    names = var_names(opnds)
    head = [f'{n} = {o}' for n, o in zip(names, opnds)]
    res = {}
    todo = list(range(len(cells)))
    while todo:
        pack, todo = todo[:PACK], todo[PACK:]
        while pack:
            lines = list(head)
            for k in pack:
                lines += fmt(expr_text(cells[k], names), k)
            r, out = run_prog('\n'.join(lines), 0)
            if not r.ok:
                for k in pack:
                    res[k] = ('other', 'reference rejected: ' + r.brief())
                break
            n = len(out.prints)
            for i in range(min(n, len(pack))):
                it = out.prints[i]
                res[pack[i]] = ('ok', _items(it)) if it else ('other', 'unreadable print')
            if n >= len(pack):
                break
            k = pack[n]
            if out.end == 'trap':
                res[k] = ('trap', out.trap)
            elif out.end == 'hostexc':
                res[k] = ('hostexc', out.exc)
            else:
                res[k] = ('other', out.end)
            pack = pack[n + 1:]
    return res


def _items(it):
    return tuple(tuple(i) if isinstance(i, (list, tuple)) else i for i in it)


def same_items(a, b):
    return len(a) == len(b) and all(
        (x == y) if isinstance(x, str) else (x[0] == y[0] and repr(x[1]) == repr(y[1]))
        for x, y in zip(a, b))


def sign_of_zero_only(a, b):
    """the two item lists differ only in the sign of a floating zero"""
    if len(a) != len(b):
        return False
    for x, y in zip(a, b):
        if isinstance(x, str) or isinstance(y, str):
            if x != y:
                return False
        elif x[0] != y[0]:
            return False
        elif repr(x[1]) != repr(y[1]):
            if not (isinstance(x[1], float) and isinstance(y[1], float) and x[1] == 0.0 and y[1] == 0.0):
                return False
    return True


# ---------------------------------------------------------------------------
# guises of the constant version

def g_print(e, k):
    return [f'PRINT {e}']


def g_const(e, k):
    return [f'CONST k{k} = {e}', f'PRINT k{k}']


def g_dim(e, k):
    return [f'DIM d{k}({e}) AS INTEGER', f'z{k}% = 7', f'd{k}(UBOUND(d{k})) = 5',
            f'PRINT UBOUND(d{k}); z{k}%; d{k}(UBOUND(d{k}))']


GUISES = {'print': g_print, 'const': g_const, 'dim': g_dim}
LEVELS = (0, 1, 2)


def stmt_bytes(binary):
    """{source line: code bytes of the statements starting on it} from -g info"""
    try:
        mod = impl.load(binary)
        out = {}
        for s in mod.debug_info.stmts:
            out.setdefault(s.source_start_line, []).append(bytes(mod.code[s.start_offset:s.end_offset]))
        return out
    except Exception:
        return None


def vclass(text):
    t, v = calibrate(text)
    if t == 'STRING':
        return 'str' + str(len(v))
    if v == 0:
        return 'zero'
    s = 'neg' if v < 0 else 'pos'
    if v != int(v) if abs(v) < 1e300 else False:
        return s + '-frac'
    a = abs(v)
    if a < 1:
        return s + '-tiny'
    if a <= 7:
        return s + '-small'
    if a < 32767:
        return s + '-mid'
    return s + '-big'


def operand_fit(opnds):
    """input-side class: is there a floating operand whose rounded value no
    integral type can hold (the integral operators convert their operands)"""
    for o in opnds:
        t, v = calibrate(o)
        if t in ('SINGLE', 'DOUBLE') and not (-2147483648.5 <= v < 2147483647.5):
            return 'float-beyond-long'
    return 'fits'


def single_literal(opnds):
    """input-side class: is there a SINGLE operand whose decimal text is not
    exactly a SINGLE value (the machine holds the rounded value)"""
    seen = 'none'
    for o in opnds:
        t, v = calibrate(o)
        if t != 'SINGLE':
            continue
        seen = 'exact' if seen == 'none' else seen
        try:
            if float(o.rstrip('!')) != v:
                return 'inexact'
        except ValueError:
            pass
    return seen


def features(cell, guise, divergence, levels):
    form, ops, opnds = cell
    return {'family': 'consts', 'divergence': divergence, 'guise': guise, 'form': form,
            'op': ' '.join(ops),
            'types': ''.join(SUFFIX[calibrate(o)[0]] for o in opnds),
            'values': ','.join(vclass(o) for o in opnds),
            'operand_fit': operand_fit(opnds),
            'single_literal': single_literal(opnds),
            'levels': ','.join(f'O{o}' for o in levels)}


def show(x):
    return impl.jsonable(x)


class Acc:
    def __init__(self):
        self.viol = {}     # (cell idx, guise, divergence) -> [levels, expected, observed, src]
        self.hung = set()  # cells whose constant form hung the compiler once (not tried again)
        self.st = {'cs_evaluations': 0, 'cs_nontrivial': 0, 'cs_cells': 0, 'cs_folded': 0,
                   'cs_status': {}, 'cs_guise': {}, 'cs_results': set(), 'cs_compiles': 0}

    def bump(self, key, name, n=1):
        d = self.st[key]
        d[name] = d.get(name, 0) + n

    def add(self, k, guise, div, level, expected, observed, src):
        e = self.viol.setdefault((k, guise, div), [[], expected, observed, src])
        if level not in e[0]:
            e[0].append(level)


def check_ok_cells(acc, cells, ks, ref, guise, width):
    """cells ks are expected to evaluate without error: packed programs"""
    fmt = GUISES[guise]
    for p in range(0, len(ks), PACK):
        pack = ks[p:p + PACK]
        for opt in LEVELS:
            _check_pack(acc, cells, pack, ref, guise, fmt, opt, width)


def _check_pack(acc, cells, pack, ref, guise, fmt, opt, width):
    lines = []
    for k in pack:
        lines += fmt(expr_text(cells[k]), k)
    src = '\n'.join(lines)
    r, out = run_prog(src, opt)
    acc.st['cs_compiles'] += 1
    good = r.ok and out.end in ('halt', 'eoc') and len(out.prints) == len(pack)
    if not good and len(pack) > 1:
        # isolate: every cell on its own
        for k in pack:
            _check_pack(acc, cells, [k], ref, guise, fmt, opt, width)
        return
    if not good:
        k = pack[0]
        exp = {'run-time evaluation (O0, typed variables)': show(ref[k][1])}
        if not r.ok:
            acc.add(k, guise, _fail_div(r), opt, exp, r.brief(), src)
        else:
            acc.add(k, guise, 'error-instead-of-value', opt, exp,
                    {'end': out.end, 'trap': out.trap, 'exc': out.exc}, src)
        return
    for k, items in zip(pack, out.prints):
        want = ref[k][1]
        got = _items(items or ())
        if not same_items(got, want):
            if len(got) == len(want) and any(not isinstance(x, str) and x[0] != y[0]
                                             for x, y in zip(got, want)):
                div = 'type'
            elif sign_of_zero_only(got, want):
                div = 'sign-of-zero'
            else:
                div = 'value'
            acc.add(k, guise, div, opt, {'run-time evaluation (O0, typed variables)': show(want)},
                    show(got), '\n'.join(fmt(expr_text(cells[k]), k)))


def _fail_div(r):
    if r.kind == 'timeout':
        return 'compiler-timeout'
    return 'compiler-crash' if r.kind == 'crash' else 'compile-failure'


def check_failing_cell(acc, cells, k, ref, guise):
    """the run-time evaluation of cell k ends in a trap: one program"""
    fmt = GUISES[guise]
    src = '\n'.join(fmt(expr_text(cells[k]), k))
    want = ref[k]
    res = []
    if k in acc.hung:
        acc.bump('cs_status', 'not-retried-after-compiler-hang')
        return
    for opt in LEVELS:
        r, out = run_prog(src, opt)
        acc.st['cs_compiles'] += 1
        res.append((opt, r, out))
        if r.kind == 'timeout':
            # one confirmed hang per cell is enough; the remaining levels and
            # guises of this cell are not tried (each costs LONG_LIMIT seconds)
            acc.hung.add(k)
            break
    exp = {'run-time evaluation (O0, typed variables)': {'trap': want[1]}}
    if guise != 'print' and all(r.kind == 'compile' for _, r, _ in res) and \
            len(set(r.err_code for _, r, _ in res)) == 1:
        # a located diagnostic at every level for a CONST / static bound that
        # cannot be computed: left open by the property (QBASIC does the same)
        acc.bump('cs_status', 'failing-cell-rejected-at-all-levels')
        return
    for opt, r, out in res:
        if not r.ok:
            acc.add(k, guise, _fail_div(r), opt, exp, r.brief(), src)
        elif out.end != 'trap' or out.trap != want[1]:
            obs = {'end': out.end, 'trap': out.trap, 'exc': out.exc, 'prints': show(out.prints)}
            acc.add(k, guise, 'value-instead-of-error' if out.end in ('halt', 'eoc') else 'error-class',
                    opt, exp, obs, src)
        elif out.prints:
            acc.add(k, guise, 'error-position', opt, exp, {'prints_before_trap': show(out.prints)}, src)


def check_rejected_cell(acc, cells, k):
    """the typed-variable form is not accepted (type error): the constant form
    only has to get the same verdict at every level"""
    src = 'PRINT ' + expr_text(cells[k])
    verd = []
    for opt in LEVELS:
        r = compile_confirmed(src, opt)
        acc.st['cs_compiles'] += 1
        verd.append((opt, r))
    v0 = verd[0][1]
    for opt, r in verd[1:]:
        if r.kind != v0.kind or (r.rejected and r.err_code != v0.err_code):
            div = _fail_div(r) if r.kind in ('crash', 'timeout') else 'verdict'
            acc.add(k, 'print', div, opt, 'O0: ' + v0.brief(), r.brief(), src)


def dim_eligible(refval):
    if refval[0] != 'ok':
        return False
    t, v = refval[1][0]
    if t == 'STRING':
        return False
    return 0 <= v <= 40 and v == v


def measure_folding(acc, cells, ks):
    """which PRINT lines does the O1 compiler translate differently from O0?
    (per statement code bytes from the -g statement table)"""
    folded = set()
    for p in range(0, len(ks), PACK):
        pack = ks[p:p + PACK]
        src = '\n'.join('PRINT ' + expr_text(cells[k]) for k in pack)
        r0 = impl.compile_text(src, 0, True, limit=SHORT_LIMIT, want_listing=False)
        r1 = impl.compile_text(src, 1, True, limit=SHORT_LIMIT, want_listing=False)
        if not (r0.ok and r1.ok):
            continue
        b0, b1 = stmt_bytes(r0.binary), stmt_bytes(r1.binary)
        if b0 is None or b1 is None:
            continue
        for i, k in enumerate(pack):
            if b0.get(i + 1) != b1.get(i + 1):
                folded.add(k)
    return folded


def do_item(item, tier, acc):
    form, opnds = item
    cells = cells_of(item, tier)
    for o in opnds:
        calibrate(o)
    names = var_names(opnds)
    live, rejected = [], []
    for k, c in enumerate(cells):
        (live if var_accepted(expr_text(c, names)) else rejected).append(k)
    acc.st['cs_cells'] += len(cells)
    for k in rejected:
        check_rejected_cell(acc, cells, k)
        acc.bump('cs_status', 'rejected-by-type')
        acc.st['cs_evaluations'] += 1
    if not live:
        return cells
    sub = [cells[k] for k in live]
    ref_l = reference(opnds, sub, g_print)
    ref = {live[i]: v for i, v in ref_l.items()}
    okc = [k for k in live if ref[k][0] == 'ok']
    bad = [k for k in live if ref[k][0] == 'trap']
    for k in live:
        acc.bump('cs_status', 'ref-' + ref[k][0])
        acc.st['cs_results'].add((ref[k][0],) + ((ref[k][1][0][0],) if ref[k][0] == 'ok' else (ref[k][1],)))
    width = len(opnds)
    for guise in ('print', 'const'):
        check_ok_cells(acc, cells, okc, ref, guise, width)
        acc.bump('cs_guise', guise, len(okc))
        for k in bad:
            check_failing_cell(acc, cells, k, ref, guise)
        acc.bump('cs_guise', guise + '-failing', len(bad))
    # cells whose run-time evaluation raises a host exception or is otherwise
    # unreadable are C07's business; here only: the compiler must not die
    for k in live:
        if ref[k][0] in ('hostexc', 'other'):
            for opt in LEVELS:
                r = compile_confirmed('PRINT ' + expr_text(cells[k]), opt)
                if r.kind in ('crash', 'timeout'):
                    acc.add(k, 'print', _fail_div(r), opt, 'a module (run-time evaluation is itself broken: '
                            + str(ref[k][1]) + ')', r.brief(), 'PRINT ' + expr_text(cells[k]))
    # static array bound
    dk = [k for k in okc if dim_eligible(ref[k])]
    if dk:
        dref_l = reference(opnds, [cells[k] for k in dk], g_dim)
        dref = {k: dref_l[i] for i, k in enumerate(dk) if dref_l.get(i, ('?',))[0] == 'ok'}
        dk = [k for k in dk if k in dref]
        check_ok_cells(acc, cells, dk, dref, 'dim', width)
        acc.bump('cs_guise', 'dim', len(dk))
    # a failing expression as a static bound: the same trap when the module
    # runs, or one located diagnostic at every level - never a compiler crash
    for k in bad:
        check_failing_cell(acc, cells, k, ref, 'dim')
    acc.bump('cs_guise', 'dim-failing', len(bad))
    folded = measure_folding(acc, cells, [k for k in okc + bad if k not in acc.hung])
    acc.st['cs_folded'] += len(folded)
    acc.st['cs_nontrivial'] += len(folded | set(bad))
    acc.st['cs_evaluations'] += len(live)
    return cells


def worker(chunk, tier):
    impl.parse_cache(True)
    viols = []
    acc = Acc()
    for item in chunk:
        item = (item[0], tuple(item[1]))
        acc.viol = {}
        acc.hung = set()
        cells = do_item(item, tier, acc)
        for (k, guise, div), (levels, exp, obs, src) in acc.viol.items():
            cell = cells[k]
            feat = features(cell, guise, div, sorted(levels))
            names = var_names(cell[2])
            case = {'kind': 'const', 'form': cell[0], 'ops': list(cell[1]), 'operands': list(cell[2]),
                    'guise': guise, 'source': src,
                    'reference_source': '\n'.join([f'{n} = {o}' for n, o in zip(names, cell[2])]
                                                  + GUISES[guise](expr_text(cell, names), k)),
                    'levels': sorted(levels)}
            size = len(expr_text(cell)) + (0 if guise == 'print' else 5)
            viols.append((feat, case, exp, obs, size))
    return viols, acc.st


def describe(tier):
    ops = operands(tier)
    return {'binary_ops': BIN_OPS, 'unary_ops': UN_OPS, 'operands': ops,
            'ternary_values': TER_VALUES_Q if tier == 'quick' else TER_VALUES_T,
            'ternary_ops': TER_OPS_Q if tier == 'quick' else BIN_OPS,
            'guises': ['PRINT e', 'CONST k = e : PRINT k',
                       'DIM d(e) AS INTEGER : z% = 7 : d(UBOUND(d)) = 5 : PRINT UBOUND(d); z%; d(UBOUND(d))  '
                       '(cells whose run-time value is in 0..40)'],
            'levels': ['O0', 'O1', 'O2'],
            'cut': ('quick: a ^ 2147483647 only for a in %s' % (QUICK_HUGE_POWER_BASES,)) if tier == 'quick' else None,
            'compile_limits_s': [SHORT_LIMIT, LONG_LIMIT],
            'reference': 'operands assigned to typed variables (types calibrated by PRINT <operand> at O0), '
                         'expression over the variables compiled at O0'}


def run(chk):
    its = items(chk.tier)
    # keep ternary items (many cells each) in small chunks
    small = [i for i in its if i[0] != 'ter']
    ter = [i for i in its if i[0] == 'ter']
    for part, chunk in ((small, 8), (ter, 1)):
        for viol, st in chk.pmap(worker, part, extra=(chk.tier,), chunk=chunk):
            chk.add_violations(viol)
            chk.merge_stats(st)
    for it in (its[0], its[len(small) // 2], its[-1]):
        cs_ = cells_of(it, chk.tier)
        c = cs_[len(cs_) // 3]
        chk.sample({'family': 'consts', 'expression': expr_text(c),
                    'guises': ['\n'.join(g(expr_text(c), 1)) for g in (g_print, g_const, g_dim)]})
    d = describe(chk.tier)
    d['items'] = len(its)
    return d


def replay(rec):
    case = rec['case']
    impl.parse_cache(False)
    print('--- constant form ---')
    print(case['source'])
    print('--- reference: the same expression over typed variables, O0 ---')
    print(case['reference_source'])
    r, out = run_prog(case['reference_source'], 0)
    refobs = (r.brief(), out and (out.end, out.trap, out.exc, out.prints))
    print('   ', refobs)
    rc = 0
    want = None
    if out is None:
        kinds = set()
        for opt in LEVELS:
            rr = impl.compile_text(case['source'], opt, False)
            print(f'O{opt}:', rr.brief())
            kinds.add((rr.kind, rr.err_code))
        print('DIFFERS' if len(kinds) > 1 else 'agrees')
        return 1 if len(kinds) > 1 else 0
    if out is not None:
        want = ('trap', out.trap) if out.end == 'trap' else ('ok', out.prints[-1] if out.prints else None)
    for opt in LEVELS:
        r, o = run_prog(case['source'], opt)
        obs = (r.brief(), o and (o.end, o.trap, o.exc, o.prints))
        print(f'O{opt}:', obs)
        if not r.ok:
            rc = 1
        elif want is not None:
            got = ('trap', o.trap) if o.end == 'trap' else ('ok', o.prints[-1] if o.prints else None)
            if repr(got) != repr(want):
                rc = 1
    print('DIFFERS' if rc else 'agrees')
    return rc
