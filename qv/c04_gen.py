"""C04 - driver-program generator and store models.

A *driver* is one BASIC program that declares a list of variables
(shape x storage class), numbers every storage location (every element, every
leaf field) and then loops

    INPUT op%, lc%, v%, v$, i1%, i2%, i3%  ->  SELECT CASE op% ...

so that the *operation sequence is environment input*: one compile serves a
whole explicit-state search (qv.explore.VX).  Every driver comes with a small
reference model (a Python dict location -> value) that says what every
operation must print.

Three driver classes:

  LayoutDriver   declaration lists; ops write / read / dump (+ quit: the caller
                 prints the variables the parameters were bound to)
  RecDriver      the same body inside a SUB that calls itself (depth <= 3):
                 fresh locals per activation, STATIC persists, SHARED is the
                 same everywhere, a parameter aliases the caller's local
  ByRefDriver    every location kind passed as an argument that the callee
                 writes (by reference), and the non-lvalue forms (x), x + 0 and
                 a literal that must alias nothing

Identifiers are chosen to stay clear of qbee's keywords (loc, pos, len, base,
name, key, imp ... are all reserved, with or without a suffix).
"""

TYPE_NAME = {'%': 'INTEGER', '&': 'LONG', '!': 'SINGLE', '#': 'DOUBLE',
             '$': 'STRING'}

# record types used by the shapes: name -> list of (field path, type char)
REC_LEAVES = {
    'pt': [('x', '%'), ('y', '$')],
    'outer': [('a', '&'), ('p.x', '%'), ('p.y', '$'), ('d', '#')],
}
REC_SRC = {
    'pt': ['TYPE pt', 'x AS INTEGER', 'y AS STRING', 'END TYPE'],
    'outer': ['TYPE outer', 'a AS LONG', 'p AS pt', 'd AS DOUBLE', 'END TYPE'],
}
REC_NEEDS = {'pt': ['pt'], 'outer': ['pt', 'outer']}

DYN_N = 2          # DIM a(dn%) with dn% = 2  ->  0..2
IMPLICIT_UB = 10   # implicit arrays are 0..10 in every dimension


class Shape:
    """kind: scalar | array | record | recarray | dynamic | implicit"""

    def __init__(self, sid, kind, elem, dims=None):
        self.sid = sid
        self.kind = kind
        self.elem = elem            # type char or record type name
        self.dims = dims            # list of (lb, ub) or None
        self.is_array = dims is not None
        self.is_rec = elem in REC_LEAVES

    def fields(self):
        """leaf fields of one element: list of (path or '', type char)"""
        if self.is_rec:
            return list(REC_LEAVES[self.elem])
        return [('', self.elem)]

    def type_text(self):
        return self.elem if self.is_rec else TYPE_NAME[self.elem]

    def subs(self):
        """all subscript tuples in row-major order ([()] for non-arrays)"""
        if not self.is_array:
            return [()]
        out = [()]
        for lb, ub in self.dims:
            out = [s + (i,) for s in out for i in range(lb, ub + 1)]
        return out

    def n_leaves(self):
        return len(self.subs()) * len(self.fields())

    def rank(self):
        return len(self.dims) if self.dims else 0


SHAPES = [
    Shape('i', 'scalar', '%'),
    Shape('l', 'scalar', '&'),
    Shape('f', 'scalar', '!'),
    Shape('d', 'scalar', '#'),
    Shape('z', 'scalar', '$'),
    Shape('a1', 'array', '%', [(-1, 1)]),
    Shape('b1', 'array', '$', [(2, 3)]),
    Shape('a2', 'array', '&', [(0, 1), (-1, 1)]),
    Shape('a3', 'array', '#', [(0, 1), (-1, 1), (2, 3)]),
    Shape('r2', 'record', 'pt'),
    Shape('rn', 'record', 'outer'),
    Shape('ar', 'recarray', 'pt', [(2, 3)]),
    Shape('an', 'recarray', 'outer', [(-1, 0)]),
    Shape('dy', 'dynamic', '!', [(0, DYN_N)]),
    Shape('im', 'implicit', '!', [(0, IMPLICIT_UB)]),
]
SHAPE = {s.sid: s for s in SHAPES}

CLASSES = ['M', 'S', 'L', 'T', 'P', 'F']
PARAM = ('P', 'F')
CLASS_TEXT = {'M': 'module-level DIM', 'S': 'DIM SHARED used from a SUB',
              'L': 'SUB-local DIM', 'T': 'STATIC in a SUB',
              'P': 'parameter bound to a caller location',
              'F': 'parameter handed on: the caller passes the location to SUB mid, which '
                   'passes its own parameter to the driver SUB (recursion drivers: every '
                   'activation passes its parameter to the next one)'}

# (shape, class) cells that the language / qbee does not offer
UNSUPPORTED = {
    ('im', 'S'): 'an implicit array cannot be SHARED',
    ('im', 'T'): 'implicit STATIC arrays need SUB ... STATIC (everything static); not generated',
    ('im', 'P'): 'an implicit array has no declaration to bind a parameter to',
    ('im', 'F'): 'an implicit array has no declaration to bind a parameter to',
    ('dy', 'T'): 'STATIC a(n%) is re-allocated on every call in qbee (QBASIC wants STATIC a() + DIM); not generated',
}


def supported(sid, cls):
    return (sid, cls) not in UNSUPPORTED


def fmt(tc, v):
    """text PRINT produces for a leaf value (small non-negative integers in
    every numeric type, plain strings)"""
    if tc == '$':
        return v
    return ' %d ' % v


def default(tc):
    return '' if tc == '$' else 0


class Leaf:
    __slots__ = ('idx', 'decl', 'subs', 'field', 'tc', 'ctext', 'vtext', 'key',
                 'fam')


class Decl:
    """one declared variable of a driver"""
    __slots__ = ('k', 'shape', 'cls', 'name', 'host', 'leaves')


def _access(name, subs, field):
    t = name
    if subs:
        t += '(' + ', '.join(str(s) for s in subs) + ')'
    if field:
        t += '.' + field
    return t


_IVARS = ['i1%', 'i2%', 'i3%']


def _vaccess(name, rank, field):
    t = name
    if rank:
        t += '(' + ', '.join(_IVARS[:rank]) + ')'
    if field:
        t += '.' + field
    return t


def _dim_text(shape, name, dyn_var='dn%'):
    """the text after DIM / DIM SHARED / STATIC"""
    if shape.kind == 'dynamic':
        return f'{name}({dyn_var}) AS {shape.type_text()}'
    if shape.is_array:
        d = ', '.join(f'{lb} TO {ub}' for lb, ub in shape.dims)
        return f'{name}({d}) AS {shape.type_text()}'
    return f'{name} AS {shape.type_text()}'


def _param_text(shape, name):
    if shape.is_array:
        return f'{name}() AS {shape.type_text()}'
    return f'{name} AS {shape.type_text()}'


def value_pair(leaf):
    """the two sentinels of a location (distinct over all locations of a
    driver, never the default)"""
    if leaf.tc == '$':
        return ('a%d' % leaf.idx, 'b%d' % leaf.idx)
    return (11 + 2 * leaf.idx, 12 + 2 * leaf.idx)


def _line(op, lc=0, v=0, s='', i=(0, 0, 0)):
    i = tuple(i) + (0,) * (3 - len(i))
    return '%d,%d,%d,%s,%d,%d,%d' % (op, lc, v, s, i[0], i[1], i[2])


INPUT_LINE = 'INPUT op%, lc%, v%, v$, i1%, i2%, i3%'
RESET_LINE = 'op% = 0: lc% = 0: v% = 0: v$ = "": i1% = 0: i2% = 0: i3% = 0'

OP_QUIT, OP_WC, OP_RC, OP_WV, OP_RV, OP_DC, OP_DV = 0, 1, 2, 3, 4, 5, 6
OP_CALL, OP_RET = 7, 8
OP_B1, OP_B2 = 9, 10


def _names(pairs):
    """variable names: 'q' + shape id + occurrence letter (a, b, ...), so that
    the same declaration has the same name - and the same source lines - in
    every driver (parse cache)"""
    seen = {}
    out = []
    for sid, cls in pairs:
        n = seen.get(sid, 0)
        seen[sid] = n + 1
        out.append('q' + sid + 'abcdefgh'[n])
    return out


class Op:
    """one menu entry: the answer line for INPUT and what it means"""
    __slots__ = ('line', 'kind', 'leaf', 'value', 'variant', 'extra')

    def __init__(self, line, kind, leaf=None, value=None, variant='c', extra=None):
        self.line = line
        self.kind = kind
        self.leaf = leaf
        self.value = value
        self.variant = variant
        self.extra = extra

    def label(self):
        if self.kind in ('write', 'read'):
            t = f'{self.kind}[{self.variant}] {self.leaf.ctext}'
            if self.kind == 'write':
                t += f' = {self.value!r}'
            return t
        if self.kind == 'call1':
            return f'w1 {self.extra} of {self.leaf.ctext} writes {self.value!r}'
        if self.kind == 'call2':
            return f'w2 {self.leaf.ctext}, {self.extra.ctext} writes {self.value!r}'
        return self.kind


# ---------------------------------------------------------------------------
# layout drivers


class LayoutDriver:
    """decls: list of (shape id, class); mode 'c' = the explored writes/reads
    use constant subscripts, 'v' = computed subscripts (i1%, i2%, i3% come
    from the input line).  Both dump variants are always present."""

    family = 'layout'

    def __init__(self, pairs, mode='c'):
        self.pairs = [tuple(p) for p in pairs]
        self.mode = mode
        classes = set(c for _, c in self.pairs)
        if 'F' in classes and 'P' in classes and self.family == 'layout':
            raise ValueError('classes P and F cannot be mixed (SUB mid hands on every parameter)')
        self.site = 'main' if classes <= {'M'} or classes == {'M', 'S'} else 'sub'
        if self.site == 'sub' and 'M' in classes:
            raise ValueError('class M cannot be mixed with L/T/P (loop lives in the SUB)')
        self.decls = []
        self.leaves = []
        names = _names(self.pairs)
        for k, ((sid, cls), name) in enumerate(zip(self.pairs, names)):
            d = Decl()
            d.k = k
            d.shape = SHAPE[sid]
            d.cls = cls
            d.name = name
            d.host = 'h' + name[1:] if cls in PARAM else None
            d.leaves = []
            for fi, (subs, (field, tc)) in enumerate(
                    (s, f) for s in d.shape.subs() for f in d.shape.fields()):
                lf = Leaf()
                lf.idx = len(self.leaves)
                lf.decl = d
                lf.subs = subs
                lf.field = field
                lf.tc = tc
                lf.ctext = _access(name, subs, field)
                lf.vtext = _vaccess(name, d.shape.rank(), field)
                lf.key = lf.idx
                lf.fam = None
                d.leaves.append(lf)
                self.leaves.append(lf)
            self.decls.append(d)
        # computed-subscript statement families: one per (array decl, field)
        self.vfams = []
        for d in self.decls:
            if d.shape.is_array:
                for field, tc in d.shape.fields():
                    fam = (d, field, tc)
                    for lf in d.leaves:
                        if lf.field == field:
                            lf.fam = len(self.vfams)
                    self.vfams.append(fam)
        self.has_hosts = any(d.cls in PARAM for d in self.decls)
        self.source = self._source()

    # -- identification --------------------------------------------------
    def ident(self):
        return {'family': self.family, 'decls': [list(p) for p in self.pairs],
                'mode': self.mode}

    def describe(self):
        return ' '.join(f'{s}:{c}' for s, c in self.pairs) + ' /' + self.mode

    # -- source ----------------------------------------------------------
    def _types_needed(self):
        need = []
        for d in self.decls:
            if d.shape.is_rec:
                for t in REC_NEEDS[d.shape.elem]:
                    if t not in need:
                        need.append(t)
        return [t for t in ('pt', 'outer') if t in need]

    def _dump_lines(self, variant, host=False, only=None):
        out = []
        for d in self.decls:
            if only is not None and d.cls not in only:
                continue
            name = d.host if host and d.cls in PARAM else d.name
            tag = f'"D{d.k}|"'
            if variant == 'c' or not d.shape.is_array:
                items = [tag]
                for lf in d.leaves:
                    items.append(_access(name, lf.subs, lf.field))
                    items.append('"|"')
                # long PRINT lines are split (parse time grows with the line)
                first = True
                body = items[1:]
                while body:
                    part, body = body[:8], body[8:]
                    head = [tag] if first else []
                    first = False
                    out.append('PRINT ' + '; '.join(head + part) + (';' if body else ''))
                if len(items) == 1:
                    out.append('PRINT ' + tag)
            else:
                out.append(f'PRINT {tag};')
                r = d.shape.rank()
                for j, (lb, ub) in enumerate(d.shape.dims):
                    out.append(f'FOR {_IVARS[j]} = {lb} TO {ub}')
                items = []
                for field, tc in d.shape.fields():
                    items.append(_vaccess(name, r, field))
                    items.append('"|"')
                out.append('PRINT ' + '; '.join(items) + ';')
                for j in range(r):
                    out.append('NEXT')
                out.append('PRINT')
        return out

    @staticmethod
    def _chain(var, bodies):
        """IF var = 0 THEN ... ELSEIF var = 1 THEN ... END IF (block IF has no
        hidden selector variable, so the control state is the same at every
        choice point and equal stores hash equal)"""
        L = []
        for n, body in bodies:
            L.append(('IF' if not L else 'ELSEIF') + f' {var} = {n} THEN')
            L += body
        if L:
            L.append('END IF')
        return L

    def _loop(self):
        cases = []
        # 1: write, constant subscripts
        cases.append((OP_WC, self._chain('lc%', [
            (lf.idx, [f'{lf.ctext} = ' + ('v$' if lf.tc == '$' else 'v%')])
            for lf in self.leaves])))
        # 2: read, constant subscripts
        cases.append((OP_RC, self._chain('lc%', [
            (lf.idx, [f'PRINT {lf.ctext}']) for lf in self.leaves])))
        if self.vfams:
            cases.append((OP_WV, self._chain('lc%', [
                (n, [_vaccess(d.name, d.shape.rank(), field) + ' = ' +
                     ('v$' if tc == '$' else 'v%')])
                for n, (d, field, tc) in enumerate(self.vfams)])))
            cases.append((OP_RV, self._chain('lc%', [
                (n, ['PRINT ' + _vaccess(d.name, d.shape.rank(), field)])
                for n, (d, field, tc) in enumerate(self.vfams)])))
        cases.append((OP_DC, self._dump_lines('c')))
        cases.append((OP_DV, self._dump_lines('v')))
        cases += self._extra_cases()
        cases.append((OP_QUIT, ['EXIT DO']))
        return ['DO', RESET_LINE, INPUT_LINE] + self._chain('op%', cases) + ['LOOP']

    def _extra_cases(self):
        return []

    def _source(self):
        L = []
        for t in self._types_needed():
            L += REC_SRC[t]
        mod_dyn = any(d.shape.kind == 'dynamic' and d.cls in ('M', 'S', 'P', 'F') for d in self.decls)
        if mod_dyn:
            L.append(f'dn% = {DYN_N}')
        # module-level declarations in list order
        for d in self.decls:
            if d.cls == 'S':
                L.append('DIM SHARED ' + _dim_text(d.shape, d.name))
            elif d.cls == 'M':
                if d.shape.kind != 'implicit':
                    L.append('DIM ' + _dim_text(d.shape, d.name))
            elif d.cls in PARAM:
                L.append('DIM ' + _dim_text(d.shape, d.host))
        if self.site == 'main':
            for d in self.decls:
                if d.shape.kind == 'implicit':
                    L.append(f'{d.name}(0) = 0')
            L += self._loop()
            L.append('END')
        else:
            args = []
            for d in self.decls:
                if d.cls in PARAM:
                    args.append(d.host + ('()' if d.shape.is_array else ''))
            fwd = any(d.cls == 'F' for d in self.decls)
            L.append(('mid' if fwd else 'drv') + (' ' + ', '.join(args) if args else ''))
            # the caller's view after the SUB returned
            L += self._host_dump()
            L.append('END')
            params = [_param_text(d.shape, d.name) for d in self.decls if d.cls in PARAM]
            if fwd:
                # the intermediate SUB hands its own parameters on
                L.append('SUB mid (' + ', '.join(params) + ')')
                L.append('drv ' + ', '.join(d.name + ('()' if d.shape.is_array else '')
                                            for d in self.decls if d.cls in PARAM))
                L.append('END SUB')
            L.append('SUB drv' + (' (' + ', '.join(params) + ')' if params else ''))
            if any(d.shape.kind == 'dynamic' and d.cls == 'L' for d in self.decls):
                L.append(f'dn% = {DYN_N}')
            for d in self.decls:
                if d.cls == 'T':
                    L.append('STATIC ' + _dim_text(d.shape, d.name))
                elif d.cls == 'L':
                    if d.shape.kind == 'implicit':
                        L.append(f'{d.name}(0) = 0')
                    else:
                        L.append('DIM ' + _dim_text(d.shape, d.name))
            L += self._loop()
            L.append('END SUB')
        return '\n'.join(L) + '\n'

    def _host_dump(self):
        return self._dump_lines('c', host=True, only=('P', 'F', 'S'))

    # -- model -----------------------------------------------------------
    def initial(self):
        """model state: dict leaf key -> value"""
        return {lf.key: default(lf.tc) for lf in self.leaves}

    def dump_text(self, st, only=None):
        out = []
        for d in self.decls:
            if only is not None and d.cls not in only:
                continue
            out.append('D%d|' % d.k + ''.join(fmt(lf.tc, st[lf.key]) + '|' for lf in d.leaves)
                       + '\r\n')
        return ''.join(out)

    def menu(self, st):
        """all operations offered in model state st, smallest first"""
        ops = []
        for lf in self.leaves:
            a, b = value_pair(lf)
            v = b if st[lf.key] == a else a
            if self.mode == 'v' and lf.fam is not None:
                ops.append(Op(_line(OP_WV, lf.fam, 0 if lf.tc == '$' else v,
                                    v if lf.tc == '$' else '', lf.subs), 'write', lf, v, 'v'))
            else:
                ops.append(Op(_line(OP_WC, lf.idx, 0 if lf.tc == '$' else v,
                                    v if lf.tc == '$' else ''), 'write', lf, v, 'c'))
        for lf in self.leaves:
            if self.mode == 'v' and lf.fam is not None:
                ops.append(Op(_line(OP_RV, lf.fam, i=lf.subs), 'read', lf, None, 'v'))
            else:
                ops.append(Op(_line(OP_RC, lf.idx), 'read', lf, None, 'c'))
        ops.append(Op(_line(OP_DC if self.mode == 'c' else OP_DV), 'dump', variant=self.mode))
        return ops

    def apply(self, st, op):
        """-> (new state, expected output text)"""
        if op.kind == 'write':
            st = dict(st)
            st[op.leaf.key] = op.value
            return st, ''
        if op.kind == 'read':
            return st, fmt(op.leaf.tc, st[op.leaf.key]) + '\r\n'
        if op.kind == 'dump':
            return st, self.dump_text(st)
        raise ValueError(op.kind)

    def probes(self, st):
        """observations made on forks after every transition:
        list of (name, [input lines], expected output, must_halt)"""
        pr = [('dump-const', [_line(OP_DC)], self.dump_text(st), False),
              ('dump-computed', [_line(OP_DV)], self.dump_text(st), False)]
        if self.site == 'sub' and (self.has_hosts or any(d.cls == 'S' for d in self.decls)):
            pr.append(('caller-view', [_line(OP_QUIT)],
                       self.dump_text(st, only=('P', 'F', 'S')), True))
        return pr

    def n_menu(self):
        return 2 * len(self.leaves) + 1

    def feature_base(self):
        kinds = sorted(set(d.shape.kind for d in self.decls))
        return {'family': self.family,
                'shapes': ','.join(s for s, _ in self.pairs),
                'classes': ','.join(c for _, c in self.pairs),
                'kinds': ','.join(kinds),
                'param_kinds': ','.join(sorted(set(d.shape.kind for d in self.decls
                                                   if d.cls in PARAM))) or '-',
                'mode': self.mode}


# ---------------------------------------------------------------------------
# recursion drivers


REC_MAXDEPTH = 3


class RecDriver(LayoutDriver):
    """SUB drv(dep%, p...) with the loop inside; op 7 calls drv again (while
    dep% < 3) passing its own locals as the arguments, op 8 returns.

    decls: (shape, class) with class in S, T, L, P.  A P declaration of depth
    k+1 is bound to the L declaration *of the same shape* of depth k (its
    'carrier'); at depth 1 it is bound to a module-level host variable.
    The model keeps one dict per activation."""

    family = 'recursion'

    def __init__(self, pairs, mode='c'):
        for s, c in pairs:
            if c == 'M':
                raise ValueError('M not in recursion drivers')
        # every P needs a carrier local of the same shape
        self.carrier = {}
        super().__init__(pairs, mode)

    def _source(self):
        # carriers: for each P decl an L decl of the same shape (declared by
        # the driver itself if the list has none)
        self.extra_locals = []
        used = set()
        for d in self.decls:
            if d.cls != 'P':
                continue
            c = None
            for e in self.decls:
                if e.cls == 'L' and e.shape is d.shape and e.k not in used:
                    c = e
                    break
            if c is None:
                raise ValueError('P declaration without an L carrier of the same shape')
            used.add(c.k)
            self.carrier[d.k] = c
        L = []
        for t in self._types_needed():
            L += REC_SRC[t]
        if any(d.shape.kind == 'dynamic' and d.cls in ('S', 'P', 'F') for d in self.decls):
            L.append(f'dn% = {DYN_N}')
        for d in self.decls:
            if d.cls == 'S':
                L.append('DIM SHARED ' + _dim_text(d.shape, d.name))
            elif d.cls in PARAM:
                L.append('DIM ' + _dim_text(d.shape, d.host))
        args = ['1'] + [d.host + ('()' if d.shape.is_array else '')
                        for d in self.decls if d.cls in PARAM]
        L.append('drv ' + ', '.join(args))
        L += self._host_dump()
        L.append('END')
        params = ['dep AS INTEGER'] + [_param_text(d.shape, d.name)
                                       for d in self.decls if d.cls in PARAM]
        L.append('SUB drv (' + ', '.join(params) + ')')
        if any(d.shape.kind == 'dynamic' and d.cls == 'L' for d in self.decls):
            L.append(f'dn% = {DYN_N}')
        for d in self.decls:
            if d.cls == 'T':
                L.append('STATIC ' + _dim_text(d.shape, d.name))
            elif d.cls == 'L':
                L.append('DIM ' + _dim_text(d.shape, d.name))
        L += self._loop()
        L.append('END SUB')
        return '\n'.join(L) + '\n'

    def _extra_cases(self):
        args = ['dep + 1'] + [(self.carrier[d.k].name if d.cls == 'P' else d.name) +
                              ('()' if d.shape.is_array else '')
                              for d in self.decls if d.cls in PARAM]
        return [(OP_CALL, [f'IF dep < {REC_MAXDEPTH} THEN drv ' + ', '.join(args)]),
                (OP_RET, ['EXIT DO'])]

    def _dump_lines(self, variant, host=False, only=None):
        out = super()._dump_lines(variant, host, only)
        if not host:
            out = ['PRINT "dep"; dep'] + out
        return out

    # model state: {'frames': [dict leafidx->value for L leaves], 'glob': dict
    # for S/T leaves, 'host': dict for host leaves}
    def initial(self):
        st = {'glob': {lf.idx: default(lf.tc) for lf in self.leaves if lf.decl.cls in ('S', 'T')},
              'host': {lf.idx: default(lf.tc) for lf in self.leaves if lf.decl.cls in PARAM},
              'frames': [self._fresh()]}
        return st

    def _fresh(self):
        return {lf.idx: default(lf.tc) for lf in self.leaves if lf.decl.cls == 'L'}

    def _cell(self, st, lf, depth=None):
        """(dict, key) that holds the value of leaf lf seen from activation
        `depth` (1-based; default: the current one)"""
        if depth is None:
            depth = len(st['frames'])
        c = lf.decl.cls
        if c in ('S', 'T'):
            return st['glob'], lf.idx
        if c == 'L':
            return st['frames'][depth - 1], lf.idx
        # parameter: the caller's carrier local, or the module-level host
        if depth == 1 or c == 'F':
            return st['host'], lf.idx
        car = self.carrier[lf.decl.k]
        clf = car.leaves[lf.decl.leaves.index(lf)]
        return st['frames'][depth - 2], clf.idx

    def get(self, st, lf):
        d, k = self._cell(st, lf)
        return d[k]

    @staticmethod
    def _copy(st):
        return {'glob': dict(st['glob']), 'host': dict(st['host']),
                'frames': [dict(f) for f in st['frames']]}

    def dump_text(self, st, only=None, host=False):
        out = []
        if not host:
            out.append('dep %d \r\n' % len(st['frames']))
        for d in self.decls:
            if only is not None and d.cls not in only:
                continue
            vals = []
            for lf in d.leaves:
                if host:
                    v = st['host'][lf.idx] if d.cls in PARAM else st['glob'][lf.idx]
                else:
                    v = self.get(st, lf)
                vals.append(fmt(lf.tc, v) + '|')
            out.append('D%d|' % d.k + ''.join(vals) + '\r\n')
        return ''.join(out)

    def menu(self, st, reads=True):
        ops = []
        for lf in self.leaves:
            a, b = value_pair(lf)
            v = b if self.get(st, lf) == a else a
            if self.mode == 'v' and lf.fam is not None:
                ops.append(Op(_line(OP_WV, lf.fam, 0 if lf.tc == '$' else v,
                                    v if lf.tc == '$' else '', lf.subs), 'write', lf, v, 'v'))
            else:
                ops.append(Op(_line(OP_WC, lf.idx, 0 if lf.tc == '$' else v,
                                    v if lf.tc == '$' else ''), 'write', lf, v, 'c'))
        if len(st['frames']) < REC_MAXDEPTH:
            ops.append(Op(_line(OP_CALL), 'call'))
        if len(st['frames']) > 1:
            ops.append(Op(_line(OP_RET), 'ret'))
        return ops

    def apply(self, st, op):
        if op.kind == 'write':
            st = self._copy(st)
            d, k = self._cell(st, op.leaf)
            d[k] = op.value
            return st, ''
        if op.kind == 'call':
            st = self._copy(st)
            st['frames'].append(self._fresh())
            return st, ''
        if op.kind == 'ret':
            st = self._copy(st)
            st['frames'].pop()
            return st, ''
        if op.kind == 'dump':
            return st, self.dump_text(st)
        raise ValueError(op.kind)

    def probes(self, st):
        pr = [('dump-const', [_line(OP_DC)], self.dump_text(st), False),
              ('dump-computed', [_line(OP_DV)], self.dump_text(st), False)]
        # unwind: every activation returns, then the caller's view
        n = len(st['frames'])
        lines = []
        exp = ''
        for depth in range(n, 1, -1):
            lines += [_line(OP_RET), _line(OP_DC)]
            sub = {'glob': st['glob'], 'host': st['host'], 'frames': st['frames'][:depth - 1]}
            exp += self.dump_text(sub)
        lines.append(_line(OP_QUIT))
        exp += self.dump_text(st, only=('P', 'F', 'S'), host=True)
        pr.append(('unwind', lines, exp, True))
        return pr

    def n_menu(self):
        return len(self.leaves) + 2


# ---------------------------------------------------------------------------
# by-reference drivers


class ByRefDriver(LayoutDriver):
    """Hosts (the caller's variables) are declared in class M (module level),
    S (SHARED, caller is a SUB), L (local of the calling SUB) or T (STATIC of
    the calling SUB).  Callees, one per leaf type:

        SUB w1<t> (p AS <t>)            PRINT p : p = <v> : PRINT p
        SUB w2<t> (p AS <t>, q AS <t>)  PRINT p; q : p = <v> : PRINT p; q :
                                        q = <v'> : PRINT p; q

    op 9  : w1 with argument form i1% (0 = the location itself, 1 = (x),
            2 = x + 0 / x + "", 3 = a literal)
    op 10 : w2 with two locations (lc%, i2%) both by reference.
    The callee takes the value to write from SHARED variables sv% / sv$."""

    family = 'byref'
    FORMS = ['ref', 'paren', 'expr', 'literal']

    def __init__(self, pairs, mode='c'):
        for s, c in pairs:
            if c in PARAM:
                raise ValueError('P, F not in by-reference drivers')
        super().__init__(pairs, mode)

    def _tcs(self):
        out = []
        for lf in self.leaves:
            if lf.tc not in out:
                out.append(lf.tc)
        return out

    @staticmethod
    def _tn(tc):
        return {'%': 'i', '&': 'l', '!': 'f', '#': 'd', '$': 'z'}[tc]

    def _arg(self, lf, form):
        if form == 0:
            return lf.ctext
        if form == 1:
            return '(' + lf.ctext + ')'
        if form == 2:
            return lf.ctext + (' + ""' if lf.tc == '$' else ' + 0')
        return '"lit"' if lf.tc == '$' else '7'

    def _extra_cases(self):
        n = max(1, len(self.leaves))
        b1 = self._chain('lc% * 4 + i1%', [
            (lf.idx * 4 + form, [f'w1{self._tn(lf.tc)} {self._arg(lf, form)}'])
            for lf in self.leaves for form in range(4)])
        b2 = self._chain(f'lc% * {n} + i2%', [
            (a.idx * n + b.idx, [f'w2{self._tn(a.tc)} {a.ctext}, {b.ctext}'])
            for a in self.leaves for b in self.leaves if a.tc == b.tc])
        return [(OP_B1, ['sv = v%: sz = v$'] + b1 + ['sv = 0: sz = ""']),
                (OP_B2, ['sv = v%: sz = v$'] + b2 + ['sv = 0: sz = ""'])]

    def _source(self):
        src = super()._source()
        L = src.rstrip('\n').split('\n')
        # SHARED transfer variables go first (after the TYPE blocks)
        ntype = sum(len(REC_SRC[t]) for t in self._types_needed())
        L[ntype:ntype] = ['DIM SHARED sv AS INTEGER', 'DIM SHARED sz AS STRING']
        for tc in self._tcs():
            t = self._tn(tc)
            src_v = 'sz' if tc == '$' else 'sv'
            src_w = 'sz + "x"' if tc == '$' else 'sv + 1'
            L += [f'SUB w1{t} (p AS {TYPE_NAME[tc]})', 'PRINT p; "|"', f'p = {src_v}',
                  'PRINT p; "|"', 'END SUB']
            L += [f'SUB w2{t} (p AS {TYPE_NAME[tc]}, q AS {TYPE_NAME[tc]})',
                  'PRINT p; "|"; q; "|"', f'p = {src_v}', 'PRINT p; "|"; q; "|"',
                  f'q = {src_w}', 'PRINT p; "|"; q; "|"', 'END SUB']
        return '\n'.join(L) + '\n'

    def _host_dump(self):
        return self._dump_lines('c', host=True, only=('S',))

    @staticmethod
    def second(tc, v):
        return v + 'x' if tc == '$' else v + 1

    def menu(self, st, pairs=True):
        ops = []
        for lf in self.leaves:
            a, b = value_pair(lf)
            # sentinels of by-ref drivers are spaced by 4 (w2 writes v and v+1)
            a, b = (a, b) if lf.tc == '$' else (20 + 4 * lf.idx, 22 + 4 * lf.idx)
            v = b if st[lf.key] == a else a
            for form in range(4):
                if form == 3 and lf is not self._first_of_type(lf.tc):
                    continue
                ops.append(Op(_line(OP_B1, lf.idx, 0 if lf.tc == '$' else v,
                                    v if lf.tc == '$' else '', (form,)),
                              'call1', lf, v, 'c', extra=self.FORMS[form]))
        if pairs:
            for la in self.leaves:
                for lb in self.leaves:
                    if la.tc != lb.tc:
                        continue
                    a, b = value_pair(la)
                    a, b = (a, b) if la.tc == '$' else (20 + 4 * la.idx, 22 + 4 * la.idx)
                    v = b if st[la.key] in (a, self.second(la.tc, a)) else a
                    ops.append(Op(_line(OP_B2, la.idx, 0 if la.tc == '$' else v,
                                        v if la.tc == '$' else '', (0, lb.idx)),
                                  'call2', la, v, 'c', extra=lb))
        return ops

    def _first_of_type(self, tc):
        for lf in self.leaves:
            if lf.tc == tc:
                return lf

    def apply(self, st, op):
        if op.kind == 'call1':
            lf = op.leaf
            form = self.FORMS.index(op.extra)
            old = st[lf.key]
            if form == 3:
                old = 'lit' if lf.tc == '$' else 7
            exp = fmt(lf.tc, old) + '|\r\n' + fmt(lf.tc, op.value) + '|\r\n'
            if form == 0:
                st = dict(st)
                st[lf.key] = op.value
            return st, exp
        if op.kind == 'call2':
            la, lb = op.leaf, op.extra
            tc = la.tc
            v, w = op.value, self.second(tc, op.value)
            p0, q0 = st[la.key], st[lb.key]
            st = dict(st)
            exp = fmt(tc, p0) + '|' + fmt(tc, q0) + '|\r\n'
            st[la.key] = v
            exp += fmt(tc, st[la.key]) + '|' + fmt(tc, st[lb.key]) + '|\r\n'
            st[lb.key] = w
            exp += fmt(tc, st[la.key]) + '|' + fmt(tc, st[lb.key]) + '|\r\n'
            return st, exp
        return super().apply(st, op)

    def label_extra(self, op):
        return op.extra.ctext if isinstance(op.extra, Leaf) else op.extra

    def n_menu(self):
        return len(self.menu(self.initial()))


def make_driver(ident):
    fam = ident['family']
    cls = {'layout': LayoutDriver, 'recursion': RecDriver, 'byref': ByRefDriver}[fam]
    return cls([tuple(p) for p in ident['decls']], ident.get('mode', 'c'))
