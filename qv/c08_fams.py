"""Program families of C08 that reach the places where qbee consults "is this
a -g build?" outside the code generator's marker bookkeeping:

 ws         unusual white space / control characters in the source text (the
            debug section carries the source, so a -g build handles the text
            once more than a plain build)
 onerror    ON ERROR GOTO handlers that are left WITHOUT RESUME (the VM knows
            statement boundaries only in -g modules)
 constdecl  CONST / DIM / assignments whose constant expression fails when it
            is evaluated (the debug section stores evaluated constants)
 longexpr   (thorough) one long flat expression (the debug section pickles the
            tree)

Every generator yields (family, src, script, feat); feat is a flat dict of
input-side features (no implementation internals)."""

# ---------------------------------------------------------------------------
# ws

CHARS = [('TAB', '\t'), ('VT', '\x0b'), ('FF', '\x0c'), ('CR', '\r'),
         ('FS', '\x1c'), ('GS', '\x1d'), ('RS', '\x1e'), ('NEL', '\x85'),
         ('LS', '\u2028'), ('PS', '\u2029')]
CHARS_THOROUGH = CHARS + [('NUL', '\x00'), ('SUB', '\x1a'), ('US', '\x1f'),
                          ('NBSP', '\xa0'), ('DEL', '\x7f'), ('BOM', '\ufeff')]

S, D, T = '\x01', '\x02', '\x03'     # slots: in string literal / in DATA item / between tokens

WS_BASES = [
    ('straight', ['PRINT' + T + '"ab' + S + 'cd"; 1',
                  'x% =' + T + '2 +' + T + '3',
                  'PRINT x%']),
    ('data', ['DATA al' + D + 'pha, "be' + D + 'ta",' + T + '7',
              'READ a$, b$, c%',
              'PRINT a$; b$; c%']),
    ('block', ['FOR i% = 1 TO 2',
               'IF i% = 1 THEN' + T + 'PRINT "o' + S + 'ne" ELSE PRINT "two"',
               'NEXT']),
    ('routine', ['CALL p(3)',
                 'END',
                 'SUB p (n%)',
                 'SELECT CASE n%',
                 'CASE 3',
                 'PRINT "th' + S + 'ree"',
                 'END SELECT',
                 'END SUB']),
]

_SLOT_NAME = {S: 'string', D: 'data', T: 'token'}


def _strip(line):
    return line.replace(S, '').replace(D, '').replace(T, ' ')


def _join(lines, nl='\n', last=True):
    return nl.join(lines) + (nl if last else '')


def ws_programs(tier):
    chars = CHARS if tier == 'quick' else CHARS_THOROUGH
    seen = set()
    for bname, blines in WS_BASES:
        clean = [_strip(x) for x in blines]
        n = len(clean)
        for cname, ch in chars:
            out = []

            def add(pos, lines, where=-1, nl='\n', last=True):
                out.append((pos, where, _join(lines, nl, last)))

            # one slot at a time
            for i, line in enumerate(blines):
                k = 0
                for j, c in enumerate(line):
                    if c in _SLOT_NAME:
                        new = _strip(line[:j]) + ch + _strip(line[j + 1:])
                        add(_SLOT_NAME[c], clean[:i] + [new] + clean[i + 1:], i * 10 + k)
                        k += 1
            for i in range(n):
                # in a trailing comment; what follows the character is a statement / is garbage
                add("comment'stmt", clean[:i] + [clean[i] + " ' x" + ch + 'PRINT 777'] + clean[i + 1:], i)
                add("comment'junk", clean[:i] + [clean[i] + " ' x" + ch + ')( ='] + clean[i + 1:], i)
                add('eol', clean[:i] + [clean[i] + ch] + clean[i + 1:], i)
                add('bol', clean[:i] + [ch + clean[i]] + clean[i + 1:], i)
            for i in range(n + 1):
                add('rem', clean[:i] + ['REM x' + ch + 'PRINT 777'] + clean[i:], i)
                add('ownline', clean[:i] + [ch] + clean[i:], i)
            add('eol-all', clean, nl=ch + '\n')           # CR: DOS line ends
            add('sep-all', clean, nl=ch)                  # the character instead of LF
            add('eof', clean[:-1] + [clean[-1] + ch], last=False)
            for pos, where, src in out:
                if src in seen:
                    continue
                seen.add(src)
                yield ('ws', src, {}, {'construct': 'ws', 'base': bname, 'char': cname,
                                       'position': pos, 'where': where})


# ---------------------------------------------------------------------------
# onerror

SETUP = 'z% = 0: o% = 1: i% = 9: k% = 300'

# (kind, pending, statement): pending = operands the statement has already
# pushed (and not consumed) when the failing operation has trapped, i.e. what a
# machine that does not unwind the statement leaves on the operand stack when
# the handler is entered (PRINT pushes a column flag first; 'PRINT 5; x' fails
# after the first item went to the terminal).  The labels are by construction;
# they were checked against the VM with tools in docs/notes/C08.md.
SITES = [
    ('div0', 0, 'q% = 7 \\ z%'),
    ('div0', 1, 'q% = 5 + 7 \\ z%'),
    ('div0', 2, 'q% = 5 + (6 + 7 \\ z%)'),
    ('div0', 0, 'q! = 7 / z%'),
    ('div0', 1, 'PRINT 7 \\ z%'),
    ('div0', 4, 'PRINT 5; 7 \\ z%'),
    ('div0', 0, 'q% = 7 MOD z%'),
    ('ovf', 0, 'q% = 32767 + o%'),
    ('ovf', 1, 'q% = 5 + (32767 + o%)'),
    ('ovf', 2, 'q% = 5 + (6 + (32767 + o%))'),
    ('ovf', 0, 'q% = 40000 * o%'),
    ('subscript', 0, 'q% = a%(i%)'),
    ('subscript', 1, 'q% = 5 + a%(i%)'),
    ('subscript', 2, 'q% = 5 + (6 + a%(i%))'),
    ('subscript', 1, 'a%(i%) = 5'),
    ('illegal', 0, 'q$ = CHR$(k%)'),
    ('illegal', 1, 'q$ = "x" + CHR$(k%)'),
    ('illegal', 2, 'q$ = "x" + ("y" + CHR$(k%))'),
    ('illegal', 0, 'q! = SQR(0 - o%)'),
    ('nodata', 0, 'READ q%'),
    ('nodata', 0, 'READ a%(1)'),
]
SITES_QUICK = [s for s in SITES if s[2] not in (
    'q% = 7 MOD z%', 'q% = 5 + (6 + (32767 + o%))', 'q$ = "x" + ("y" + CHR$(k%))',
    'q! = SQR(0 - o%)', 'q% = 40000 * o%')]

CTXS = ('mod', 'for', 'g1', 'g2', 'sub', 'fn', 'subg')
CTXS_THOROUGH = CTXS + ('g1x2', 'g1for', 'forg1')
EXITS = ('end', 'goto', 'gotoc', 'ret', 'off', 'err2', 'fall', 'resn')
EXITS_THOROUGH = EXITS + ('gotoret', 'rearm')


def onerror_src(stmt, ctx, exit_, arm='top'):
    """-> source text or None when the combination makes no sense"""
    gos = ctx in ('g1', 'g2', 'g1x2', 'g1for', 'forg1')
    if exit_ in ('gotoc', 'gotoret') and not gos:
        return None
    if arm == 'local' and ctx not in ('sub', 'subg', 'fn'):
        return None
    L = []
    if arm in ('top', 'off0'):
        L.append('ON ERROR GOTO h')
    if arm == 'off0':
        L.append('ON ERROR GOTO 0')
    L += [SETUP, 'DIM a%(3)', 'PRINT 101']
    if ctx == 'mod':
        L.append(stmt)
    elif ctx == 'for':
        L += ['FOR j% = 1 TO 2', 'PRINT 150 + j%', stmt, 'PRINT 160 + j%', 'NEXT']
    elif ctx in ('g1', 'g1for'):
        L.append('GOSUB s1')
    elif ctx == 'g1x2':
        L += ['GOSUB s1', 'PRINT 110', 'GOSUB s1']
    elif ctx == 'forg1':
        L += ['FOR j% = 1 TO 2', 'PRINT 150 + j%', 'GOSUB s1', 'PRINT 160 + j%', 'NEXT']
    elif ctx == 'g2':
        L.append('GOSUB s2')
    elif ctx in ('sub', 'subg'):
        L.append('CALL p')
    elif ctx == 'fn':
        L.append('y% = 5 + f%')
    L += ['cont: PRINT 102', 'END']
    body = [stmt]
    if ctx == 'g1for':
        body = ['FOR j% = 1 TO 2', 'PRINT 150 + j%', stmt, 'PRINT 160 + j%', 'NEXT']
    if gos:
        L += ['s1: PRINT 201'] + body + ['PRINT 202', 's1c: PRINT 203', 'RETURN']
    if ctx == 'g2':
        L += ['s2: PRINT 301', 'GOSUB s1', 'PRINT 302', 'RETURN']
    H = ['h: PRINT 900; ERR']
    H += {'end': ['END'],
          'goto': ['GOTO cont'],
          'gotoc': ['GOTO s1c'],
          'gotoret': ['GOSUB hh', 'GOTO s1c', 'hh: PRINT 950', 'RETURN'],
          'ret': ['RETURN'],
          'off': ['ON ERROR GOTO 0', 'PRINT 901'],
          'err2': ['q% = 1 \\ z%', 'PRINT 901', 'END'],
          'fall': ['PRINT 901'],
          'rearm': ['ON ERROR GOTO h', 'PRINT 901', 'END'],
          'resn': ['RESUME NEXT']}[exit_]
    L += H
    arm_l = ['ON ERROR GOTO h'] if arm == 'local' else []
    if ctx == 'sub':
        L += ['SUB p'] + arm_l + [SETUP, 'DIM a%(3)', 'PRINT 401', stmt, 'PRINT 402', 'END SUB']
    elif ctx == 'subg':
        # GOSUB inside a SUB; the handler has to be a module-level label
        L += ['SUB p'] + arm_l + [SETUP, 'DIM a%(3)', 'PRINT 401', 'GOSUB s1', 'PRINT 402', 'EXIT SUB',
                                  's1: PRINT 201', stmt, 'PRINT 202', 'RETURN', 'END SUB']
    elif ctx == 'fn':
        L += ['FUNCTION f%'] + arm_l + [SETUP, 'DIM a%(3)', 'PRINT 401', stmt, 'PRINT 402', 'f% = 1',
                                        'END FUNCTION']
    return '\n'.join(L) + '\n'


def onerror_programs(tier):
    quick = tier == 'quick'
    sites = SITES_QUICK if quick else SITES
    ctxs = CTXS if quick else CTXS_THOROUGH
    exits = EXITS if quick else EXITS_THOROUGH
    seen = set()
    for ctx in ctxs:
        for exit_ in exits:
            for kind, pending, stmt in sites:
                arms = ('top', 'local')
                if exit_ == 'end':
                    arms = ('top', 'local', 'off0', 'none')
                for arm in arms:
                    src = onerror_src(stmt, ctx, exit_, arm)
                    if src is None or src in seen:
                        continue
                    seen.add(src)
                    yield ('onerror', src, {},
                           {'construct': 'onerror', 'kind': kind, 'pending': str(pending),
                            'stmt': stmt, 'ctx': ctx, 'exit': exit_, 'arm': arm})


# ---------------------------------------------------------------------------
# constdecl

CEXPRS = [
    ('div0', '1 / 0'), ('idiv0', '1 \\ 0'), ('mod0', '7 MOD 0'),
    ('int-ovf', '32767 + 1'), ('int-ovf-neg', '-32768 - 1'), ('mul-ovf', '30000 * 2'),
    ('pow-huge', '2 ^ 1000'), ('pow-complex', '(-8) ^ 0.5'), ('pow-0neg', '0 ^ -1'),
    ('long-ovf', '2147483647 + 1'), ('single-ovf', '1E+38 * 1000!'),
    ('ok-int', '1 + 2'), ('ok-pow', '2 ^ 3'), ('ok-div', '7 / 2'),
    ('str', '"ab"'), ('str-cat', '"a" + "b"'), ('str-num', '"a" + 1'), ('num-str', '1 / "a"'),
    ('sqr-neg', 'SQR(-1)'), ('chr-big', 'CHR$(300)'), ('cmp-str', '"a" < "b"'),
]
CEXPRS_QUICK = [e for e in CEXPRS if e[0] not in ('mod0', 'int-ovf-neg', 'long-ovf', 'single-ovf',
                                                  'ok-div', 'cmp-str', 'pow-0neg')]

# (form, declaration template, use)
CFORMS = [
    ('const', 'CONST c = {e}', 'PRINT c'),
    ('const%', 'CONST c% = {e}', 'PRINT c%'),
    ('const&', 'CONST c& = {e}', 'PRINT c&'),
    ('const!', 'CONST c! = {e}', 'PRINT c!'),
    ('const$', 'CONST c$ = {e}', 'PRINT c$'),
    ('const2', 'CONST c = {e}, d = 4', 'PRINT d'),
    ('const-chain', 'CONST c = {e}: CONST d = c + 1', 'PRINT d'),
    ('const-unused', 'CONST c = {e}', 'PRINT 5'),
    ('dim', 'DIM a({e})', 'PRINT UBOUND(a)'),
    ('dim-to', 'DIM a(1 TO {e})', 'PRINT UBOUND(a)'),
    ('dim-const', 'CONST c = {e}: DIM a(c)', 'PRINT UBOUND(a)'),
    ('let', 'x = {e}', 'PRINT x'),
    ('let%', 'x% = {e}', 'PRINT x%'),
    ('let$', 'x$ = {e}', 'PRINT x$'),
    ('print', 'PRINT {e}', 'PRINT 5'),
    ('if', 'IF {e} THEN PRINT 4', 'PRINT 5'),
]
CFORMS_QUICK = [f for f in CFORMS if f[0] not in ('const&', 'const!', 'let$', 'const2')]


def constdecl_src(decl, use, place, handler):
    L = []
    if handler:
        L.append('ON ERROR GOTO h')
    L.append('PRINT 101')
    if place == 'mod':
        L += [decl, use]
    elif place == 'sub':
        L.append('CALL p')
    elif place == 'fn':
        L.append('PRINT f%')
    elif place == 'shared':
        # module-level CONST used inside a SUB
        L += [decl, 'CALL p']
    elif place == 'dead':
        L += ['IF 0 THEN', decl, use, 'END IF']
    L += ['PRINT 102', 'END']
    if handler:
        L += ['h: PRINT 900; ERR', 'END']
    if place == 'sub':
        L += ['SUB p', 'PRINT 401', decl, use, 'PRINT 402', 'END SUB']
    elif place == 'fn':
        L += ['FUNCTION f%', 'PRINT 401', decl, use, 'f% = 1', 'END FUNCTION']
    elif place == 'shared':
        L += ['SUB p', 'PRINT 401', use, 'PRINT 402', 'END SUB']
    return '\n'.join(L) + '\n'


def constdecl_programs(tier):
    quick = tier == 'quick'
    exprs = CEXPRS_QUICK if quick else CEXPRS
    forms = CFORMS_QUICK if quick else CFORMS
    places = ('mod', 'sub', 'shared') if quick else ('mod', 'sub', 'fn', 'shared', 'dead')
    seen = set()
    for fname, decl_t, use in forms:
        for ename, e in exprs:
            decl = decl_t.format(e=e)
            for place in places:
                if place == 'shared' and not fname.startswith('const'):
                    continue
                for handler in (False, True):
                    src = constdecl_src(decl, use, place, handler)
                    if src in seen:
                        continue
                    seen.add(src)
                    yield ('constdecl', src, {},
                           {'construct': 'constdecl', 'form': fname, 'expr': ename,
                            'place': place, 'handler': handler})


# ---------------------------------------------------------------------------
# longexpr (thorough only: the parse of one 200-term line costs seconds)

def longexpr_programs(tier):
    if tier == 'quick':
        return
    for n in (25, 50, 100, 140, 150, 200):
        for tname, term in (('literal', '1'), ('variable', 'y')):
            src = 'x = ' + ' + '.join([term] * n) + '\nPRINT x\n'
            yield ('longexpr', src, {}, {'construct': 'longexpr', 'terms': n, 'term': tname,
                                         'deep': n >= 100})


def programs(tier):
    """-> {family: [items]}"""
    fams = {}
    for gen in (ws_programs, onerror_programs, constdecl_programs, longexpr_programs):
        for it in gen(tier) or ():
            fams.setdefault(it[0], []).append(it)
    return fams
