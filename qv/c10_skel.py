"""C10 - skeleton programs, statement-level reference model, monitor and judge.

A *skeleton* is one BASIC program

    arming prologue ; INPUT of the fault variables ; body of n failable
    statements ; epilogue ; END ; GOSUB bodies ; handler ; DATA ; procedures

Whether body statement i fails, and with which error kind, is decided by the
values the program reads with INPUT (the *fault plan* is environment input):
every failable statement evaluates the same composite fault expression

    FX(i) = a%(j<i>%) \\ d<i>% + v<i>% + LEN(SPACE$(c<i>%))

which is 2 for the benign answers j=1 d=1 v=1 c=0 and fails with

    subs  (j=9)      subscript out of range     INDEX_OUT_OF_RANGE
    div0  (d=0)      division by zero           DIVISION_BY_ZERO
    ovf   (v=32767)  INTEGER overflow           INVALID_CELL_VALUE
    illf  (c=-1)     illegal function call      INVALID_OPERAND_VALUE
    data  (e=1)      out of DATA (READ only)    DEVICE_ERROR

at four different depths of the expression (nothing pushed yet, two operands
popped, the sum popped, one operand still below the call).

The reference model below is the statement-level semantics the property
states, written for exactly these skeletons; it is three-valued: cells the
property leaves open (where RESUME NEXT lands after an error in the header of
a block statement; anything after an error inside a procedure) are wildcards.
"""
import hashlib
import re

from . import impl
from .explore import Canon

KINDS = ['div0', 'subs', 'ovf', 'illf', 'data', 'dtyp', 'pok', 'fmt']
KIND_TRAP = {'div0': 'DIVISION_BY_ZERO', 'subs': 'INDEX_OUT_OF_RANGE',
             'ovf': 'INVALID_CELL_VALUE', 'illf': 'INVALID_OPERAND_VALUE',
             'data': 'DEVICE_ERROR', 'dtyp': 'DEVICE_ERROR', 'pok': 'DEVICE_ERROR',
             'fmt': 'INVALID_OPERAND_VALUE'}
BENIGN = {'j': 1, 'd': 1, 'v': 1, 'c': 0, 'e': 0}
BAD = {'div0': ('d', 0), 'subs': ('j', 9), 'ovf': ('v', 32767),
       'illf': ('c', -1), 'data': ('e', 1),
       # a DATA item that cannot be read into the variable's type (the failed
       # READ must not consume it); errors reported by the *last* instruction
       # of a statement: POKE of a value that is no byte, PRINT USING with a
       # string field for a number
       'dtyp': ('e', 2), 'pok': ('v', 32767), 'fmt': ('c', -1)}
EXPR_KINDS = ['div0', 'subs', 'ovf', 'illf']

MODES = ['A', 'N', 'Z']        # ON ERROR GOTO h | ON ERROR RESUME NEXT | armed then GOTO 0
HANDLERS = ['H1', 'H2', 'H3']  # PRINT ERR: RESUME NEXT | fix cause: RESUME | RESUME NEXT
# (mode, handler) combinations; the handler text is irrelevant for N and Z
COMBOS = [('A', 'H1'), ('A', 'H2'), ('A', 'H3'), ('N', 'H1'), ('Z', 'H1')]


def fx(i):
    return f'a%(j{i}%) \\ d{i}% + v{i}% + LEN(SPACE$(c{i}%))'


# ---------------------------------------------------------------------------
# the failable alphabet
#
# spec: 'stmt'  - module-level simple statement: everything is specified
#       'block' - the error strikes in the header of a compound statement:
#                 where RESUME NEXT lands is left open by the property
#       'proc'  - the error strikes inside a procedure: only handler entry
#                 and ERR are specified

class Form:
    def __init__(self, name, spec, main, fail, kinds=EXPR_KINDS, setup=(),
                 gosub=(), apply=None, skip=None, after=None, wild=()):
        self.name = name
        self.spec = spec
        self.main = main          # i -> list of main-body lines
        self.fail = fail          # (where, line_index, ordinal): where in main|gosub|proc:<name>
        self.kinds = list(kinds)
        self.setup = setup        # i -> non-failing lines before the statement
        self.gosub = gosub        # i -> lines of the GOSUB body (label first)
        self.apply = apply        # (st, i, out) no-fault effect
        self.skip = skip          # (st, i, out) effect when the failing statement is skipped
        self.wild = wild          # variable stems left open when a 'block' form is skipped


def _L(*lines):
    return lambda i: [l.replace('@', str(i)).replace('FX', fx(i)) for l in lines]


def _set(**kw):
    def f(st, i, out):
        for k, v in kw.items():
            st[f'{k}{i}'] = v(st, i) if callable(v) else v
    return f


def _none(st, i, out):
    pass


def _fmt_int(n):
    return (' ' if n >= 0 else '-') + str(abs(n)) + ' '


def _ap_prt(st, i, out):
    out.append(('lit', f'p{i}' + _fmt_int(2) + 'q\r\n'))


def _ap_arg(st, i, out):
    out.append(('lit', 'sa' + _fmt_int(2) + _fmt_int(i) + '\r\n'))


def _ap_insub(st, i, out):
    out.append(('lit', 'sb' + _fmt_int(2) + _fmt_int(i) + '\r\n'))


def _ap_deep(st, i, out):
    out.append(('lit', 'sc' + _fmt_int(3) + _fmt_int(i) + '\r\n'))


def _ap_poke(st, i, out):
    out.append(('lit', '<poke 10 1>'))


def _ap_pus(st, i, out):
    out.append(('lit', ' 2\r\n'))


def _ap_sub(st, i, out):
    st['a2'] = 4 + i


def _ap_for(st, i, out):
    st[f'x{i}'] = st[f'x{i}'] + 1 + 2
    st[f'k{i}'] = 3


FORMS = [
    Form('asg', 'stmt', _L('x@% = FX'), ('main', 0, 0),
         apply=_set(x=2), skip=_none),
    Form('prt', 'stmt', _L('PRINT "p@"; FX; "q"'), ('main', 0, 0),
         apply=_ap_prt, skip=_none),
    Form('ifl', 'block', _L('IF FX > 1 THEN x@% = 5 ELSE x@% = 6'), ('main', 0, 0),
         apply=_set(x=5), skip=_none, wild=('x',)),
    Form('ifb', 'block', _L('IF FX > 1 THEN', 'x@% = 5', 'END IF'), ('main', 0, 0),
         apply=_set(x=5), skip=_none, wild=('x',)),
    Form('forb', 'block', _L('FOR k@% = 1 TO FX', 'x@% = x@% + k@%', 'NEXT'), ('main', 0, 0),
         apply=_ap_for, skip=_none, wild=('x', 'k')),
    Form('sel', 'block', _L('SELECT CASE FX', 'CASE 2', 'x@% = 7', 'CASE ELSE', 'x@% = 8',
                            'END SELECT'), ('main', 0, 0),
         apply=_set(x=7), skip=_none, wild=('x',)),
    Form('sub', 'stmt', _L('a%(FX) = 4 + @'), ('main', 0, 0),
         apply=_ap_sub, skip=_none),
    Form('arg', 'stmt', _L('CALL sa(FX, @)'), ('main', 0, 0),
         apply=_ap_arg, skip=_none),
    Form('fna', 'stmt', _L('x@% = fa%(FX) + 1'), ('main', 0, 0),
         apply=_set(x=5), skip=_none),
    Form('insub', 'proc', _L('CALL sb(j@%, d@%, v@%, c@%, @)'), ('proc:sb', 0, 0),
         apply=_ap_insub, skip=_none),
    Form('infn', 'proc', _L('x@% = 1 + fb%(j@%, d@%, v@%, c@%)'), ('proc:fb', 0, 0),
         apply=_set(x=3), skip=_none),
    Form('read', 'stmt', _L('READ r@%'), ('main', 0, 0), kinds=['data'],
         setup=_L('RESTORE dok', 'IF e@% THEN READ w%, w%, w%'),
         apply=_set(r=7), skip=_none),
    Form('blt', 'stmt', _L('s@$ = "<" + STRING$(FX, 42) + ">"'), ('main', 0, 0),
         apply=_set(s='<**>'), skip=_none),
    Form('nest', 'stmt', _L('x@% = 1 + (2 * (3 - (FX)))'), ('main', 0, 0),
         apply=_set(x=3), skip=_none),
    Form('gsb', 'stmt', _L('GOSUB g@'), ('gosub', 1, 0),
         gosub=_L('g@:', 'y@% = FX', 'RETURN'),
         apply=_set(y=2), skip=_none),
    # re-executing the whole line instead of the statement shows in y and z
    Form('col', 'stmt', _L('y@% = y@% + 1: x@% = FX: z@% = z@% + 3'), ('main', 0, 1),
         apply=_set(y=1, x=2, z=3), skip=_set(y=1, z=3)),
    # the failing statement is nested in a block (the resume target is the
    # innermost statement, not the block)
    Form('inif', 'stmt', _L('IF b@% >= 0 THEN', 'x@% = FX', 'z@% = 4', 'END IF'), ('main', 1, 0),
         apply=_set(x=2, z=4), skip=_set(z=4)),
    Form('infor', 'stmt', _L('FOR k@% = 1 TO 1', 'x@% = x@% + FX', 'NEXT'), ('main', 1, 0),
         apply=_set(x=2, k=2), skip=_set(k=2)),
    # the fault strikes after a FUNCTION called by the same statement has
    # returned (its result is on the operand stack)
    Form('aft', 'stmt', _L('x@% = fe%(3) + FX'), ('main', 0, 0),
         apply=_set(x=8), skip=_none),
    # a READ that meets an item it cannot convert; the two READs after it
    # show where the DATA cursor is (s$ takes any item)
    Form('rdt', 'stmt', _L('READ r@%', 'READ s@$', 'READ k@%'), ('main', 0, 0), kinds=['dtyp'],
         setup=_L('RESTORE dok', 'IF e@% = 2 THEN RESTORE dbad'),
         apply=_set(r=7, s='8', k=9), skip=_set(s='xy', k=5)),
    # the error is reported by the final (io) instruction of the statement
    Form('poke', 'stmt', _L('POKE 10, v@%'), ('main', 0, 0), kinds=['pok'],
         apply=_ap_poke, skip=_none),
    Form('pus', 'stmt', _L('PRINT USING g@$; 2'), ('main', 0, 0), kinds=['fmt'],
         setup=_L('g@$ = "##"', 'IF c@% < 0 THEN g@$ = "&"'),
         apply=_ap_pus, skip=_none),
    # call chain of depth two
    Form('deep', 'proc', _L('CALL sc(j@%, d@%, v@%, c@%, @)'), ('proc:fb', 0, 0),
         apply=_ap_deep, skip=_none),
]
FORM = {f.name: f for f in FORMS}
FORM_NAMES = [f.name for f in FORMS]

PROCS = '''SUB sa(n%, t%)
PRINT "sa"; n%; t%
END SUB
FUNCTION fa%(n%)
fa% = n% * 2
END FUNCTION
SUB sb(j%, d%, v%, c%, t%)
u% = a%(j%) \\ d% + v% + LEN(SPACE$(c%))
PRINT "sb"; u%; t%
END SUB
FUNCTION fb%(j%, d%, v%, c%)
fb% = a%(j%) \\ d% + v% + LEN(SPACE$(c%))
END FUNCTION
SUB se(n%)
PRINT "se"; n%
END SUB
FUNCTION fe%(n%)
fe% = n% * 2
END FUNCTION
SUB sc(j%, d%, v%, c%, t%)
u% = 1 + fb%(j%, d%, v%, c%)
PRINT "sc"; u%; t%
END SUB'''.split('\n')
PROC_FAIL_LINE = {'sb': 7, 'fb': 11}     # index into PROCS of the failing statement

VARS_INT = ['x', 'y', 'z', 'k', 'r']


class Skeleton:
    """source text + the source lines of the observation points"""

    def __init__(self, mode, handler, forms, removed=()):
        self.mode = mode
        self.handler = handler
        self.forms = tuple(forms)
        self.removed = tuple(removed)     # slots (1-based) whose failing statement is left out
        self.n = len(forms)
        self._build()

    def _build(self):
        n = self.n
        lines = []
        tags = {}     # tag -> (line_no (1-based), ordinal on the line)

        def add(text, tag=None, ordinal=0):
            lines.append(text)
            if tag is not None:
                tags[tag] = (len(lines), ordinal)

        add('DIM SHARED a%(3)')
        if self.mode == 'A':
            add('ON ERROR GOTO h')
        elif self.mode == 'N':
            add('ON ERROR RESUME NEXT')
        else:
            add('ON ERROR GOTO h')
            add('ON ERROR GOTO 0')
        for i in range(1, n + 1):
            add(f'INPUT j{i}%, d{i}%, v{i}%, c{i}%, e{i}%, b{i}%')
        # every variable is mentioned here, in a fixed order, so that the
        # storage layout does not depend on which body statements exist
        for i in range(1, n + 1):
            add(': '.join(f'{v}{i}% = 0' for v in VARS_INT) + f': s{i}$ = "": g{i}$ = ""')
        add('w% = 0: ke% = 0')
        add('a%(1) = 1')
        gos = []
        for i, fname in enumerate(self.forms, 1):
            f = FORM[fname]
            for l in (f.setup(i) if f.setup else ()):
                add(l)
            where, li, ordn = f.fail
            body = f.main(i)
            gbody = f.gosub(i) if f.gosub else []
            rm = i in self.removed
            if rm:
                assert f.spec == 'stmt'
                if where == 'main':
                    parts = body[li].split(': ')
                    del parts[ordn]
                    body = body[:li] + ([': '.join(parts)] if parts else []) + body[li + 1:]
                else:
                    gbody = gbody[:li] + gbody[li + 1:]
            first = True
            for k, l in enumerate(body):
                if first:
                    add(l, ('S', i))
                    first = False
                else:
                    add(l)
                if where == 'main' and k == li and not rm:
                    tags[('F', i)] = (len(lines), ordn)
                    if ordn + 1 < len(l.split(': ')):
                        tags[('X', i)] = (len(lines), ordn + 1)
            if first:
                # the whole statement was removed: the slot's checkpoint is
                # the next checkpoint; nothing to tag
                pass
            gos.append((i, where, li, ordn, gbody, rm))
        add('PRINT "V"; ' + '; '.join(f'{v}{i}%' for i in range(1, n + 1) for v in VARS_INT)
            + '; a%(2); a%(3); ' + '; '.join(f's{i}$' for i in range(1, n + 1)), ('EP',))
        add('GOSUB ge')
        add('CALL se(3)')
        add('FOR ke% = 1 TO 2: PRINT ke%;: NEXT')
        add('PRINT fe%(2)')
        add('PRINT "done"')
        add('END', ('END',))
        add('ge:')
        add('PRINT "ge"')
        add('RETURN')
        for i, where, li, ordn, gbody, rm in gos:
            for k, l in enumerate(gbody):
                add(l)
                if where == 'gosub' and not rm and k == li:
                    tags[('F', i)] = (len(lines), ordn)
                    tags[('X', i)] = (len(lines) + 1, 0)
        add('h:')
        if self.handler == 'H1':
            add('PRINT "E"; ERR', ('H',))
            add('RESUME NEXT')
        elif self.handler == 'H2':
            add('PRINT "E"; ERR', ('H',))
            for i, fname in enumerate(self.forms, 1):
                fix = 'RESTORE dok: w% = 0' if fname in ('read', 'rdt') else \
                    f'j{i}% = 1: d{i}% = 1: v{i}% = 1: c{i}% = 0' + \
                    (f': g{i}$ = "##"' if fname == 'pus' else '')
                if fname == 'rdt':
                    # first a RESUME without any repair: the READ must fail
                    # in the same way again
                    add(f'IF b{i}% = 2 THEN b{i}% = 1: RESUME')
                add(f'IF b{i}% THEN b{i}% = 0: e{i}% = 0: {fix}: RESUME')
            add('PRINT "unfixable"')
            add('END')
        else:
            add('RESUME NEXT', ('H',))
        add('dok:')
        add('DATA 7, 8, 9')
        add('dbad:')
        add('DATA xy, 5')
        base = len(lines)
        for l in PROCS:
            add(l)
        for i, fname in enumerate(self.forms, 1):
            where = FORM[fname].fail[0]
            if where.startswith('proc:'):
                # shared between slots that use the same procedure
                tags[('F', i)] = (base + PROC_FAIL_LINE[where[5:]] + 1, 0)
                tags[('X', i)] = (base + PROC_FAIL_LINE[where[5:]] + 2, 0)
        self.lines = lines
        self.src = '\n'.join(lines) + '\n'
        self.tags = tags

    def script(self, plan):
        """plan: tuple of kind|None per slot -> INPUT answers"""
        out = []
        for k in plan:
            a = dict(BENIGN)
            if k is not None:
                var, val = BAD[k]
                a[var] = val
            b = 2 if k == 'dtyp' else (1 if k else 0)
            out.append(f"{a['j']},{a['d']},{a['v']},{a['c']},{a['e']},{b}")
        return out


# ---------------------------------------------------------------------------
# reference model

def model(mode, handler, forms, plan):
    """-> dict(pattern=[segments], end='halt'|('trap', name), specified=bool,
    first_open=index of the first slot after which the trace is open|None)
    segments: ('lit', text) ('err', kind) ('int',) ('rest',)"""
    n = len(forms)
    st = {}
    for i in range(1, n + 1):
        for v in VARS_INT:
            st[f'{v}{i}'] = 0
        st[f's{i}'] = ''
    st['a2'] = 0
    st['a3'] = 0
    out = []
    wild = set()
    handler_entries = []
    for i, fname in enumerate(forms, 1):
        f = FORM[fname]
        kind = plan[i - 1]
        if kind is None:
            f.apply(st, i, out)
            continue
        if mode == 'Z':
            return {'pattern': out, 'end': ('trap', KIND_TRAP[kind]), 'open': False,
                    'handler_entries': handler_entries, 'wild': False}
        if mode == 'A':
            # the H2 handler first resumes a failed READ without repairing
            # anything: the READ fails again, with the same ERR
            reps = 2 if (kind == 'dtyp' and handler == 'H2' and f.spec != 'proc') else 1
            for _ in range(reps):
                handler_entries.append((i, kind))
                if handler in ('H1', 'H2'):
                    out.append(('lit', 'E'))
                    out.append(('err', kind))
                    out.append(('lit', '\r\n'))
        if f.spec == 'proc':
            # inside a procedure: nothing after handler entry is specified
            out.append(('rest',))
            return {'pattern': out, 'end': None, 'open': True,
                    'handler_entries': handler_entries, 'wild': True}
        if mode == 'A' and handler == 'H2':
            f.apply(st, i, out)       # cause fixed, statement re-executed
            continue
        f.skip(st, i, out)
        if f.spec == 'block':
            for w in f.wild:
                wild.add(f'{w}{i}')
    # epilogue
    out.append(('lit', 'V'))
    for i in range(1, n + 1):
        for v in VARS_INT:
            if f'{v}{i}' in wild:
                out.append(('int',))
            else:
                out.append(('lit', _fmt_int(st[f'{v}{i}'])))
    out.append(('lit', _fmt_int(st['a2']) + _fmt_int(st['a3'])))
    for i in range(1, n + 1):
        out.append(('lit', st[f's{i}']))
    out.append(('lit', '\r\nge\r\nse 3 \r\n 1  2  4 \r\ndone\r\n'))
    return {'pattern': out, 'end': 'halt', 'open': False,
            'handler_entries': handler_entries, 'wild': bool(wild)}


def pattern_regex(segs):
    parts = []
    nerr = 0
    for s in segs:
        if s[0] == 'lit':
            parts.append(re.escape(s[1]))
        elif s[0] == 'err':
            parts.append(f'(?P<err{nerr}>[ -][0-9]+) ')
            nerr += 1
        elif s[0] == 'int':
            parts.append('[ -][0-9]+ ')
        elif s[0] == 'rest':
            parts.append('.*')
    return re.compile(''.join(parts) + r'\Z', re.S)


def pattern_text(segs):
    out = []
    for s in segs:
        if s[0] == 'lit':
            out.append(s[1])
        elif s[0] == 'err':
            out.append(f' <ERR:{s[1]}> ')
        elif s[0] == 'int':
            out.append(' <any> ')
        else:
            out.append('<anything>')
    return ''.join(out)


def trap_name_of_err(n):
    try:
        return impl.TrapCode(n).name
    except Exception:
        return None


# ---------------------------------------------------------------------------
# compiled skeleton: module + addresses of the observation points

class Compiled:
    def __init__(self, skel, opt):
        self.skel = skel
        self.opt = opt
        r = impl.compile_text(skel.src, opt, True, limit=120.0, want_listing=False)
        for _ in range(2):
            if r.kind != 'timeout':
                break
            # a wall-clock limit on a loaded machine says nothing about qbee
            r = impl.compile_text(skel.src, opt, True, limit=300.0, want_listing=False)
        self.result = r
        self.ok = r.ok
        if not r.ok:
            return
        self.binary = r.binary
        self.module = impl.load(r.binary)
        by_line = {}
        for rec in self.module.debug_info.stmts:
            if rec.end_offset > rec.start_offset and rec.source_start_line is not None:
                by_line.setdefault(rec.source_start_line, set()).add(
                    (rec.source_start_col, rec.start_offset))
        self.points = {}     # addr -> list of tags
        self.missing = []
        for tag, (line, ordn) in skel.tags.items():
            ent = sorted(by_line.get(line, ()))
            # statements of a line in column order; several records may start
            # at one column (a block header and its parts): take the lowest
            # address per column
            cols = {}
            for col, addr in ent:
                cols[col] = min(addr, cols.get(col, addr))
            addrs = [cols[c] for c in sorted(cols)]
            if tag[0] in ('S', 'F', 'EP', 'END', 'H') and ordn == 0:
                # first statement on the line (a block header owns the line)
                pick = addrs[0] if addrs else None
            else:
                pick = addrs[ordn] if ordn < len(addrs) else None
            if pick is None:
                self.missing.append(tag)
                continue
            self.points.setdefault(pick, []).append(tag)


class _StoreCanon(Canon):
    """like Canon, but a call frame is its cells and its link to the calling
    frame only.  The other attributes of a frame are bookkeeping of the VM
    (addresses kept for the debugger, the operand-stack sizes remembered for
    RETURN and for the error handler) that no BASIC program can read; the one
    that does influence behaviour, the stack size remembered at the start of
    the current statement, is dead at our observation points: every
    observation point is the first instruction of a statement, so the very
    next tick overwrites it before anything reads it, and at a module-level
    observation point there is no other frame.  What such bookkeeping does to
    the program is observed through the trace, the stack and the cells."""

    def segment(self, seg):
        if not hasattr(seg, 'prev_frame'):
            return super().segment(seg)
        sid = self.seg_ids.get(id(seg))
        if sid is not None:
            return sid
        sid = len(self.seg_ids)
        self.seg_ids[id(seg)] = sid
        slot = [None]
        self.seg_out.append(slot)
        slot[0] = ('frame', [self.value(c) for c in seg.cells],
                   [('prev_frame', self.value(seg.prev_frame))])
        return sid


def mem_parts(cpu):
    """(operand stack, frames+globals+heap, device cursors) canonical texts"""
    c = _StoreCanon()
    stack = repr(c.value(cpu.stack))
    store = repr((c.value(cpu.cur_frame), c.value(cpu.globals_segment)))
    devs = []
    for name in sorted(cpu.devices):
        devs.append((name, c.obj(cpu.devices[name])))
    return stack, repr((store, c.seg_out)), repr(devs)


def _h(s):
    return hashlib.blake2b(s.encode(), digest_size=8).hexdigest()


class Monitor:
    """records (tag, depth[, memory hashes]) on arrival at the observation
    points.  With repair=True it additionally removes, at handler entry and at
    the statement after the failing one, whatever the failed statement left
    on the operand stack (what-if experiment used to attribute a divergence
    to that one root cause)."""

    def __init__(self, points, repair=False, cap=200):
        self.points = points
        self.repair = repair
        self.seq = []          # (tag, depth, (hs, hm, hd)|None)
        self.d0 = {}           # slot -> depth at the latest arrival at its failing statement
        self.last_f = None
        self.cur_s = None
        self.handler = []      # (slot, depth at entry, d0)
        self.cap = cap
        self.repaired = 0
        self.repaired_slots = []   # slot whose residue was removed, per removal

    def pre(self, cpu):
        tags = self.points.get(cpu.pc)
        if tags is None:
            return
        depth = len(cpu.stack)
        prev_f = self.last_f       # the body statement entered before this arrival
        ftags = [tag for tag in tags if tag[0] == 'F']
        for tag in tags:
            if tag[0] == 'S':
                self.cur_s = tag[1]
        for tag in ftags:
            # two body statements that call the same procedure share the
            # failing statement inside it: it belongs to the one entered last
            if len(ftags) > 1 and tag[1] != self.cur_s:
                continue
            self.d0[tag[1]] = depth
            self.last_f = tag[1]
        for tag in tags:
            t = tag[0]
            if t == 'H':
                d0 = self.d0.get(self.last_f)
                if self.repair and d0 is not None and depth > d0:
                    del cpu.stack[d0:]
                    self.repaired += 1
                    self.repaired_slots.append(self.last_f)
                    depth = d0
                self.handler.append((self.last_f, depth, d0))
            elif t == 'X':
                d0 = self.d0.get(tag[1])
                if self.repair and self.last_f == tag[1] and d0 is not None and depth > d0:
                    del cpu.stack[d0:]
                    self.repaired += 1
                    self.repaired_slots.append(tag[1])
                    depth = d0
        if len(self.seq) >= self.cap:
            return
        for tag in tags:
            if tag[0] in ('S', 'EP', 'END'):
                if self.repair and self.seq and depth > self.seq[0][1]:
                    del cpu.stack[self.seq[0][1]:]
                    self.repaired += 1
                    self.repaired_slots.append(prev_f)
                    depth = self.seq[0][1]
                hs, hm, hd = mem_parts(cpu)
                self.seq.append((tag, depth, (_h(hs), _h(hm), _h(hd))))

    def post(self, cpu):
        pass


class Run:
    __slots__ = ('out', 'text', 'mon', 'raised')


def run_plan(comp, script, repair=False, horizon=30000):
    env = impl.Env({'input': list(script)})
    mon = Monitor(comp.points, repair=repair)
    out, m = impl.run_module(comp.module, env, horizon=horizon, monitor=mon)
    r = Run()
    r.out = out
    r.mon = mon
    # terminal output after the last INPUT answer
    text = []
    for ev in out.events:
        if ev[0] == 'input':
            text = []
        elif ev[0] == 'print':
            text.append(ev[1])
        elif ev[0] == 'dev' and len(ev) > 2 and ev[2] == 'poke':
            # the one device call of the alphabet that prints nothing
            text.append('<poke %s>' % ' '.join(str(x) for x in ev[3:]))
    r.text = ''.join(text)
    r.raised = m.cpu.last_trap is not None
    return r


# ---------------------------------------------------------------------------
# judge

def first_failing(plan):
    for i, k in enumerate(plan, 1):
        if k is not None:
            return i
    return None


def judge(skel, plan, run, base_run, exp):
    """-> list of (divergence, slot, detail).  base_run: run of the reference
    program for the memory differential (None if not applicable)."""
    div = []
    out = run.out
    ff = first_failing(plan)
    if out.end == 'hostexc':
        div.append((f'hostexc:{out.exc}', ff, {'where': out.where}))
        return div
    # ---- outcome class
    if exp['end'] == 'halt':
        if out.end == 'trap':
            div.append((f'trap:{out.trap}', ff, {'text': run.text[-200:]}))
        elif out.end != 'halt':
            div.append((f'end:{out.end}', ff, {'text': run.text[-200:]}))
    elif exp['end'] is not None:
        want = exp['end'][1]
        if out.end != 'trap' or out.trap != want:
            div.append(('default-report', ff, {'want': 'trap ' + want,
                                                'got': f'{out.end} {out.trap}'}))
    # ---- terminal output + ERR class
    rx = pattern_regex(exp['pattern'])
    m = rx.match(run.text)
    if m is None:
        if not any(d[0].startswith(('trap:', 'end:')) for d in div):
            div.append(('output', ff, {'want': pattern_text(exp['pattern']), 'got': run.text}))
        elif exp['handler_entries'] and skel.handler != 'H3' and skel.mode == 'A' \
                and 'E' not in run.text:
            div.append(('no-handler-entry', ff, {'got': run.text}))
    else:
        kinds = [s[1] for s in exp['pattern'] if s[0] == 'err']
        for n, kind in enumerate(kinds):
            got = trap_name_of_err(int(m.group(f'err{n}')))
            if got != KIND_TRAP[kind]:
                div.append(('err-class', ff, {'want': KIND_TRAP[kind], 'got': got,
                                              'err': int(m.group(f'err{n}'))}))
    # ---- handler entries and operand-stack depth there
    mon = run.mon
    if skel.mode == 'A':
        want_entries = exp['handler_entries']
        got = mon.handler
        if exp['open']:
            # only the entries up to the first in-procedure error are specified
            if len(got) < len(want_entries):
                div.append(('no-handler-entry', ff, {'want': len(want_entries), 'got': len(got)}))
        elif len(got) != len(want_entries) and not div:
            div.append(('handler-entries', ff, {'want': len(want_entries), 'got': len(got)}))
        for (slot, depth, d0), (wslot, wkind) in zip(got, want_entries):
            if FORM[skel.forms[wslot - 1]].spec == 'proc':
                continue
            if slot != wslot:
                div.append(('handler-for-wrong-statement', wslot, {'got': slot}))
            elif d0 is not None and depth != d0:
                div.append(('depth-at-handler-entry', wslot,
                            {'at_statement_start': d0, 'at_handler_entry': depth}))
    elif mon.handler:
        div.append(('handler-entered-while-not-armed', ff, {'entries': len(mon.handler)}))
    if exp['open']:
        return div
    # ---- depth at module-level statement boundaries after the first failure
    seq = mon.seq
    if seq and ff is not None and skel.mode != 'Z':
        base = seq[0][1]
        started = False
        for tag, depth, _ in seq:
            if tag == ('S', ff):
                started = True
                continue
            if started and depth != base:
                div.append(('depth-after-resume', ff, {'at': list(tag), 'depth': depth, 'base': base}))
                break
    # ---- memory differential
    if base_run is not None and ff is not None and skel.mode != 'Z' and not exp['wild']:
        a = checkpoints(seq)
        b = checkpoints(base_run.mon.seq)
        # a removed statement has no 'S' checkpoint of its own in the reference run
        bt = {t for t, _ in b}
        a = [(t, h) for t, h in a if t in bt or t[0] != 'S']
        ta = [t for t, _ in a]
        tb = [t for t, _ in b]
        resume = skel.mode == 'A' and skel.handler == 'H2'
        last = max(i for i, k in enumerate(plan, 1) if k is not None)
        if ta != tb:
            if not div:
                div.append(('checkpoints', ff, {'run': [list(t) for t in ta],
                                                'reference': [list(t) for t in tb]}))
        else:
            for (t, ha), (_, hb) in zip(a, b):
                # RESUME: comparable with the fault-free run once every cause
                # has been repaired; RESUME NEXT / skip: from the first
                # failing statement on
                if t[0] == 'S' and t[1] <= (last if resume else ff):
                    continue
                if ha != hb:
                    parts = [nm for nm, x, y in zip(('stack', 'store', 'devices'), ha, hb) if x != y]
                    div.append(('memory-after-resume:' + '+'.join(parts), ff, {'at': list(t)}))
                    break
    return div


def checkpoints(seq):
    """(tag, hashes) with consecutive arrivals at one point collapsed to the
    last (RESUME re-arrives at the statement it re-executes)"""
    out = []
    for tag, _, h in seq:
        if out and out[-1][0] == tag:
            out[-1] = (tag, h)
        else:
            out.append((tag, h))
    return out
