"""The repository's own test programs (tests/test_cases/*.test).

Parsed in a child process because tests/qb_test_parser.py switches pyparsing's
packrat mode on globally, which would change how qbee itself parses."""
import json
import os
import subprocess
import sys

REPO = os.environ.get('QBEE_REPO', '/repo')

_CODE = r'''
import sys, json, glob
sys.path.insert(0, %r); sys.path.insert(0, %r + '/tests')
from qb_test_parser import parse_qb_test_file
out = []
for f in sorted(glob.glob(%r + '/tests/test_cases/*.test')):
    for c in parse_qb_test_file(f).cases:
        ee = c.expected_error
        out.append(dict(file=f.split('/')[-1], idx=c.idx, src=c.source_code,
            expected=c.expected_result, error=getattr(ee, 'name', ee),
            io=[list(x) for x in c.expected_io] if c.expected_io else [],
            no_run=c.no_run, debug_info=c.debug_info,
            inkey=list(c.inkey_list), rnd=list(c.rnd_list), timer=list(c.timer_list)))
json.dump(out, sys.stdout)
'''

_cache = None


def cases():
    global _cache
    if _cache is None:
        r = subprocess.run([sys.executable, '-c', _CODE % (REPO, REPO, REPO)],
                           capture_output=True, text=True, cwd=REPO,
                           env=dict(os.environ, PYTHONDONTWRITEBYTECODE='1'))
        if r.returncode != 0:
            sys.stderr.write(r.stderr[-2000:])
            _cache = []
        else:
            _cache = json.loads(r.stdout)
    return _cache


def script_of(c):
    return {'inkey': list(c['inkey']), 'rnd': list(c['rnd']), 'timer': list(c['timer'])}
