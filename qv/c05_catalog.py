"""C05 - contexts (base programs) and the fault catalogue.

A *context* is a valid base program with a marked slot.  A *variant* is one
concrete violation of one static rule R01..R26: a valid construct (`good`)
and the faulted construct (`bad`) that replaces it - a single replacement of
the slot, or of a declaration / type block / procedure the slot depends on.
`build()` assembles program text and reports which source lines hold which
part, so that the position oracle can be stated in terms of source lines.

Identifiers ending in 9 belong to contexts, identifiers starting with z to
the "unrelated construct" additions, everything else to variants.
"""

TM = ('TYPE_MISMATCH',)
SYNTAX = 'SYNTAX'


# ---------------------------------------------------------------------------
# contexts

class Level:
    """one nesting level of a context"""

    def __init__(self, name, kind, open=(), close=(), single=None, tags=()):
        self.name = name
        self.kind = kind          # for | do | while | if | select | None
        self.open = list(open)
        self.close = list(close)
        self.single = single      # 'if c9% then @S' for one-line contexts
        self.tags = set(tags) | ({kind} if kind else set())


class Context:
    def __init__(self, name, base, scope='module', levels=(), module_pre=(),
                 module_post=(), proc_open=(), proc_close=(), first=False):
        self.name = name
        self.base = base              # 'b1' | 'b2'
        self.scope = scope            # module | sub | function
        self.levels = list(levels)
        self.module_pre = list(module_pre)
        self.module_post = list(module_post)
        self.proc_open = list(proc_open)
        self.proc_close = list(proc_close)
        self.first = first

    # -- derived
    @property
    def tags(self):
        t = set()
        for l in self.levels:
            t |= l.tags
        if self.scope != 'module':
            t.add(self.scope)
        return t

    @property
    def oneline(self):
        return bool(self.levels) and self.levels[-1].single is not None

    @property
    def inner(self):
        return self.levels[-1].name if self.levels else self.name

    @property
    def inner_kind(self):
        """kind of the innermost enclosing block ('sub'/'function' when the
        slot is directly in a procedure body, None at module level)"""
        for l in reversed(self.levels):
            if l.single is not None:
                return 'oneline'
            if l.kind:
                return l.kind
        return None if self.scope == 'module' else self.scope

    @property
    def nested(self):
        return bool(self.levels) or self.scope != 'module'


def _lv(level, n):
    """instantiate a level template with the nesting number n"""
    f = lambda s: s.replace('{n}', str(n))
    return Level(level.name, level.kind, [f(s) for s in level.open],
                 [f(s) for s in level.close],
                 f(level.single) if level.single else None, level.tags - {level.kind})


# level templates: base 1 and base 2
LEVELS = {
    'b1': {
        'if1_then': Level('if1_then', None, single='if c{n}9% then @S', tags=['oneline']),
        'if1_else': Level('if1_else', None, single='if c{n}9% then print 1 else @S', tags=['oneline']),
        'colon': Level('colon', None, single='print 1: @S', tags=['colon']),
        'ifblk': Level('ifblk', 'if', ['if c{n}9% then'], ['end if']),
        'elseblk': Level('elseblk', 'if', ['if c{n}9% then', 'print 1', 'else'], ['end if'], tags=['after_else']),
        'for': Level('for', 'for', ['for i{n}9% = 1 to 2'], ['next i{n}9%']),
        'do': Level('do', 'do', ['do while c{n}9% < 1'], ['c{n}9% = c{n}9% + 1', 'loop']),
        'select': Level('select', 'select', ['select case c{n}9%', 'case 1'],
                        ['case else', 'print 2', 'end select'], tags=['direct_select']),
    },
    'b2': {
        'if1_then': Level('if1_then', None, single='if c{n}9% = 1 and d{n}9% <> 2 then @S', tags=['oneline']),
        'if1_else': Level('if1_else', None, single='if c{n}9% then beep else @S', tags=['oneline']),
        'colon': Level('colon', None, single='cls : beep : @S', tags=['colon']),
        'ifblk': Level('ifblk', 'if', ['if c{n}9% > 0 then', 'print 0'],
                       ['elseif c{n}9% < 0 then', 'print 1', 'end if']),
        'elseblk': Level('elseblk', 'if', ['if c{n}9% then', 'elseif d{n}9% then'],
                         ['else', 'print 1', 'end if']),
        'for': Level('for', 'for', ['for i{n}9& = 10 to 1 step -1'], ['next']),
        'do': Level('do', 'while', ['while c{n}9% < 3'], ['wend']),
        'select': Level('select', 'select', ['select case s{n}9$', 'case "a", "b"', 'print 1', 'case else'],
                        ['end select'], tags=['direct_select']),
    },
}
# a third DO form, used only as an outer level in pairs
LOOP_UNTIL = Level('do', 'do', ['do'], ['loop until c{n}9% = 0'])

AFTER_DECL = {
    'b1': ['defint z', 'const k9 = 3', 'dim shared g9 as long', 'dim w9(2) as integer',
           'type t9', 'u9 as integer', 'end type', 'dim r9 as t9', 'r9.u9 = k9', 'w9(1) = r9.u9'],
    'b2': ['declare sub s8 (a%)', 'defstr y', 'const k9$ = "k"', 'dim shared w9(1 to 2, 3) as double',
           'y9 = k9$', 'on error goto 0', 'e9: print y9'],
}
# blank, comment and indented lines before the slot: every line contributes its
# length + 1 to the reported offset, whatever it contains
AFTER_BLANK = {
    'b1': ['', "' a comment line", 'rem another one', '   print 0   ', ''],
    'b2': ['', '', "cls ' trailing comment", '\t', 'rem'],
}
PROC = {
    'b1': {'sub': (['call s9'], ['sub s9'], ['end sub']),
           'function': (['print f9%(1)'], ['function f9% (a9%)'], ['f9% = a9%', 'end function'])},
    'b2': {'sub': (['s9 1, "q"'], ['sub s9 (p9%, q9$) static'], ['end sub']),
           'function': (['y9$ = f9$(2)'], ['function f9$ (p9 as integer)'], ['f9$ = "r"', 'end function'])},
}
MODULE_POST = {'b1': ['print 2'], 'b2': ['end']}


def make_context(name, base, outer=None):
    """name in first after_decl if1_then if1_else colon ifblk elseblk for
    for_in_if do select sub function ; outer = name of an enclosing multi-line
    context for the pair family"""
    L = LEVELS[base]
    scope = 'module'
    levels = []
    module_pre = []
    proc_open = proc_close = ()
    n = 1
    if outer is not None:
        if outer in ('sub', 'function'):
            scope = outer
            module_pre, proc_open, proc_close = PROC[base][outer]
        elif outer == 'after_decl':
            module_pre = AFTER_DECL[base]
        elif outer == 'for_in_if':
            levels += [_lv(L['ifblk'], 1), _lv(L['for'], 2)]
            n = 3
        elif outer == 'loop_until':
            levels.append(_lv(LOOP_UNTIL, 1))
            n = 2
        else:
            levels.append(_lv(L[outer], 1))
            n = 2
    first = False
    if name == 'first':
        first = True
    elif name == 'after_decl':
        module_pre = list(module_pre) + AFTER_DECL[base]
    elif name == 'after_blank':
        module_pre = list(module_pre) + AFTER_BLANK[base]
    elif name in ('sub', 'function'):
        assert outer is None
        scope = name
        module_pre, proc_open, proc_close = PROC[base][name]
    elif name == 'for_in_if':
        if base == 'b1':
            levels += [_lv(L['ifblk'], n), _lv(L['for'], n + 1)]
        else:
            levels += [_lv(L['elseblk'], n), _lv(L['for'], n + 1)]
    else:
        levels.append(_lv(L[name], n))
    full = name if outer is None else outer + '/' + name
    return Context(full, base, scope, levels, module_pre, MODULE_POST[base],
                   proc_open, proc_close, first)


SINGLE_CONTEXTS = ['first', 'after_decl', 'after_blank', 'if1_then', 'if1_else', 'colon', 'ifblk',
                   'elseblk', 'for', 'for_in_if', 'do', 'select', 'sub', 'function']
PAIR_OUTER = ['sub', 'function', 'ifblk', 'elseblk', 'for', 'for_in_if', 'do',
              'loop_until', 'select', 'after_decl']
PAIR_INNER = ['if1_then', 'if1_else', 'colon', 'ifblk', 'elseblk', 'for', 'for_in_if',
              'do', 'select']


# ---------------------------------------------------------------------------
# variants

class Variant:
    def __init__(self, rule, name, good, bad, codes=None, types=(), decls=(),
                 procs=(), after=(), mafter=(), bad_types=None, bad_decls=None,
                 bad_procs=None, where='slot', at=0, also=(), structural=False,
                 applies=None, oneline=None, codes_fn=None, construct=None):
        self.rule = rule
        self.name = name
        self.good = [good] if isinstance(good, str) else list(good)
        self.bad = [bad] if isinstance(bad, str) else list(bad)
        # accepted categories: ErrorCode names and/or 'SYNTAX'; None = any
        self.codes = None if codes is None else tuple(codes)
        self.types = list(types)
        self.decls = list(decls)
        self.procs = list(procs)
        self.after = list(after)        # same scope, after the context's blocks
        self.mafter = list(mafter)      # module level, after the module code
        self.bad_types = None if bad_types is None else list(bad_types)
        self.bad_decls = None if bad_decls is None else list(bad_decls)
        self.bad_procs = None if bad_procs is None else list(bad_procs)
        self.where = where              # part that holds the offending line
        self.at = at                    # index of the offending line in that part
        self.also = list(also)          # further acceptable (part, index) lines
        self.structural = structural    # block-structure rule: the enclosing
        #                                 context's block lines are acceptable too
        self._applies = applies
        if oneline is None:
            oneline = len(self.good) == 1 and len(self.bad) == 1
        self.oneline = oneline
        self.codes_fn = codes_fn
        self._construct = construct

    def construct(self, ctx):
        """input-side name of the construct the faulted text exercises in this
        context (ledger matching); the variant name unless the catalogue says
        that several (variant, context) cells are one construct"""
        if self._construct is not None:
            c = self._construct(ctx) if callable(self._construct) else self._construct
            if c:
                return c
        return self.name

    def codes_in(self, ctx):
        if self.codes_fn is not None:
            return self.codes_fn(ctx)
        return self.codes

    def applies(self, ctx):
        """'bad' (the fault is a violation here), 'valid' (the same text is
        legal in this context: it must compile), or None (not applicable /
        unspecified)"""
        if ctx.first and (self.types or self.decls or self.bad_types or self.bad_decls):
            return None
        if ctx.oneline and not self.oneline:
            return None
        if self._applies is not None:
            return self._applies(ctx)
        return 'bad'


PT = ['type pt', 'px as integer', 'py as long', 'end type']
D_REC = ['dim rv as pt']
D_ARR = ['dim av(3) as integer']
D_M2 = ['dim m2(2, 2) as integer']
P_SUB0 = ['sub ps0', 'print 0', 'end sub']
P_SUB1 = ['sub ps1 (a%)', 'print a%', 'end sub']
P_SUBS = ['sub pss (a$)', 'print a$', 'end sub']
P_SUB2 = ['sub ps2 (a%, b$)', 'print a%; b$', 'end sub']
P_SUBA = ['sub psa (a%())', 'print a%(0)', 'end sub']
P_FN0 = ['function pf0%', 'pf0% = 4', 'end function']
P_FN1 = ['function pf1% (a%)', 'pf1% = a% + 1', 'end function']
P_FNS = ['function pfs$ (a$)', 'pfs$ = a$ + "!"', 'end function']
P_LAB = ['sub plab', 'xlab: print 1', '300 print 2', 'end sub']

V = []


def add(*a, **k):
    V.append(Variant(*a, **k))


# ---- R01 assignment type ---------------------------------------------------
add('R01', 'str_from_num', 'sv$ = "a"', 'sv$ = 1', TM)
add('R01', 'num_from_str', 'nv% = 1', 'nv% = "a"', TM)
add('R01', 'let_single_from_str', 'let nv! = 1', 'let nv! = "q"', TM)
add('R01', 'double_from_strvar', 'nv# = nv%', 'nv# = sv$', TM)
add('R01', 'field_from_str', 'rv.px = 1', 'rv.px = "a"', TM, types=PT, decls=D_REC)
add('R01', 'elem_from_str', 'av(1) = 2', 'av(1) = "s"', TM, decls=D_ARR)
add('R01', 'record_from_num', 'rv.py = 5', 'rv = 5', TM, types=PT, decls=D_REC)
add('R01', 'num_from_record', 'nv& = rv.py', 'nv& = rv', TM, types=PT, decls=D_REC)
add('R01', 'decl_changed', 'dv = 5', 'dv = 5', TM, decls=['dim dv as integer'],
    bad_decls=['dim dv as string'])
add('R01', 'str_from_fn', 'sv$ = pfs$("a")', 'sv$ = pf1%(1)', TM, procs=P_FN1 + P_FNS)

# ---- R02 binary operator type ---------------------------------------------
for nm, g, b in [
        ('add_num_str', 'nv% = 1 + 2', 'nv% = 1 + "a"'),
        ('add_str_num', 'sv$ = "a" + "b"', 'sv$ = "a" + 1'),
        ('sub_str_str', 'sv$ = "a" + "b"', 'sv$ = "a" - "b"'),
        ('mul_str', 'nv% = 2 * 3', 'nv% = "a" * 3'),
        ('div_str', 'nv! = 2 / 3', 'nv! = 2 / "3"'),
        ('idiv_str', 'nv% = 7 \\ 2', 'nv% = "7" \\ 2'),
        ('mod_str', 'nv% = 7 mod 2', 'nv% = 7 mod "2"'),
        ('exp_str', 'nv! = 2 ^ 3', 'nv! = 2 ^ "3"'),
        ('and_str', 'nv% = 1 and 2', 'nv% = 1 and "a"'),
        ('or_str', 'nv% = 1 or 2', 'nv% = "a" or 2'),
        ('xor_strs', 'nv% = 1 xor 2', 'nv% = "a" xor "b"'),
        ('lt_num_str', 'nv% = 1 < 2', 'nv% = 1 < "a"'),
        ('eq_str_num', 'nv% = "a" = "b"', 'nv% = "a" = 2'),
        ('print_add', 'print 1 + 1', 'print 1 + "a"'),
        ('print_strvar_mul', 'print nv% * 2', 'print sv$ * 2'),
]:
    add('R02', nm, g, b, TM)
add('R02', 'record_operand', 'nv% = rv.px + 1', 'nv% = rv + 1', TM, types=PT, decls=D_REC)
add('R02', 'record_compare', 'nv% = rv.px = 1', 'nv% = rv = rv', TM, types=PT, decls=D_REC)

# ---- R03 unary operator type ----------------------------------------------
add('R03', 'neg_strvar', 'nv% = -nv%', 'nv% = -sv$', TM)
add('R03', 'not_str', 'nv% = not 1', 'nv% = not "a"', TM)
add('R03', 'print_neg_str', 'print -1', 'print -"a"', TM)
add('R03', 'plus_str', 'sv$ = "a"', 'sv$ = +"a"', TM)
add('R03', 'neg_record', 'nv% = -rv.px', 'nv% = -rv', TM, types=PT, decls=D_REC)

# ---- R04 string (non-numeric) condition -----------------------------------
add('R04', 'if_line', 'if nv% then print 1', 'if sv$ then print 1', TM)
add('R04', 'if_line_lit', 'if 1 then print 1 else print 2', 'if "a" then print 1 else print 2', TM)
add('R04', 'if_block', ['if nv% then', 'print 1', 'end if'], ['if sv$ then', 'print 1', 'end if'], TM)
add('R04', 'elseif', ['if nv% then', 'print 1', 'elseif nv% = 2 then', 'print 2', 'end if'],
    ['if nv% then', 'print 1', 'elseif sv$ then', 'print 2', 'end if'], TM, at=2)
add('R04', 'while', ['while nv%', 'nv% = 0', 'wend'], ['while sv$', 'nv% = 0', 'wend'], TM)
add('R04', 'do_while', ['do while nv%', 'nv% = 0', 'loop'], ['do while sv$', 'nv% = 0', 'loop'], TM)
add('R04', 'do_until', ['do until nv%', 'nv% = 1', 'loop'], ['do until "a"', 'nv% = 1', 'loop'], TM)
add('R04', 'loop_while', ['do', 'nv% = 0', 'loop while nv%'], ['do', 'nv% = 0', 'loop while sv$'], TM, at=2)
add('R04', 'loop_until', ['do', 'nv% = 1', 'loop until nv%'], ['do', 'nv% = 1', 'loop until sv$'], TM, at=2)
add('R04', 'if_record', 'if rv.px then print 1', 'if rv then print 1', TM, types=PT, decls=D_REC)
add('R04', 'case_str_for_num', ['select case nv%', 'case 1', 'print 1', 'end select'],
    ['select case nv%', 'case "a"', 'print 1', 'end select'], TM, at=1)
add('R04', 'case_num_for_str', ['select case sv$', 'case "a" to "b"', 'print 1', 'end select'],
    ['select case sv$', 'case 1 to "b"', 'print 1', 'end select'], TM, at=1)
add('R04', 'case_is_str', ['select case nv%', 'case is > 1', 'print 1', 'end select'],
    ['select case nv%', 'case is > "a"', 'print 1', 'end select'], TM, at=1)

# ---- R05 argument type -----------------------------------------------------
add('R05', 'sub_byval_str', 'call ps1(1)', 'call ps1("a")', TM, procs=P_SUB1)
add('R05', 'sub_nocall_str', 'ps1 1', 'ps1 "a"', TM, procs=P_SUB1)
add('R05', 'sub_byval_num', 'call pss("a")', 'call pss(1)', TM, procs=P_SUBS)
add('R05', 'sub_second_arg', 'call ps2(1, "b")', 'call ps2(1, 2)', TM, procs=P_SUB2)
add('R05', 'sub_byref_long', 'call ps1(nv%)', 'call ps1(lv&)', TM, procs=P_SUB1)
add('R05', 'sub_byref_default', 'call ps1(nv%)', 'call ps1(xv)', TM, procs=P_SUB1)
add('R05', 'sub_record', 'call ps1(rv.px)', 'call ps1(rv)', TM, types=PT, decls=D_REC, procs=P_SUB1)
add('R05', 'fn_str', 'nv% = pf1%(1)', 'nv% = pf1%("a")', TM, procs=P_FN1)
add('R05', 'fn_num', 'sv$ = pfs$("a")', 'sv$ = pfs$(1)', TM, procs=P_FNS)
add('R05', 'fn_byref', 'print pf1%(nv%)', 'print pf1%(dv#)', TM, procs=P_FN1)
add('R05', 'index_str', 'av(1) = 1', 'av("a") = 1', TM, decls=D_ARR)
add('R05', 'index_str_read', 'nv% = av(nv%)', 'nv% = av(sv$)', TM, decls=D_ARR)
for nm, g, b in [
        ('len_num', 'nv% = len("a")', 'nv% = len(1)'),
        ('chr_str', 'sv$ = chr$(65)', 'sv$ = chr$("A")'),
        ('asc_num', 'nv% = asc("A")', 'nv% = asc(65)'),
        ('abs_str', 'print abs(-1)', 'print abs("a")'),
        ('left_count_str', 'sv$ = left$("abc", 1)', 'sv$ = left$("abc", "1")'),
        ('mid_third_str', 'sv$ = mid$("abc", 1, 1)', 'sv$ = mid$("abc", 1, "1")'),
        ('instr_num', 'nv% = instr("ab", "b")', 'nv% = instr("ab", 2)'),
        ('str_of_str', 'sv$ = str$(1)', 'sv$ = str$("1")'),
        ('val_num', 'nv! = val("1")', 'nv! = val(1)'),
        ('space_str', 'sv$ = space$(2)', 'sv$ = space$("2")'),
        ('ucase_num', 'sv$ = ucase$("a")', 'sv$ = ucase$(1)'),
        ('int_str', 'nv% = int(1.5)', 'nv% = int("1.5")'),
        ('string_first_str', 'sv$ = string$(2, "a")', 'sv$ = string$("2", "a")'),
        ('locate_row', 'locate 1, 1', 'locate "a", 1'),
        ('locate_col', 'locate 1, 1', 'locate 1, "a"'),
        ('poke_value', 'poke 1, 2', 'poke 1, "a"'),
        ('screen_mode', 'screen 0', 'screen "a"'),
        ('width_cols', 'width 80', 'width "a"'),
        ('play_num', 'play "c"', 'play 1'),
        ('view_print', 'view print 1 to 2', 'view print "a" to 2'),
        ('color_str', 'color 1, 2', 'color "a", 2'),
        ('sound_str', 'sound 100, 1', 'sound "a", 1'),
        ('randomize_str', 'randomize 1', 'randomize "a"'),
        ('color_bg_str', 'color 1, 2', 'color 1, "a"'),
        ('sound_duration_str', 'sound 100, 1', 'sound 100, "a"'),
        ('screen_second_str', 'screen 0, 1', 'screen 0, "a"'),
        ('width_lines_str', 'width 80, 25', 'width 80, "a"'),
        ('view_print_bottom', 'view print 1 to 2', 'view print 1 to "b"'),
        ('poke_address', 'poke 1, 2', 'poke "a", 2'),
        ('bload_offset_str', 'bload "f", 1', 'bload "f", "a"'),
        ('bsave_length_str', 'bsave "f", 1, 2', 'bsave "f", 1, "a"'),
        ('peek_str', 'nv% = peek(1)', 'nv% = peek("a")'),
        ('rnd_str', 'nv! = rnd(1)', 'nv! = rnd("a")'),
        ('instr_start_str', 'nv% = instr(1, "ab", "b")', 'nv% = instr("1", "ab", "b")'),
        ('instr_three_num', 'nv% = instr(1, "ab", "b")', 'nv% = instr(1, "ab", 2)'),
        ('def_seg_str', 'def seg = 0', 'def seg = "a"'),
        ('print_using_num', 'print using "#"; 1', 'print using 1; 1'),
]:
    add('R05', nm, g, b, TM)
for nm, g, b in [
        ('kill_num', 'kill "f"', 'kill 1'),
        ('kill_numvar', 'kill sv$', 'kill nv%'),
        ('bload_num', 'bload "f", 1', 'bload 1, 1'),
        ('bsave_num', 'bsave "f", 1, 2', 'bsave 3, 1, 2'),
]:
    add('R05', nm, g, b, TM, construct='file-name-argument')
add('R05', 'lbound_scalar', 'nv% = lbound(av)', 'nv% = lbound(nv%)', TM, decls=D_ARR)

# ---- R06 undefined label / line number ------------------------------------
LBL = ['lab1: print 3', '100 print 4']
_notproc = lambda c: 'bad' if c.scope == 'module' else None
for nm, g, b in [
        ('goto', 'goto lab1', 'goto nolab'),
        ('goto_lineno', 'goto 100', 'goto 999'),
        ('gosub', 'gosub lab1', 'gosub nolab'),
        ('gosub_lineno', 'gosub 100', 'gosub 999'),
        ('return', 'return lab1', 'return nolab'),
        ('return_lineno', 'return 100', 'return 999'),
]:
    add('R06', nm, g, b, ('LABEL_NOT_DEFINED',), after=LBL)
# RESTORE <label> names a module-level label in QBASIC: twin uses the bare form in procedures
LBL_DATA = ['lab1: data 3', '100 data 4']
add('R06', 'restore', 'restore lab1', 'restore nolab', ('LABEL_NOT_DEFINED',), after=LBL_DATA, applies=_notproc)
add('R06', 'restore_lineno', 'restore 100', 'restore 999', ('LABEL_NOT_DEFINED',), after=LBL_DATA,
    applies=_notproc)
add('R06', 'restore_in_proc', 'restore', 'restore nolab', ('LABEL_NOT_DEFINED',),
    applies=lambda c: 'bad' if c.scope != 'module' else None)
add('R06', 'on_error', 'on error goto lab1', 'on error goto nolab', ('LABEL_NOT_DEFINED',), mafter=LBL)
add('R06', 'on_error_lineno', 'on error goto 100', 'on error goto 999', ('LABEL_NOT_DEFINED',), mafter=LBL)
add('R06', 'on_error_label_in_routine', 'on error goto lab1', 'on error goto xlab', ('LABEL_NOT_DEFINED',),
    mafter=LBL, procs=P_LAB)
add('R06', 'goto_other_routine', 'goto lab1', 'goto xlab', ('LABEL_NOT_DEFINED',), after=LBL, procs=P_LAB)
add('R06', 'gosub_other_routine_lineno', 'gosub 100', 'gosub 300', ('LABEL_NOT_DEFINED',), after=LBL, procs=P_LAB)
add('R06', 'goto_module_label_from_proc', 'goto lab1', 'goto mlab', ('LABEL_NOT_DEFINED',), after=LBL,
    mafter=['mlab: print 5'], applies=lambda c: 'bad' if c.scope != 'module' else None)

# ---- R07 duplicate label / line number ------------------------------------
def _label_site(c):
    # the slot of the select contexts is the body of a CASE
    return 'label-in-case-body' if c.levels and 'direct_select' in c.levels[-1].tags else None


add('R07', 'label', ['lab2: print 1'], ['lab1: print 1'], ('DUPLICATE_LABEL',), after=LBL,
    also=[('after', 0)], oneline=False, construct=_label_site)
add('R07', 'lineno', ['200 print 1'], ['100 print 1'], ('DUPLICATE_LABEL',), after=LBL,
    also=[('after', 1)], oneline=False, construct=_label_site)
add('R07', 'label_alone', ['lab2:'], ['lab1:'], ('DUPLICATE_LABEL',), after=LBL,
    also=[('after', 0)], oneline=False, construct=_label_site)
add('R07', 'label_in_other_routine', ['lab2: print 1'], ['xlab: print 1'], ('DUPLICATE_LABEL',),
    procs=P_LAB, also=[('procs', 1)], oneline=False, construct=_label_site)
add('R07', 'lineno_in_other_routine', ['200 print 1'], ['300 print 1'], ('DUPLICATE_LABEL',),
    procs=P_LAB, also=[('procs', 2)], oneline=False, construct=_label_site)

# ---- R08 duplicate definition ---------------------------------------------
DD = ('DUPLICATE_DEFINITION',)
add('R08', 'dim_twice', 'dim dw as integer', 'dim dv as integer', DD, decls=['dim dv as integer'],
    also=[('decls', 0)])
add('R08', 'dim_array_twice', 'dim dw(2) as long', 'dim av(2) as long', DD, decls=D_ARR, also=[('decls', 0)])
add('R08', 'dim_after_use', 'dim dw', 'dim vq', DD, decls=['vq = 1'], also=[('decls', 0)])
add('R08', 'dim_same_stmt', 'dim dw as integer, dx as long', 'dim dw as integer, dw as long', DD)
add('R08', 'const_twice', 'const kd = 2', 'const kc = 2', DD, decls=['const kc = 1'], also=[('decls', 0)])
add('R08', 'const_after_var', 'const kd = 2', 'const vq = 2', DD, decls=['vq = 1'], also=[('decls', 0)])
add('R08', 'assign_to_const', 'nv% = kc', 'kc = 5', DD, decls=['const kc = 1'])
add('R08', 'input_to_const', 'input nv%', 'input kc', None, decls=['const kc = 1'], construct='store-into-const')
add('R08', 'input_second_to_const', 'input "?"; nv%, nw%', 'input "?"; nv%, kc', None, decls=['const kc = 1'],
    construct='store-into-const')
add('R08', 'read_to_const', 'read nv%', 'read kc', None, decls=['const kc = 1'], mafter=['data 5'],
    construct='store-into-const')
add('R08', 'for_const_var', ['for k1% = 1 to 2', 'next'], ['for kc = 1 to 2', 'next'], None, decls=['const kc = 1'],
    construct='store-into-const')
add('R08', 'input_to_local_const', ['const kl = 1', 'input nv%'], ['const kl = 1', 'input kl'], None, at=1,
    construct='store-into-const')
add('R08', 'dim_routine_name', 'dim dw as integer', 'dim ps0 as integer', DD, procs=P_SUB0)
add('R08', 'assign_to_sub_name', 'nv% = 10', 'ps0 = 10', DD, procs=P_SUB0)
add('R08', 'assign_to_function', 'nv% = pf1%(3)', 'pf1%(3) = 1', DD, procs=P_FN1)
add('R08', 'assign_to_function_noargs', 'nv% = pf0%', 'pf0% = 1', DD, procs=P_FN0)
add('R08', 'sub_twice', 'call ps0', 'call ps0', DD, procs=P_SUB0 + ['sub ps0b', 'end sub'],
    bad_procs=P_SUB0 + ['sub ps0', 'end sub'], where='procs', at=3, also=[('procs', 0)])
add('R08', 'function_twice', 'print pf0%', 'print pf0%', DD, procs=P_FN0 + ['function pf0b%', 'end function'],
    bad_procs=P_FN0 + ['function pf0%', 'end function'], where='procs', at=3, also=[('procs', 0)])
add('R08', 'sub_and_function', 'call ps0', 'call ps0', DD, procs=P_SUB0 + ['function ps0b', 'end function'],
    bad_procs=P_SUB0 + ['function ps0', 'end function'], where='procs', at=3, also=[('procs', 0)])
add('R08', 'type_twice', 'rv.px = 1', 'rv.px = 1', DD, types=PT + ['type pu', 'qx as integer', 'end type'],
    bad_types=PT + ['type pt', 'qx as integer', 'end type'], decls=D_REC, where='types', at=4,
    also=[('types', 0)])
add('R08', 'field_twice', 'rv.px = 1', 'rv.px = 1', DD + (SYNTAX,), types=PT,
    bad_types=['type pt', 'px as integer', 'px as long', 'end type'], decls=D_REC, where='types', at=2,
    also=[('types', 1), ('types', 0)])
add('R08', 'param_twice', 'print 1', 'print 1', None,
    procs=['sub pdp (a%, b%)', 'print a%', 'end sub'],
    bad_procs=['sub pdp (a%, a%)', 'print a%', 'end sub'], where='procs', at=0, construct='duplicate-parameter')
add('R08', 'param_twice_called', 'call pdp(1, 2)', 'call pdp(1, 2)', None,
    procs=['sub pdp (a%, b%)', 'print a%', 'end sub'],
    bad_procs=['sub pdp (a%, a%)', 'print a%', 'end sub'], where='procs', at=0, construct='duplicate-parameter')
add('R08', 'function_param_twice', 'print 1', 'print 1', None,
    procs=['function pdf% (a$, b%, c$)', 'pdf% = b%', 'end function'],
    bad_procs=['function pdf% (a$, b%, a$)', 'pdf% = b%', 'end function'], where='procs', at=0,
    construct='duplicate-parameter')

# ---- R09 argument count ----------------------------------------------------
AC = ('ARGUMENT_COUNT_MISMATCH',)
add('R09', 'sub_too_many', 'call ps1(1)', 'call ps1(1, 2)', AC, procs=P_SUB1)
add('R09', 'sub_too_few', 'call ps1(1)', 'call ps1', AC, procs=P_SUB1)
add('R09', 'sub_nocall_too_many', 'ps1 1', 'ps1 1, 2', AC, procs=P_SUB1)
add('R09', 'sub_nocall_too_few', 'ps2 1, "b"', 'ps2 1', AC, procs=P_SUB2)
add('R09', 'sub0_with_arg', 'call ps0', 'call ps0(1)', AC, procs=P_SUB0)
add('R09', 'fn_too_many', 'nv% = pf1%(1)', 'nv% = pf1%(1, 2)', AC, procs=P_FN1)
add('R09', 'fn_too_few', 'nv% = pf1%(1)', 'nv% = pf1%', AC, procs=P_FN1)
add('R09', 'fn0_with_arg', 'nv% = pf0%', 'nv% = pf0%(1)', AC, procs=P_FN0)
add('R09', 'fn_in_print', 'print pf1%(1)', 'print pf1%(1, 2, 3)', AC, procs=P_FN1)
for nm, g, b in [
        ('abs', 'nv% = abs(1)', 'nv% = abs(1, 2)'),
        ('asc', 'nv% = asc("a")', 'nv% = asc("a", "b")'),
        ('chr', 'sv$ = chr$(65)', 'sv$ = chr$(65, 66)'),
        ('cint', 'nv% = cint(1.5)', 'nv% = cint(1.5, 2)'),
        ('clng', 'nv& = clng(1.5)', 'nv& = clng(1.5, 2)'),
        ('instr_one', 'nv% = instr("ab", "b")', 'nv% = instr("ab")'),
        ('instr_four', 'nv% = instr(1, "ab", "b")', 'nv% = instr(1, "ab", "b", 2)'),
        ('int', 'nv% = int(1.5)', 'nv% = int(1.5, 2)'),
        ('lcase', 'sv$ = lcase$("A")', 'sv$ = lcase$("A", "B")'),
        ('left_one', 'sv$ = left$("abc", 1)', 'sv$ = left$("abc")'),
        ('left_three', 'sv$ = left$("abc", 1)', 'sv$ = left$("abc", 1, 2)'),
        ('len', 'nv% = len("a")', 'nv% = len("a", "b")'),
        ('ltrim', 'sv$ = ltrim$(" a")', 'sv$ = ltrim$(" a", " b")'),
        ('mid_one', 'sv$ = mid$("abc", 2)', 'sv$ = mid$("abc")'),
        ('mid_four', 'sv$ = mid$("abc", 2, 1)', 'sv$ = mid$("abc", 2, 1, 1)'),
        ('peek', 'nv% = peek(1)', 'nv% = peek(1, 2)'),
        ('right_one', 'sv$ = right$("abc", 1)', 'sv$ = right$("abc")'),
        ('rnd_two', 'nv! = rnd(1)', 'nv! = rnd(1, 2)'),
        ('rtrim', 'sv$ = rtrim$("a ")', 'sv$ = rtrim$("a ", "b")'),
        ('space', 'sv$ = space$(2)', 'sv$ = space$(2, 3)'),
        ('str', 'sv$ = str$(1)', 'sv$ = str$(1, 2)'),
        ('string_one', 'sv$ = string$(2, "a")', 'sv$ = string$(2)'),
        ('string_three', 'sv$ = string$(2, 65)', 'sv$ = string$(2, 65, 66)'),
        ('timer', 'nv! = timer', 'nv! = timer(1)'),
        ('ucase', 'sv$ = ucase$("a")', 'sv$ = ucase$("a", "b")'),
        ('val', 'nv! = val("1")', 'nv! = val("1", "2")'),
        ('inkey', 'sv$ = inkey$', 'sv$ = inkey$(1)'),
        ('len_none', 'print len("a")', 'print len'),
]:
    add('R09', 'builtin_' + nm, g, b, AC)
add('R09', 'builtin_lbound_three', 'nv% = lbound(av, 1)', 'nv% = lbound(av, 1, 1)', AC, decls=D_ARR)
add('R09', 'builtin_ubound_none', 'nv% = ubound(av)', 'nv% = ubound', AC, decls=D_ARR)

# ---- R10 array rank --------------------------------------------------------
WD = ('WRONG_NUMBER_OF_DIMENSIONS',)
add('R10', 'write_too_many', 'av(1) = 1', 'av(1, 1) = 1', WD, decls=D_ARR)
add('R10', 'read_too_few', 'nv% = m2(1, 1)', 'nv% = m2(1)', WD, decls=D_M2)
add('R10', 'print_too_many', 'print av(1)', 'print av(1, 2)', WD, decls=D_ARR)
add('R10', 'arg_too_many', 'call ps1(av(1))', 'call ps1(av(1, 2))', WD, decls=D_ARR, procs=P_SUB1)
add('R10', 'input_too_few', 'input m2(1, 1)', 'input m2(1)', WD, decls=D_M2)
add('R10', 'implicit_array', 'iv(1) = iv(2)', 'iv(1) = iv(2, 3)', WD)
add('R10', 'index_scalar', 'dv = 2', 'dv(1) = 2', None, decls=['dim dv as integer'])

# ---- R11 undefined type ----------------------------------------------------
TN = ('TYPE_NOT_DEFINED',)
add('R11', 'dim', 'dim uv as pt', 'dim uv as nosuch', TN, types=PT)
add('R11', 'dim_array', 'dim ua(3) as pt', 'dim ua(3) as nosuch', TN, types=PT)
add('R11', 'dim_second', 'dim u1 as pt, u2 as pt', 'dim u1 as pt, u2 as nosuch', TN, types=PT)
add('R11', 'dim_shared', 'dim shared uv as pt', 'dim shared uv as nosuch', TN, types=PT, applies=_notproc)
add('R11', 'static', 'static uv as pt', 'static uv as nosuch', TN, types=PT,
    applies=lambda c: 'bad' if c.scope != 'module' else None)
add('R11', 'sub_param', 'call pup(rv)', 'call pup(rv)', TN, types=PT, decls=D_REC,
    procs=['sub pup (a as pt)', 'print a.px', 'end sub'],
    bad_procs=['sub pup (a as nosuch)', 'print 1', 'end sub'], where='procs', at=0)
add('R11', 'function_param', 'nv% = pfp%(rv)', 'nv% = pfp%(rv)', TN, types=PT, decls=D_REC,
    procs=['function pfp% (a as pt)', 'pfp% = a.px', 'end function'],
    bad_procs=['function pfp% (a as nosuch)', 'pfp% = 1', 'end function'], where='procs', at=0)
add('R11', 'field_type', 'rv.px = 1', 'rv.px = 1', TN, types=PT + ['type pw', 'wp as pt', 'end type'],
    bad_types=PT + ['type pw', 'wp as nosuch', 'end type'], decls=D_REC, where='types', at=5,
    also=[('types', 4)])

# ---- R12 undefined field ---------------------------------------------------
EN = ('ELEMENT_NOT_DEFINED',)
add('R12', 'write', 'rv.px = 1', 'rv.pz = 1', EN, types=PT, decls=D_REC)
add('R12', 'read', 'nv% = rv.px', 'nv% = rv.pz', EN, types=PT, decls=D_REC)
add('R12', 'print', 'print rv.py', 'print rv.pz', EN, types=PT, decls=D_REC)
add('R12', 'arg', 'call ps1(rv.px)', 'call ps1(rv.pz)', EN, types=PT, decls=D_REC, procs=P_SUB1)
add('R12', 'array_elem', 'ra(1).px = 1', 'ra(1).pz = 1', EN, types=PT, decls=['dim ra(2) as pt'])
add('R12', 'input', 'input rv.px', 'input rv.pz', EN, types=PT, decls=D_REC)
add('R12', 'condition', 'if rv.px then print 1', 'if rv.pz then print 1', EN, types=PT, decls=D_REC)
add('R12', 'field_of_scalar_field', 'nv% = rv.px', 'nv% = rv.px.qq', None, types=PT, decls=D_REC)

# ---- R13 undefined procedure / SUB <-> FUNCTION confusion -----------------
SN = ('SUBPROGRAM_NOT_FOUND',)
add('R13', 'call_undefined', 'call ps0', 'call nosub', SN, procs=P_SUB0)
add('R13', 'call_undefined_args', 'call ps1(1)', 'call nosub(1)', SN, procs=P_SUB1)
add('R13', 'nocall_undefined', 'ps1 1', 'nosub 1', SN, procs=P_SUB1)
add('R13', 'bare_undefined', 'ps0', 'nosub', SN, procs=P_SUB0)
add('R13', 'call_function_as_sub', 'call ps1(1)', 'call pf1(1)', SN + DD, procs=P_SUB1 + P_FN1)
add('R13', 'sub_as_function', 'nv% = pf1%(1)', 'nv% = ps1(1)', SN + DD, procs=P_SUB1 + P_FN1)
add('R13', 'sub_in_print', 'print pf1%(1)', 'print ps1(1)', SN + DD, procs=P_SUB1 + P_FN1)
add('R13', 'function_wrong_suffix', 'nv% = pf1%(1)', 'sv$ = pf1$(1)', None, procs=P_FN1)

# ---- R14 misplaced EXIT ----------------------------------------------------
IE = ('INVALID_EXIT',)
add('R14', 'exit_for', 'print 1', 'exit for', IE, applies=lambda c: 'valid' if 'for' in c.tags else 'bad')
add('R14', 'exit_do', 'print 1', 'exit do', IE, applies=lambda c: 'valid' if 'do' in c.tags else 'bad')
add('R14', 'exit_sub', 'print 1', 'exit sub', IE, applies=lambda c: 'valid' if c.scope == 'sub' else 'bad')
add('R14', 'exit_function', 'print 1', 'exit function', IE,
    applies=lambda c: 'valid' if c.scope == 'function' else 'bad')
add('R14', 'exit_for_in_do', ['do', 'print 1', 'loop'], ['do', 'exit for', 'loop'], IE, at=1,
    applies=lambda c: 'valid' if 'for' in c.tags else 'bad')
add('R14', 'exit_do_in_for', ['for k1% = 1 to 2', 'print 1', 'next'], ['for k1% = 1 to 2', 'exit do', 'next'],
    IE, at=1, applies=lambda c: 'valid' if 'do' in c.tags else 'bad')
add('R14', 'exit_do_in_while', ['while nv%', 'print 1', 'wend'], ['while nv%', 'exit do', 'wend'], IE, at=1,
    applies=lambda c: 'valid' if 'do' in c.tags else 'bad')

# ---- R15 misplaced ELSE / ELSEIF ------------------------------------------
def _else_app(c):
    if c.oneline and ('if' in c.tags or c.inner in ('if1_then', 'if1_else')):
        return None        # ELSE after THEN / after a colon inside an IF block: not specified here
    if c.inner_kind == 'if':
        if c.base != 'b1':
            return None    # base 2 puts ELSEIF/ELSE parts around the slot
        return 'bad' if 'after_else' in c.levels[-1].tags else 'valid'
    return 'bad'


def _else_codes(c):
    return None if 'if' in c.tags else ('ELSE_WITHOUT_IF',)


def _else_site(c):
    # slot of the ELSE-part context: the text is a second ELSE part of that block
    if c.inner_kind == 'if' and 'after_else' in c.levels[-1].tags:
        return 'else-part-after-else'
    return None


for _nm, _b in [('else', 'else'), ('elseif', 'elseif nv% then'), ('elseif_with_stmt', 'elseif nv% then print 2')]:
    add('R15', _nm, ['print 1'], [_b], applies=_else_app, codes_fn=_else_codes, oneline=True, structural=True,
        construct=_else_site)
# second ELSE / ELSEIF after the ELSE of the same block
add('R15', 'else_after_else', ['if nv% then', 'print 1', 'else', 'print 2', 'end if'],
    ['if nv% then', 'print 1', 'else', 'print 2', 'else', 'print 3', 'end if'], None, at=4, structural=True,
    also=[('slot', 2)], construct='else-part-after-else')
add('R15', 'elseif_after_else', ['if nv% then', 'print 1', 'else', 'print 2', 'end if'],
    ['if nv% then', 'print 1', 'else', 'print 2', 'elseif nv% = 2 then', 'print 3', 'end if'], None, at=4,
    structural=True, also=[('slot', 2)], construct='else-part-after-else')
add('R15', 'else_in_inner_loop', ['if nv% then', 'for k1% = 1 to 2', 'print 1', 'next', 'else', 'end if'],
    ['if nv% then', 'for k1% = 1 to 2', 'else', 'next', 'end if'], None, at=2, structural=True)

# ---- R16 misplaced CASE ----------------------------------------------------
def _case_app(c):
    if c.levels and 'direct_select' in c.levels[-1].tags:
        return 'valid' if c.base == 'b1' else None    # base 2: slot sits after CASE ELSE
    if c.oneline and c.inner == 'colon' and 'select' in c.tags:
        return None
    return 'bad'


def _case_codes(c):
    return None if 'select' in c.tags else ('CASE_WITHOUT_SELECT',)


for _nm, _b in [('case', 'case 1'), ('case_else', 'case else'), ('case_range', 'case 1 to 2, is > 5')]:
    add('R16', _nm, ['print 1'], [_b], applies=_case_app, codes_fn=_case_codes, oneline=True, structural=True)
add('R16', 'case_in_inner_loop', ['select case nv%', 'case 1', 'for k1% = 1 to 2', 'next', 'case 2', 'end select'],
    ['select case nv%', 'case 1', 'for k1% = 1 to 2', 'case 2', 'next', 'end select'], None, at=3,
    structural=True)
add('R16', 'stmt_before_first_case', ['select case nv%', 'case 1', 'print 1', 'end select'],
    ['select case nv%', 'print 1', 'case 1', 'end select'], None, at=1, also=[('slot', 0)], structural=True)

# ---- R17 terminator without opener ----------------------------------------
TERMS = [('end_if', 'end if', 'if'), ('next', 'next', 'for'), ('next_var', 'next nv%', 'for'),
         ('loop', 'loop', 'do'), ('loop_while', 'loop while nv%', 'do'), ('wend', 'wend', 'while'),
         ('end_select', 'end select', 'select'), ('end_sub', 'end sub', 'sub'),
         ('end_function', 'end function', 'function'), ('end_type', 'end type', 'type')]
for nm, t, kind in TERMS:
    add('R17', nm, ['print 1'], [t], None, oneline=True, structural=True)

# ---- R18 unclosed block ----------------------------------------------------
OPENERS = [('if', ['if nv% then', 'print 1'], 'end if'),
           ('if_else', ['if nv% then', 'print 1', 'else', 'print 2'], 'end if'),
           ('for', ['for k1% = 1 to 2', 'print 1'], 'next'),
           ('do', ['do', 'print 1'], 'loop'),
           ('do_while', ['do while nv%', 'print 1'], 'loop'),
           ('while', ['while nv%', 'nv% = 0'], 'wend'),
           ('select', ['select case nv%', 'case 1', 'print 1'], 'end select'),
           ('nested_inner', ['for k1% = 1 to 2', 'if nv% then', 'print 1', 'next'], None)]
def _unclosed_if_site(c):
    # base 2 puts ELSEIF / ELSE parts after the slot: an unclosed IF..ELSE there
    # swallows them, i.e. the text has an ELSE part after an ELSE
    if c.levels and c.levels[-1].single is None and \
            any(l.split()[0] in ('else', 'elseif') for l in c.levels[-1].close):
        return 'else-part-after-else'
    return None


for nm, body, term in OPENERS:
    if term is None:
        add('R18', nm, ['for k1% = 1 to 2', 'if nv% then', 'print 1', 'end if', 'next'], body, None,
            at=1, also=[('slot', 3), ('slot', 0)], structural=True)
    else:
        add('R18', nm, body + [term], body, None, at=0, structural=True,
            construct=_unclosed_if_site if nm == 'if_else' else None)
add('R18', 'sub', 'call ps0', 'call ps0', None, procs=P_SUB0 + ['sub pq', 'print 1', 'end sub'],
    bad_procs=P_SUB0 + ['sub pq', 'print 1'], where='procs', at=3, structural=True)
add('R18', 'function', 'call ps0', 'call ps0', None, procs=P_SUB0 + ['function pq', 'pq = 1', 'end function'],
    bad_procs=P_SUB0 + ['function pq', 'pq = 1'], where='procs', at=3, structural=True)
add('R18', 'type', 'rv.px = 1', 'rv.px = 1', None, types=PT, bad_types=PT[:-1], decls=D_REC, where='types',
    at=0, structural=True)

# ---- R19 mismatched terminator --------------------------------------------
MIS = [('for_wend', ['for k1% = 1 to 2', 'print 1'], 'next', 'wend'),
       ('for_loop', ['for k1% = 1 to 2', 'print 1'], 'next k1%', 'loop'),
       ('for_end_if', ['for k1% = 1 to 2', 'print 1'], 'next', 'end if'),
       ('do_next', ['do', 'print 1'], 'loop', 'next'),
       ('do_wend', ['do until nv%', 'print 1'], 'loop', 'wend'),
       ('while_loop', ['while nv%', 'nv% = 0'], 'wend', 'loop'),
       ('while_next', ['while nv%', 'nv% = 0'], 'wend', 'next'),
       ('if_next', ['if nv% then', 'print 1'], 'end if', 'next'),
       ('if_end_select', ['if nv% then', 'print 1'], 'end if', 'end select'),
       ('select_end_if', ['select case nv%', 'case 1', 'print 1'], 'end select', 'end if'),
       ('select_loop', ['select case nv%', 'case 1', 'print 1'], 'end select', 'loop')]
for nm, body, term, wrong in MIS:
    add('R19', nm, body + [term], body + [wrong], None, at=len(body), also=[('slot', 0)], structural=True)
add('R19', 'sub_end_function', 'call ps0', 'call ps0', None, procs=P_SUB0 + ['sub pq', 'print 1', 'end sub'],
    bad_procs=P_SUB0 + ['sub pq', 'print 1', 'end function'], where='procs', at=5, also=[('procs', 3)],
    structural=True)
add('R19', 'function_end_sub', 'call ps0', 'call ps0', None,
    procs=P_SUB0 + ['function pq', 'pq = 1', 'end function'],
    bad_procs=P_SUB0 + ['function pq', 'pq = 1', 'end sub'], where='procs', at=5, also=[('procs', 3)],
    structural=True)
add('R19', 'type_end_sub', 'rv.px = 1', 'rv.px = 1', None, types=PT, bad_types=PT[:-1] + ['end sub'],
    decls=D_REC, where='types', at=3, also=[('types', 0)], structural=True)

# ---- R20 illegal numeric literal ------------------------------------------
for nm, g, b in [
        ('integer_overflow', 'nv% = 32767%', 'nv% = 32768%'),
        ('integer_fraction', 'nv% = 2%', 'nv% = 2.5%'),
        ('long_overflow', 'nv& = 2147483647&', 'nv& = 2147483648&'),
        ('long_fraction', 'nv& = 2&', 'nv& = 2.5&'),
        ('string_suffix', 'nv% = 100', 'nv% = 100$'),
        ('single_overflow', 'nv! = 1e38', 'nv! = 1e39'),
        ('single_overflow_suffix', 'nv! = 3.4e38!', 'nv! = 3.5e38!'),
        ('exp_wrong_suffix', 'nv# = 1d5#', 'nv# = 1d5!'),
        ('hex_overflow', 'nv% = &h7fff%', 'nv% = &h10000%'),
        ('hex_bad_suffix', 'nv% = &h10', 'nv% = &h10!'),
        ('octal_digit', 'nv% = &o17', 'nv% = &o18'),
        ('in_print', 'print 32767%', 'print 40000%'),
        ('in_condition', 'if nv% = 1% then print 1', 'if nv% = 1.5% then print 1'),
        ('two_points', 'nv! = 1.5', 'nv! = 1.5.2'),
]:
    add('R20', nm, g, b, None)
for nm, g, b in [
        ('double_overflow', 'nv# = 1d308', 'nv# = 1d400'),
        ('double_overflow_suffix', 'nv# = 1.5d308#', 'nv# = 1.5d309#'),
        ('single_overflow_huge', 'nv! = 1e38', 'nv! = 1e400'),
        ('double_overflow_in_print', 'print 2d307', 'print 2d999'),
]:
    add('R20', nm, g, b, None, construct='float-literal-beyond-double-range')

# ---- R21 non-constant CONST ------------------------------------------------
IC = ('INVALID_CONSTANT',)
add('R21', 'variable', 'const kn = 5', 'const kn = nv%', IC)
add('R21', 'variable_expr', 'const kn = 5 + 1', 'const kn = nv% + 1', IC)
add('R21', 'array_elem', 'const kn = 5', 'const kn = av(1)', IC, decls=D_ARR)
add('R21', 'field', 'const kn = 5', 'const kn = rv.px', IC, types=PT, decls=D_REC)
add('R21', 'user_function', 'const kn = 5', 'const kn = pf1%(1)', IC, procs=P_FN1)
add('R21', 'string_var', 'const kn$ = "a" + "b"', 'const kn$ = "a" + sv$', IC)
add('R21', 'other_const_ok', 'const kn = kc * 2', 'const kn = kc * vq', IC, decls=['const kc = 2', 'vq = 1'])

# ---- R22 declarations in the wrong place ----------------------------------
IS = ('ILLEGAL_IN_SUB',)


def _in_proc(c):
    if c.scope != 'module':
        return 'bad'
    return 'valid' if not c.levels else None


def _in_proc_stmt(c):
    if c.scope != 'module':
        return 'bad'
    return None if c.oneline else 'valid'


def _static_app(c):
    if c.scope == 'module':
        return 'bad'
    return None if c.oneline else 'valid'


add('R22', 'sub_in_proc', ['print 1'], ['sub inner1', 'print 1', 'end sub'], IS, applies=_in_proc)
add('R22', 'function_in_proc', ['print 1'], ['function inner2', 'inner2 = 1', 'end function'], IS, applies=_in_proc)
add('R22', 'type_in_proc', ['print 1'], ['type inner3', 'q as integer', 'end type'], IS, applies=_in_proc)
add('R22', 'data_in_proc', 'print 1', 'data 1, 2', IS, applies=_in_proc_stmt, oneline=False)
add('R22', 'dim_shared_in_proc', 'dim dw as integer', 'dim shared dw as integer', IS, applies=_in_proc_stmt)
add('R22', 'dim_shared_array_in_proc', 'dim dw(2) as integer', 'dim shared dw(2) as integer', IS,
    applies=_in_proc_stmt)
add('R22', 'static_at_module', 'dim dw as integer', 'static dw as integer', ('ILLEGAL_OUTSIDE_SUB',),
    applies=_static_app)
add('R22', 'static_array_at_module', 'dim dw(2)', 'static dw(2)', ('ILLEGAL_OUTSIDE_SUB',),
    applies=_static_app)

# ---- R23 illegal statement in TYPE, empty TYPE ----------------------------
IT = ('ILLEGAL_IN_TYPE_BLOCK', SYNTAX)
for nm, line in [('print', 'print 1'), ('assignment', 'nv% = 1'), ('dim', 'dim q as integer'),
                 ('untyped_field', 'q'), ('for', 'for k1% = 1 to 2'), ('label', 'tl: pq as integer')]:
    add('R23', nm + '_in_type', 'rv.px = 1', 'rv.px = 1', IT if nm != 'for' else None, types=PT,
        bad_types=['type pt', 'px as integer', line, 'py as long', 'end type'], decls=D_REC,
        where='types', at=2, also=[('types', 0)] + ([('types', 4)] if nm == 'for' else []))
add('R23', 'empty_type', 'nv% = 1', 'nv% = 1', None, types=PT, bad_types=PT + ['type pe', 'end type'],
    where='types', at=4, also=[('types', 5)])
add('R23', 'field_outside_type', 'print 1', 'q as integer', None)
add('R23', 'type_local', ['type tloc', 'q as integer', 'end type'], ['type tloc', 'print 1', 'end type'], IT,
    at=1, also=[('slot', 0)], applies=lambda c: 'bad' if c.scope == 'module' and not c.levels else None)

# ---- R24 lower bound above upper bound ------------------------------------
ID = ('INVALID_DIMENSIONS',)
add('R24', 'dim_range', 'dim bv(1 to 3) as integer', 'dim bv(3 to 1) as integer', ID)
add('R24', 'dim_negative', 'dim bv(1)', 'dim bv(-1)', ID)
add('R24', 'dim_second_range', 'dim bv(2, 1 to 2) as long', 'dim bv(2, 2 to 1) as long', ID)
add('R24', 'dim_const_bounds', 'dim bv(kl to kh)', 'dim bv(kh to kl)', ID, decls=['const kl = 1', 'const kh = 4'])
add('R24', 'dim_shared', 'dim shared bv(1 to 3) as string', 'dim shared bv(3 to 1) as string', ID,
    applies=_notproc)
add('R24', 'static', 'static bv(1 to 3)', 'static bv(3 to 1)', ID,
    applies=lambda c: 'bad' if c.scope != 'module' else None)
add('R24', 'dim_second_decl', 'dim b1(2), b2(0 to 1)', 'dim b1(2), b2(1 to 0)', ID)

# ---- R25 FOR variable, INPUT/PRINT of a record, array without () ----------
# (`print av`, `input av`, `nv% = av` with av an array are NOT in the catalogue: QBASIC keeps
# a scalar and an array of the same name apart, so those texts are legal there)
add('R25', 'for_string_var', ['for fn% = 1 to 2', 'next'], ['for fs$ = 1 to 2', 'next'], TM)
add('R25', 'for_string_bound', ['for k1% = 1 to 2', 'next'], ['for k1% = "a" to 2', 'next'], TM)
add('R25', 'for_string_to', ['for k1% = 1 to 2', 'next'], ['for k1% = 1 to "b"', 'next'], TM)
add('R25', 'for_string_step', ['for k1% = 1 to 2 step 1', 'next'], ['for k1% = 1 to 2 step "s"', 'next'], TM)
add('R25', 'for_record_var', ['for k1% = 1 to 2', 'next'], ['for rv = 1 to 2', 'next'], TM, types=PT, decls=D_REC)
add('R25', 'input_record', 'input rv.px', 'input rv', TM, types=PT, decls=D_REC)
add('R25', 'print_record', 'print rv.px', 'print rv', TM, types=PT, decls=D_REC)
add('R25', 'print_record_second', 'print 1; rv.px', 'print 1; rv', TM, types=PT, decls=D_REC)
add('R25', 'array_arg_no_parens', 'call psa(av())', 'call psa(av)', TM, decls=D_ARR, procs=P_SUBA)
add('R25', 'array_pass_of_scalar', 'call psa(av())', 'call psa(nv%())', TM, decls=D_ARR + ['nv% = 1'], procs=P_SUBA)
add('R25', 'array_pass_in_expr', 'nv% = av(1)', 'nv% = av()', TM, decls=D_ARR)
add('R25', 'array_to_scalar_param', 'call ps1(av(1))', 'call ps1(av())', TM, decls=D_ARR, procs=P_SUB1)
add('R25', 'read_record', ['read rv.px', 'data 1'], ['read rv', 'data 1'], TM, types=PT, decls=D_REC,
    applies=_notproc, construct='read-into-record')
add('R25', 'read_record_second', 'read nv%, rv.px', 'read nv%, rv', TM, types=PT, decls=D_REC, mafter=['data 1, 2'],
    construct='read-into-record')
add('R25', 'input_record_second', 'input nv%, rv.px', 'input nv%, rv', TM, types=PT, decls=D_REC)

# ---- R26 FOR/NEXT variable mismatch, DO and LOOP both conditional ---------
BM = ('BLOCK_MISMATCH',)
add('R26', 'next_other_var', ['for k1% = 1 to 2', 'print 1', 'next k1%'], ['for k1% = 1 to 2', 'print 1', 'next k2%'],
    BM, at=2, also=[('slot', 0)])
add('R26', 'next_other_suffix', ['for k1% = 1 to 2', 'next k1%'], ['for k1% = 1 to 2', 'next k1&'], BM, at=1,
    also=[('slot', 0)])
add('R26', 'nested_next_swapped', ['for k1% = 1 to 2', 'for k2% = 1 to 2', 'next k2%', 'next k1%'],
    ['for k1% = 1 to 2', 'for k2% = 1 to 2', 'next k1%', 'next k2%'], BM, at=2, also=[('slot', 1), ('slot', 0)])
add('R26', 'next_list_swapped', ['for k1% = 1 to 2', 'for k2% = 1 to 2', 'next k2%, k1%'],
    ['for k1% = 1 to 2', 'for k2% = 1 to 2', 'next k1%, k2%'], BM, at=2, also=[('slot', 1), ('slot', 0)])
add('R26', 'next_list_too_long', ['for k1% = 1 to 2', 'for k2% = 1 to 2', 'next k2%, k1%'],
    ['for k1% = 1 to 2', 'next k1%, k2%'], None, at=1, also=[('slot', 0)], structural=True)
add('R26', 'do_loop_both_while', ['do while nv%', 'nv% = 0', 'loop'], ['do while nv%', 'nv% = 0', 'loop while nv%'],
    BM, at=2, also=[('slot', 0)])
add('R26', 'do_until_loop_until', ['do', 'nv% = 1', 'loop until nv%'], ['do until nv%', 'nv% = 1', 'loop until nv%'],
    BM, at=2, also=[('slot', 0)])

VARIANTS = V
_seen = set()
for _v in V:
    assert (_v.rule, _v.name) not in _seen, (_v.rule, _v.name)
    _seen.add((_v.rule, _v.name))
BY_KEY = {(v.rule, v.name): v for v in V}


# ---------------------------------------------------------------------------
# unrelated valid constructs (oracle (i), second half)

UNRELATED = [
    ('assign_top', 'utop', ['zq1% = 7', 'print zq1%']),
    ('if_block_end', 'uend', ['if zq2% then', 'print "u"', 'else', 'print "v"', 'end if']),
    ('for_top', 'utop', ['for zq3% = 1 to 3 step 2', 'next zq3%']),
    ('data_read_end', 'uend', ['data 1, "two"', 'read zq4%, zq5$']),
    ('gosub_end', 'uend', ['gosub zlab', 'end', 'zlab: return']),
    ('select_top', 'utop', ['select case zq6%', 'case 1 to 2', 'print 1', 'case else', 'end select']),
    ('sub_end', 'uproc', ['sub zsub (a$)', 'print a$', 'end sub']),
    ('function_end', 'uproc', ['function zfn# (a#)', 'zfn# = a# * 2', 'end function']),
    ('type_top', 'utop', ['type zt', 'za as double', 'end type', 'dim zr as zt', 'zr.za = 1.5']),
    ('while_end', 'uend', ['while zq7& > 0', 'zq7& = zq7& - 1', 'wend']),
]


# ---------------------------------------------------------------------------
# assembly

BLOCK_WORDS = {'if', 'else', 'elseif', 'end', 'for', 'next', 'do', 'loop', 'while', 'wend',
               'select', 'case', 'sub', 'function', 'type'}


def build(ctx, v, mode, unrelated=None):
    """mode: 'good' | 'bad'.  -> (text, parts) where parts maps a part name
    ('types','decls','slot','after','mafter','procs','ctx_struct', 'ctx_open',
    'ctx_close') to the list of 1-based line numbers it occupies."""
    bad = mode == 'bad'
    types = v.bad_types if (bad and v.bad_types is not None) else v.types
    decls = v.bad_decls if (bad and v.bad_decls is not None) else v.decls
    procs = v.bad_procs if (bad and v.bad_procs is not None) else v.procs
    slot = v.bad if bad else v.good
    lines = []
    parts = {k: [] for k in ('types', 'decls', 'slot', 'after', 'mafter', 'procs', 'ctx_open',
                             'ctx_close', 'ctx_block', 'unrelated')}

    def put(part, ls):
        for l in ls:
            lines.append(l)
            if part:
                parts[part].append(len(lines))
                if part in ('ctx_open', 'ctx_close') and l.split()[0] in BLOCK_WORDS:
                    parts['ctx_block'].append(len(lines))

    utop = uend = uproc = ()
    if unrelated is not None:
        _, pos, ul = unrelated
        if pos == 'utop' and ctx.first:
            pos = 'uend'
        if pos == 'utop':
            utop = ul
        elif pos == 'uend':
            uend = ul
        else:
            uproc = ul

    def body():
        put('decls', decls)
        single = None
        for lv in ctx.levels:
            if lv.single is not None:
                single = lv.single
            else:
                put('ctx_open', lv.open)
        if single is not None:
            assert len(slot) == 1
            lines.append(single.replace('@S', slot[0]))
            parts['slot'].append(len(lines))
        else:
            put('slot', slot)
        for lv in reversed(ctx.levels):
            if lv.single is None:
                put('ctx_close', lv.close)
        put('after', v.after)

    put('types', types)
    put('unrelated', utop)
    put(None, ctx.module_pre)
    if ctx.scope == 'module':
        body()
    put('mafter', v.mafter)
    put('unrelated', uend)
    put(None, ctx.module_post)
    put('procs', procs)
    if ctx.scope != 'module':
        put('ctx_open', ctx.proc_open)
        body()
        put('ctx_close', ctx.proc_close)
    put('unrelated', uproc)
    return '\n'.join(lines) + '\n', parts


def ok_lines(ctx, v, parts):
    """source lines on which the diagnostic of the faulted program may sit"""
    ok = set()

    def line(part, idx):
        ls = parts[part]
        if part == 'slot' and ctx.oneline:
            return ls[0]
        return ls[idx]

    ok.add(line(v.where, v.at))
    for part, idx in v.also:
        try:
            ok.add(line(part, idx))
        except IndexError:
            pass
    if v.structural:
        # which block is "the" unclosed / unopened / mismatched one is not
        # decidable once blocks nest: every block line of the enclosing
        # context is an acceptable place (DESIGN: opener line at module level)
        ok.update(parts['ctx_block'])
        if ctx.oneline:
            ok.update(parts['slot'])
    return ok
