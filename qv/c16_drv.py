"""C16: loop driver with *typed* observation of PRINT.

Same protocol as qv/textdrv.py (one compiled `DO: BEEP: ... LOOP` program serves
thousands of values; the environment hands out the answers of one iteration at
a time and a fresh machine takes over after a failure), plus: before every
PRINT instruction the typed operands are read from the operand stack
(`impl.print_items_at`), so the check sees the exact machine value that is
being printed - not only its text - and never has to trust the formatter under
test for the value of what came back from VAL / READ / INPUT.

textdrv.py is shared and is not edited; the tick loop is repeated here."""
from . import impl
from .textdrv import LoopEnv, Stuck

_IO = impl._IO_OPCODE


def drive(module, iterations, tick_budget=20000, snapshots=False, max_inputs=6):
    """-> (records, info); records[i] as in textdrv.drive plus
    'typed': list with one entry per executed PRINT of the iteration
    (list of ('SINGLE', 1.5) | ';' | ',' ... or None)."""
    env = LoopEnv(iterations, max_inputs=max_inputs)
    info = {'machines': 0, 'ticks': 0, 'aborted': None}
    code = module.code
    code_len = len(code)
    n = len(iterations)
    resume = None
    while env.pos < n - 1 or resume is not None:
        resumed = resume is not None
        if resumed:
            m = resume
            resume = None
        else:
            m = impl.new_machine(module, env)
            info['machines'] += 1
        cpu = m.cpu
        pos_at_start = env.pos
        snap = None
        since = 0
        end = None
        try:
            with impl.quiet():
                while not cpu.halted:
                    pc = cpu.pc
                    if pc >= code_len:
                        end = ('program-ended', 'eoc')
                        break
                    if code[pc] == _IO and code[pc + 1] == 2 and code[pc + 2] == 2 \
                            and env.cur is not None and env.skipping is None:
                        env.cur.setdefault('typed', []).append(impl.print_items_at(cpu))
                    cpu.tick()
                    info['ticks'] += 1
                    since += 1
                    if env.boundary:
                        env.boundary = False
                        since = 0
                        if snapshots:
                            snap = impl.fork_machine(m)
                    elif since > tick_budget:
                        end = ('horizon',)
                        break
        except impl.Exhausted as e:
            if env.pos >= n:
                break                      # all iterations served
            end = ('exhausted', str(e.kind))
        except Stuck:
            end = ('stuck',)
        except (impl.Timeout, KeyboardInterrupt):
            raise
        except BaseException as e:        # host exception escaping tick()
            end = ('hostexc', type(e).__name__, impl._where(e.__traceback__))
        if end is None:
            hr = getattr(cpu.halt_reason, 'name', str(cpu.halt_reason))
            if hr == 'TRAP':
                end = ('trap', cpu.last_trap.name if cpu.last_trap else None)
            else:
                end = ('program-ended', hr)
        was_skipping = env.skipping is not None
        env.skipping = None
        if env.cur is None or was_skipping or (env.pos == pos_at_start and not resumed):
            env.preamble['end'] = end
            info['aborted'] = end
            break
        if env.cur['end'] is None:
            env.cur['end'] = end
        if snapshots and snap is not None and iterations[env.pos].get('skip') is not None:
            env.start_skip()
            resume = snap
    info['preamble'] = env.preamble
    info['other_device_calls'] = env.other
    return env.records, info
