"""bin/check <ID> [--tier quick|thorough] [--replay path]"""
import argparse
import importlib
import json
import os
import sys


def main():
    ap = argparse.ArgumentParser()
    ap.add_argument('prop')
    ap.add_argument('--tier', default=os.environ.get('VERIF_TIER', 'quick'),
                    choices=['quick', 'thorough'])
    ap.add_argument('--replay', default=None)
    ap.add_argument('--only', default=None,
                    help='comma separated family names (development aid; evidence is marked partial)')
    a = ap.parse_args()
    prop = a.prop.upper()
    try:
        seed = int(os.environ.get('VERIF_SEED', '0') or 0)
    except ValueError:
        seed = 0
    mod = importlib.import_module('qv.checks.' + prop.lower())
    if a.replay:
        with open(a.replay) as f:
            rec = json.load(f)
        rc = mod.replay(rec)
        sys.exit(rc or 0)
    from .runner import Check
    chk = Check(prop, a.tier, seed, level=getattr(mod, 'LEVEL', 'exploration'))
    chk.only = set(a.only.split(',')) if a.only else None
    mod.run(chk)
    # run() must end with chk.finish()
    print('HARNESS-ERROR: check returned without finish()')
    sys.exit(2)


if __name__ == '__main__':
    main()
