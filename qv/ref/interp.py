"""QB-ref: the reference interpreter (docs/REFSEM.md) over qv.spaces.ast.

    run(prog, script=None, budget=20000) -> Result

`Result.events` has the format of `qv.impl.Env.events` (consecutive prints
merged) except that the text of a numeric PRINT item whose digits REFSEM does
not fix is a marker (see `FLOAT_MARK`); `match_text` compares such a text with
an implementation text.  `Result.prints` is the list of typed item lists, one
per executed PRINT, in the format of `Outcome.prints`.  `Result.outcome` is
('normal',) | ('error', class, line, accepted_classes) | ('exhausted',).

Raises `Unspecified` (REFSEM 12: no verdict), `StaticError` (the program is
outside the well-typed subset: the generator should not have produced it) or
`Horizon` (step budget exceeded).  Shares no code with qbee/qvm.
"""
import math
import re

from ..spaces import ast as A
from . import values as V
from .values import (Val, QBError, Unspecified, INTEGER, LONG, SINGLE, DOUBLE,
                     STRING, INTEGRAL)


class StaticError(Exception):
    """not a well-typed program of the reference subset"""


class Horizon(Exception):
    pass


class _Exhausted(Exception):
    pass


class _Goto(Exception):
    def __init__(self, label):
        self.label = label


class _Return(Exception):
    def __init__(self, target):
        self.target = target


class _ExitLoop(Exception):
    def __init__(self, kind):
        self.kind = kind


class _ExitProc(Exception):
    pass


class _End(Exception):
    pass


FLOAT_MARK = '\ue000'    # \ue000<type>:<repr>\ue001  stands for one number text
PAD_MARK = '\ue002'       # stands for 1..14 blanks (comma after an unknown width)
END_MARK = '\ue001'
_NUM_RE = r'[ -]{0,2}(?:[0-9]*\.?[0-9]+(?:[eEdD][+-]?[0-9]+)?|inf|nan)'


def match_text(ref_text, impl_text):
    """does the implementation's printed text fit the reference text?"""
    if FLOAT_MARK not in ref_text and PAD_MARK not in ref_text:
        return ref_text == impl_text
    pat = []
    i = 0
    n = len(ref_text)
    while i < n:
        c = ref_text[i]
        if c == FLOAT_MARK:
            j = ref_text.index(END_MARK, i)
            pat.append(_NUM_RE)
            i = j + 1
        elif c == PAD_MARK:
            pat.append(' {1,14}')
            i += 1
        else:
            pat.append(re.escape(c))
            i += 1
    return re.fullmatch(''.join(pat), impl_text, re.S) is not None


class Result:
    __slots__ = ('events', 'prints', 'outcome', 'steps')

    def __init__(self, events, prints, outcome, steps):
        self.events = events
        self.prints = prints
        self.outcome = outcome
        self.steps = steps


# ---------------------------------------------------------------------------
# storage

class Cell:
    __slots__ = ('type', 'val')

    def __init__(self, type):
        self.type = type
        self.val = V.default(type)


class Rec:
    __slots__ = ('tname', 'fields')

    def __init__(self, tname, fields):
        self.tname = tname
        self.fields = fields      # name -> Cell | Rec


class Arr:
    __slots__ = ('spec', 'bounds', 'cells', 'interp')

    def __init__(self, spec, bounds, interp):
        self.spec = spec
        self.bounds = bounds      # [(lo, hi)]
        self.cells = {}
        self.interp = interp

    def elem(self, idx):
        for i, (lo, hi) in zip(idx, self.bounds):
            if i < lo or i > hi:
                raise QBError(V.SUBSCRIPT)
        c = self.cells.get(idx)
        if c is None:
            c = self.cells[idx] = self.interp.new_storage(self.spec)
        return c


class ArrSlot:
    """a declared array that has not been dimensioned yet (dynamic DIM not
    executed, or an array parameter)"""
    __slots__ = ('arr', 'spec')

    def __init__(self, spec, arr=None):
        self.spec = spec
        self.arr = arr


class Routine:
    def __init__(self, name, kind, params, body, static, ret):
        self.name = name
        self.kind = kind
        self.params = params      # [(name, spec, is_array)]
        self.body = body
        self.static = static
        self.ret = ret
        self.statics = {}         # name -> storage (persist)
        self.static_names = {}    # name -> decl
        self.consts = {}
        self.labels = {}
        self.decls = {}           # name -> (spec, dims, kind) from DIM/STATIC in this routine


class Frame:
    __slots__ = ('routine', 'vars', 'retcell', 'gosubs')

    def __init__(self, routine):
        self.routine = routine
        self.vars = {}
        self.retcell = None
        self.gosubs = 0


BUILTIN_TYPES = {'INTEGER': INTEGER, 'LONG': LONG, 'SINGLE': SINGLE,
                 'DOUBLE': DOUBLE, 'STRING': STRING}
DEFKIND = {'INT': INTEGER, 'LNG': LONG, 'SNG': SINGLE, 'DBL': DOUBLE, 'STR': STRING}


class Interp:
    def __init__(self, prog, script=None, budget=20000, on_empty=None):
        self.body = prog.body if isinstance(prog, A.Program) else list(prog)
        self.q = {k: list(v) for k, v in (script or {}).items()}
        self.on_empty = dict(on_empty or {})
        self.events = []
        self.prints = []
        self.budget = budget
        self.steps = 0
        self.line = None
        self.deftypes = {}
        self.types = {}           # user type name -> [(field, spec)]
        self.routines = {}
        self.shared = {}          # name -> storage
        self.shared_decl = {}     # name -> spec
        self.consts = {}          # module level consts: name -> expr
        self.data = []            # [(text | None, quoted)]
        self.data_labels = {}     # label -> index into data
        self.data_pos = 0
        self.last_rnd = None
        self.frames = []
        self.depth = 0
        self._static_pass()

    # ---- static pass -----------------------------------------------------
    def _static_pass(self):
        main_body = []
        seen_other = False
        for s in self.body:
            if isinstance(s, A.DefType):
                if seen_other:
                    raise Unspecified('DEFtype after the first statement (R1)')
                for a, b in s.ranges:
                    for c in range(ord(a.lower()), ord((b or a).lower()) + 1):
                        self.deftypes[chr(c)] = DEFKIND[s.kind]
                main_body.append(s)
                continue
            if not isinstance(s, (A.Rem, A.Declare)):
                seen_other = True
            if isinstance(s, A.Proc):
                continue
            main_body.append(s)
        for s in self.body:
            if isinstance(s, A.TypeDef):
                self.types[s.name.lower()] = [(f.lower(), self._spec_of_typename(t)) for f, t in s.fields]
        self.main = Routine('_main', 'MAIN', [], main_body, False, None)
        self.routines['_main'] = self.main
        for s in self.body:
            if isinstance(s, A.Proc):
                name = s.name.lower()
                base = name.rstrip('%&!#$')
                ret = None
                if s.kind == 'FUNCTION':
                    ret = self._name_type(name)
                params = []
                for p in s.params:
                    spec = self._spec_of_typename(p.astype) if p.astype else self._name_type(p.name.lower())
                    params.append((p.name.lower(), spec, p.array))
                if base in self.routines:
                    raise StaticError('duplicate routine')
                self.routines[base] = Routine(base, s.kind, params, s.body, s.static, ret)
        # data, labels, consts, declarations
        pending_labels = []
        for r in self.routines.values():
            for i, s in enumerate(r.body):
                if isinstance(s, A.Label):
                    key = self._label_key(s.name)
                    if any(key in rr.labels for rr in self.routines.values()):
                        raise StaticError('duplicate label')
                    r.labels[key] = i
            self._collect(r, r.body, r is self.main, pending_labels)

    def _collect(self, r, body, top, pending):
        for s in body:
            if isinstance(s, A.Label):
                pending.append(self._label_key(s.name))
            elif isinstance(s, A.Data):
                if r is not self.main:
                    raise StaticError('DATA in a procedure')
                for lab in pending:
                    self.data_labels.setdefault(lab, len(self.data))
                del pending[:]
                for it in s.items:
                    self.data.append(self._data_item(it))
            elif isinstance(s, A.Const):
                name = s.name.lower()
                tbl = self.consts if r is self.main else r.consts
                if name in tbl:
                    raise StaticError('duplicate CONST')
                tbl[name] = s.e
            elif isinstance(s, A.Dim):
                for d in s.decls:
                    spec = self._decl_spec(d)
                    name = d.name.lower()
                    if s.shared:
                        if r is not self.main:
                            raise StaticError('DIM SHARED in a procedure')
                        self.shared_decl[name] = (spec, d.dims)
                    else:
                        r.decls[name] = (spec, d.dims, 'static' if r.static else 'dim')
            elif isinstance(s, A.Static):
                if r is self.main:
                    raise StaticError('STATIC at module level')
                for d in s.decls:
                    r.decls[d.name.lower()] = (self._decl_spec(d), d.dims, 'static')
            # nested bodies
            for sub in _sub_bodies(s):
                self._collect(r, sub, False, pending)

    @staticmethod
    def _label_key(name):
        return str(name).lower()

    @staticmethod
    def _data_item(text):
        t = text.strip()
        if t.startswith('"'):
            if not t.endswith('"') or '"' in t[1:-1] or len(t) < 2:
                raise Unspecified('DATA quoting')
            return (t[1:-1], True)
        if '"' in t or ':' in t:
            raise Unspecified('DATA text')
        if t == '':
            return (None, False)
        return (t, False)

    def _spec_of_typename(self, t):
        u = t.upper()
        if u in BUILTIN_TYPES:
            return BUILTIN_TYPES[u]
        return t.lower()

    def _name_type(self, name):
        if name[-1] in V.SUFFIX:
            return V.SUFFIX[name[-1]]
        return self.deftypes.get(name[0].lower(), SINGLE)

    def _decl_spec(self, d):
        if d.astype:
            if d.name[-1] in V.SUFFIX:
                raise StaticError('suffix and AS')
            return self._spec_of_typename(d.astype)
        return self._name_type(d.name.lower())

    def new_storage(self, spec):
        if spec in V.RANK or spec == STRING:
            return Cell(spec)
        fields = self.types.get(spec)
        if fields is None:
            raise StaticError('unknown type ' + spec)
        return Rec(spec, {f: self.new_storage(fs) for f, fs in fields})

    # ---- environment -----------------------------------------------------
    def _ev(self, *ev):
        self.events.append(ev)

    def _print_text(self, text):
        if self.events and self.events[-1][0] == 'print':
            self.events[-1] = ('print', self.events[-1][1] + text)
        else:
            self.events.append(('print', text))

    DEFAULTS = {'inkey': '', 'rnd': 0.5, 'timer': 0.0, 'peek': 0}

    def _answer(self, kind):
        q = self.q.get(kind)
        if q:
            a = q.pop(0)
            if a == '!fail':
                raise QBError(V.DEVICE)
            return a
        pol = self.on_empty.get(kind, 'raise' if kind == 'input' else 'default')
        if pol == 'raise':
            raise _Exhausted()
        return self.DEFAULTS[kind]

    def tick(self, n=1):
        self.steps += n
        if self.steps > self.budget:
            raise Horizon()

    # ---- variables -------------------------------------------------------
    def _frame(self):
        return self.frames[-1]

    def _lookup(self, name, want_array=False, nsubs=0):
        """storage for a (lower-case) name in the current activation; creates
        implicit variables"""
        f = self._frame()
        r = f.routine
        st = f.vars.get(name)
        if st is not None:
            return st
        st = r.statics.get(name)
        if st is not None:
            return st
        d = r.decls.get(name)
        if d is not None:
            spec, dims, kind = d
            st = self._declare(spec, dims, execd=False)
            (r.statics if kind == 'static' else f.vars)[name] = st
            return st
        st = self.shared.get(name)
        if st is not None:
            return st
        if name in self.shared_decl:
            spec, dims = self.shared_decl[name]
            st = self.shared[name] = self._declare(spec, dims, execd=False)
            return st
        # implicit
        spec = self._name_type(name)
        if want_array:
            st = ArrSlot(spec, Arr(spec, [(0, 10)] * nsubs, self))
        else:
            st = Cell(spec)
        (r.statics if r.static else f.vars)[name] = st
        return st

    def _declare(self, spec, dims, execd):
        """storage for a declared name; arrays with constant bounds exist from
        the start, others when their DIM executes"""
        if dims is None:
            return self.new_storage(spec)
        slot = ArrSlot(spec)
        if all(_is_const_expr(lo) and _is_const_expr(hi) for lo, hi in dims):
            slot.arr = Arr(spec, self._bounds(dims), self)
        return slot

    def _bounds(self, dims):
        out = []
        for lo, hi in dims:
            l = 0 if lo is None else V.convert(self._num(self.eval(lo)), LONG).v
            h = V.convert(self._num(self.eval(hi)), LONG).v
            if l > h:
                raise QBError(V.SUBSCRIPT)
            out.append((l, h))
        return out

    @staticmethod
    def _num(v):
        if v.type == STRING:
            raise StaticError('numeric expected')
        return v

    def _const_expr(self, name):
        r = self._frame().routine
        if name in r.consts:
            return r.consts[name]
        return self.consts.get(name)

    def _is_var_name(self, name):
        return self._const_expr(name) is None and name.rstrip('%&!#$') not in self.routines

    # lvalues --------------------------------------------------------------
    def locate(self, e):
        """storage (Cell | Rec | ArrSlot) designated by an lvalue expression"""
        if isinstance(e, A.Var):
            name = e.name.lower()
            if not self._is_var_name(name):
                raise StaticError('not a variable: ' + name)
            st = self._lookup(name)
            return st
        if isinstance(e, A.Index):
            name = e.name.lower()
            subs = [V.convert(self._num(self.eval(s)), LONG).v for s in e.subs]
            st = self._lookup(name, want_array=True, nsubs=len(subs))
            if not isinstance(st, ArrSlot):
                raise StaticError('indexing a scalar')
            if st.arr is None:
                raise Unspecified('array used before its DIM executed')
            if len(st.arr.bounds) != len(subs):
                raise StaticError('wrong number of subscripts')
            return st.arr.elem(tuple(subs))
        if isinstance(e, A.Field):
            base = self.locate(e.base)
            if not isinstance(base, Rec):
                raise StaticError('field of a non-record')
            st = base.fields.get(e.field.lower())
            if st is None:
                raise StaticError('no such field')
            return st
        raise StaticError('not an lvalue')

    def is_lvalue(self, e):
        if isinstance(e, A.Var):
            return self._is_var_name(e.name.lower())
        if isinstance(e, A.Index):
            return e.name.lower().rstrip('%&!#$') not in self.routines
        return isinstance(e, A.Field)

    # ---- expressions -----------------------------------------------------
    def eval(self, e):
        if isinstance(e, A.Lit):
            return V.literal(e.text)
        if isinstance(e, A.Str):
            return Val(STRING, e.value)
        if isinstance(e, A.Paren):
            return self.eval(e.e)
        if isinstance(e, A.Var):
            name = e.name.lower()
            ce = self._const_expr(name)
            if ce is not None:
                v = self.eval(ce)
                if name[-1] in V.SUFFIX:
                    t = V.SUFFIX[name[-1]]
                    if (t == STRING) != (v.type == STRING):
                        raise StaticError('CONST type')
                    if t != STRING:
                        v = V.convert(v, t)
                return v
            if name.rstrip('%&!#$') in self.routines:
                return self.call_function(name, [])
            st = self._lookup(name)
            if not isinstance(st, Cell):
                raise StaticError('whole record / array as a value')
            return st.val
        if isinstance(e, A.Index):
            base = e.name.lower().rstrip('%&!#$')
            if base in self.routines:
                return self.call_function(e.name.lower(), e.subs)
            st = self.locate(e)
            if not isinstance(st, Cell):
                raise StaticError('record as a value')
            return st.val
        if isinstance(e, A.Field):
            st = self.locate(e)
            if not isinstance(st, Cell):
                raise StaticError('record as a value')
            return st.val
        if isinstance(e, A.Un):
            a = self.eval(e.e)
            if a.type == STRING:
                raise StaticError('unary on string')
            return V.unop(e.op, a)
        if isinstance(e, A.Bin):
            l = self.eval(e.l)
            r = self.eval(e.r)
            if (l.type == STRING) != (r.type == STRING):
                raise StaticError('string/numeric mix')
            if l.type == STRING and e.op not in ('+',) + A.CMP_OPS:
                raise StaticError('operator on strings')
            return V.binop(e.op, l, r)
        if isinstance(e, A.Builtin):
            return self.builtin(e.name.upper(), e.args)
        if isinstance(e, A.FnCall):
            return self.call_function(e.name.lower(), e.args)
        raise StaticError(f'cannot evaluate {e!r}')

    def _str(self, v):
        if v.type != STRING:
            raise StaticError('string expected')
        return v.v

    def _int_arg(self, v, t=INTEGER):
        return V.convert(self._num(v), t).v

    def builtin(self, name, args):
        ev = self.eval
        n = len(args)

        def arity(*ok):
            if n not in ok:
                raise StaticError('argument count of ' + name)
        if name == 'ABS':
            arity(1)
            a = self._num(ev(args[0]))
            return V.make(a.type, abs(a.v), a.approx)
        if name == 'ASC':
            arity(1)
            s = self._str(ev(args[0]))
            if s == '':
                raise QBError(V.IFC)
            return Val(INTEGER, _cp437_code(s[0]))
        if name == 'CHR$':
            arity(1)
            c = self._int_arg(ev(args[0]))
            if c < 0 or c > 255:
                raise QBError(V.IFC)
            return Val(STRING, _cp437_char(c))
        if name == 'CINT':
            arity(1)
            return V.convert(self._num(ev(args[0])), INTEGER)
        if name == 'CLNG':
            arity(1)
            return V.convert(self._num(ev(args[0])), LONG)
        if name == 'INT':
            arity(1)
            a = self._num(ev(args[0]))
            x = a.v if a.type in INTEGRAL else math.floor(a.v)
            return V.make(LONG, x, a.approx)
        if name == 'INSTR':
            arity(2, 3)
            start = 1
            k = 0
            if n == 3:
                start = self._int_arg(ev(args[0]), LONG)
                k = 1
            s = self._str(ev(args[k]))
            t = self._str(ev(args[k + 1]))
            if start < 1:
                raise QBError(V.IFC)
            if s == '':
                raise Unspecified('INSTR on an empty string')
            if start > len(s):
                return Val(LONG, 0)
            if t == '':
                return Val(LONG, start)
            return Val(LONG, s.find(t, start - 1) + 1)
        if name in ('LCASE$', 'UCASE$'):
            arity(1)
            s = self._str(ev(args[0]))
            f = (lambda c: c.lower()) if name == 'LCASE$' else (lambda c: c.upper())
            return Val(STRING, ''.join(f(c) if ord(c) < 128 else c for c in s))
        if name in ('LEFT$', 'RIGHT$'):
            arity(2)
            s = self._str(ev(args[0]))
            k = self._int_arg(ev(args[1]))
            if k < 0:
                raise QBError(V.IFC)
            if k == 0:
                return Val(STRING, '')
            return Val(STRING, s[:k] if name == 'LEFT$' else s[max(0, len(s) - k):])
        if name == 'LEN':
            arity(1)
            return Val(LONG, len(self._str(ev(args[0]))))
        if name == 'LTRIM$':
            arity(1)
            return Val(STRING, self._str(ev(args[0])).lstrip(' '))
        if name == 'RTRIM$':
            arity(1)
            return Val(STRING, self._str(ev(args[0])).rstrip(' '))
        if name == 'MID$':
            arity(2, 3)
            s = self._str(ev(args[0]))
            start = self._int_arg(ev(args[1]))
            ln = None
            if n == 3:
                ln = self._int_arg(ev(args[2]))
            if start < 1:
                raise QBError(V.IFC)
            if ln is not None and ln < 0:
                raise QBError(V.IFC)
            if start > len(s):
                return Val(STRING, '')
            return Val(STRING, s[start - 1:] if ln is None else s[start - 1:start - 1 + ln])
        if name == 'SPACE$':
            arity(1)
            k = self._int_arg(ev(args[0]))
            if k < 0:
                raise QBError(V.IFC)
            return Val(STRING, ' ' * k)
        if name == 'STR$':
            arity(1)
            a = self._num(ev(args[0]))
            t = V.num_text(a)
            if t is None:
                raise Unspecified('digits of a non-integral number (C16)')
            return Val(STRING, t)
        if name == 'STRING$':
            arity(2)
            k = self._int_arg(ev(args[0]))
            c = ev(args[1])
            if c.type == STRING:
                if k < 0 or c.v == '':
                    raise QBError(V.IFC)
                return Val(STRING, c.v[0] * k)
            code = self._int_arg(c)
            if k < 0 or code < 0 or code > 255:
                raise QBError(V.IFC)
            return Val(STRING, _cp437_char(code) * k)
        if name == 'VAL':
            arity(1)
            return Val(DOUBLE, _val(self._str(ev(args[0]))))
        if name in ('LBOUND', 'UBOUND'):
            arity(1, 2)
            a = args[0]
            if not isinstance(a, A.Var):
                raise StaticError('array name expected')
            st = self._lookup(a.name.lower(), want_array=True, nsubs=1)
            if not isinstance(st, ArrSlot):
                raise StaticError('not an array')
            d = 1 if n == 1 else self._int_arg(ev(args[1]), LONG)
            if st.arr is None:
                raise Unspecified('array used before its DIM executed')
            if d < 1 or d > len(st.arr.bounds):
                raise QBError(V.SUBSCRIPT)
            lo, hi = st.arr.bounds[d - 1]
            return Val(LONG, lo if name == 'LBOUND' else hi)
        if name == 'RND':
            arity(0, 1)
            x = 1.0
            if n == 1:
                x = V.convert(self._num(ev(args[0])), SINGLE).v
            if x == 0:
                if self.last_rnd is None:
                    a = self._answer('rnd')
                    self._ev('rnd', a)
                    self.last_rnd = a
            elif x < 0:
                self._ev('rnd_seeded', x)
                self.last_rnd = abs(x / 100) % 1.0
            else:
                a = self._answer('rnd')
                self._ev('rnd', a)
                self.last_rnd = a
            return V.make(SINGLE, self.last_rnd)
        if name == 'TIMER':
            arity(0)
            a = self._answer('timer')
            self._ev('timer', a)
            return V.make(SINGLE, a)
        if name == 'INKEY$':
            arity(0)
            a = self._answer('inkey')
            self._ev('inkey', a)
            return Val(STRING, a)
        if name == 'PEEK':
            arity(1)
            off = self._int_arg(ev(args[0]), LONG)
            a = self._answer('peek')
            self._ev('peek', off, a)
            return V.make(INTEGER, a)
        raise StaticError('unknown builtin ' + name)

    # ---- procedures ------------------------------------------------------
    def _bind_args(self, r, args):
        if len(args) != len(r.params):
            raise StaticError('argument count')
        bound = {}
        for (pname, spec, is_arr), a in zip(r.params, args):
            if is_arr:
                if not isinstance(a, A.ArrayArg):
                    raise StaticError('array argument expected')
                st = self._lookup(a.name.lower(), want_array=True, nsubs=1)
                if not isinstance(st, ArrSlot) or st.spec != spec:
                    raise StaticError('array argument type')
                bound[pname] = st
                continue
            if isinstance(a, A.ArrayArg):
                raise StaticError('array passed to a scalar parameter')
            if self.is_lvalue(a):
                st = self.locate(a)
                if isinstance(st, ArrSlot):
                    raise StaticError('whole array without ()')
                stype = st.type if isinstance(st, Cell) else st.tname
                if stype != spec:
                    raise StaticError('by-reference argument type mismatch')
                bound[pname] = st
            else:
                v = self.eval(a)
                if spec not in V.RANK and spec != STRING:
                    raise StaticError('record parameter needs an lvalue')
                if (spec == STRING) != (v.type == STRING):
                    raise StaticError('argument type')
                c = Cell(spec)
                c.val = v if spec == STRING else V.convert(v, spec)
                bound[pname] = c
        return bound

    def _invoke(self, r, args):
        bound = self._bind_args(r, args)
        self.depth += 1
        if self.depth > 40:
            raise Horizon()
        saved_line = self.line
        f = Frame(r)
        f.vars.update(bound)
        if r.kind == 'FUNCTION':
            f.retcell = Cell(r.ret)
        self.frames.append(f)
        try:
            try:
                self.run_body(r.body, top=True)
            except _ExitProc:
                pass
            except _Goto:
                raise StaticError('GOTO to a label outside the procedure')
            except _Return:
                raise Unspecified('RETURN without GOSUB')
        finally:
            self.frames.pop()
            self.depth -= 1
        self.line = saved_line
        return f.retcell.val if f.retcell is not None else None

    def call_function(self, name, args):
        base = name.rstrip('%&!#$')
        r = self.routines.get(base)
        if r is None or r.kind != 'FUNCTION':
            raise StaticError('not a function: ' + name)
        if name[-1] in V.SUFFIX and V.SUFFIX[name[-1]] != r.ret:
            raise StaticError('function suffix')
        return self._invoke(r, args)

    # ---- statements ------------------------------------------------------
    def assign(self, target, v):
        f = self._frame()
        r = f.routine
        if isinstance(target, A.Var) and r.kind == 'FUNCTION' and \
                target.name.lower().rstrip('%&!#$') == r.name:
            cell = f.retcell
        else:
            cell = self.locate(target)
        if not isinstance(cell, Cell):
            raise StaticError('assignment to a record / array')
        if (cell.type == STRING) != (v.type == STRING):
            raise StaticError('assignment type mismatch')
        cell.val = v if cell.type == STRING else V.convert(v, cell.type)

    def run_body(self, body, top=False):
        """execute a statement list; `top` lists (routine bodies) resolve
        GOTO targets"""
        i = 0
        n = len(body)
        while i < n:
            try:
                self.exec(body[i])
                i += 1
            except _Goto as g:
                if not top:
                    raise
                labels = self._frame().routine.labels
                if g.label not in labels:
                    raise
                self.tick()
                i = labels[g.label]

    def _run_from_label(self, label):
        """GOSUB: run from the label until RETURN"""
        f = self._frame()
        r = f.routine
        if label not in r.labels:
            raise StaticError('GOSUB target not in this routine')
        body = r.body
        i = r.labels[label]
        n = len(body)
        while True:
            if i >= n:
                raise Unspecified('fell off the end of the routine inside GOSUB')
            try:
                self.exec(body[i])
                i += 1
            except _Goto as g:
                if g.label not in r.labels:
                    raise
                self.tick()
                i = r.labels[g.label]
            except _Return as ret:
                return ret.target

    def cond(self, e):
        v = self.eval(e)
        if v.type == STRING:
            raise StaticError('string condition')
        if v.approx:
            raise Unspecified('branch on a transcendental result')
        return v.v != 0

    def exec(self, s):
        self.tick()
        if s.line is not None:
            self.line = s.line
        m = getattr(self, 'x_' + type(s).__name__, None)
        if m is None:
            raise StaticError('statement not in the reference subset: ' + type(s).__name__)
        m(s)

    def x_Rem(self, s):
        pass

    def x_Label(self, s):
        pass

    def x_Declare(self, s):
        pass

    def x_DefType(self, s):
        pass

    def x_TypeDef(self, s):
        pass

    def x_Const(self, s):
        pass

    def x_Data(self, s):
        pass

    def x_Static(self, s):
        pass

    def x_Dim(self, s):
        f = self._frame()
        r = f.routine
        for d in s.decls:
            name = d.name.lower()
            if d.dims is None:
                continue
            if all(_is_const_expr(lo) and _is_const_expr(hi) for lo, hi in d.dims):
                continue
            bounds = self._bounds(d.dims)
            if s.shared:
                spec = self.shared_decl[name][0]
                st = self.shared.get(name)
                if st is None:
                    st = self.shared[name] = ArrSlot(spec)
            else:
                st = self._lookup(name)
                spec = st.spec
            if st.arr is not None:
                raise Unspecified('array dimensioned twice')
            st.arr = Arr(spec, bounds, self)

    def x_Assign(self, s):
        v = self.eval(s.e)
        self.assign(s.target, v)

    def x_Print(self, s):
        items = []
        for it in s.items:
            if it in (';', ','):
                items.append(it)
            else:
                v = self.eval(it)
                items.append(v)
        text = ''
        col_known = True
        typed = []
        for it in items:
            if it == ';':
                typed.append(';')
            elif it == ',':
                typed.append(',')
                if col_known:
                    text += ' ' * (14 - len(text) % 14)
                else:
                    text += PAD_MARK
            elif it.type == STRING:
                typed.append((STRING, it.v))
                text += it.v
            else:
                typed.append((it.type, it.v, it.approx) if it.approx else (it.type, it.v))
                if it.type in INTEGRAL:
                    text += V.int_text(it.v) + ' '
                else:
                    text += f'{FLOAT_MARK}{it.type}:{it.v!r}{END_MARK} '
                    col_known = False
        if not items or items[-1] not in (';', ','):
            text += '\r\n'
        self.prints.append(typed)
        self._print_text(text)

    def x_Input(self, s):
        cells = []
        for t in s.targets:
            c = self.locate(t)
            if not isinstance(c, Cell):
                raise StaticError('INPUT into a record')
            cells.append(c)
        prompt = (s.prompt or '') + ('? ' if s.question else '')
        while True:
            if prompt:
                self._print_text(prompt)
            line = self._answer('input')
            self._ev('input', bool(s.same_line), line)
            vals = _input_fields(line, [c.type for c in cells])
            if vals is not None:
                break
            self._print_text('Redo from start\r\n')
            self.tick()
        for c, v in zip(cells, vals):
            c.val = v

    def x_If(self, s):
        for k, (c, body) in enumerate(s.arms):
            if s.arm_lines:
                self.line = s.arm_lines[k]
            if self.cond(c):
                self.run_body(body)
                return
        if s.else_body is not None:
            self.run_body(s.else_body)

    def x_IfLine(self, s):
        if self.cond(s.cond):
            self.run_body(s.then)
        elif s.else_ is not None:
            self.run_body(s.else_)

    def x_For(self, s):
        name = s.var.lower()
        var = A.Var(s.var)
        cell = self.locate(var)
        if not isinstance(cell, Cell) or cell.type == STRING:
            raise StaticError('FOR variable')
        t = cell.type
        step = V.convert(self._num(self.eval(s.step)), t) if s.step is not None else V.make(t, 1)
        a = V.convert(self._num(self.eval(s.a)), t)
        cell = self.locate(var)
        cell.val = a
        b = V.convert(self._num(self.eval(s.b)), t)
        if step.approx or a.approx or b.approx:
            raise Unspecified('FOR over transcendental values')
        if step.v == 0:
            raise Unspecified('FOR with STEP 0')
        sg = 1 if step.v > 0 else -1
        try:
            while (cell.val.v - b.v) * sg <= 0:
                self.tick()
                self.run_body(s.body)
                self.line = s.end_line
                cell = self.locate(var)
                cell.val = V.binop('+', cell.val, step)
                cell.val = V.convert(cell.val, t)
        except _ExitLoop as x:
            if x.kind != 'FOR':
                raise

    def x_While(self, s):
        while True:
            self.line = s.line
            if not self.cond(s.cond):
                break
            self.tick()
            self.run_body(s.body)

    def x_Do(self, s):
        try:
            while True:
                self.tick()
                if s.kind == 'do_while':
                    self.line = s.line
                    if not self.cond(s.cond):
                        break
                elif s.kind == 'do_until':
                    self.line = s.line
                    if self.cond(s.cond):
                        break
                self.run_body(s.body)
                if s.kind == 'loop_while':
                    self.line = s.end_line
                    if not self.cond(s.cond):
                        break
                elif s.kind == 'loop_until':
                    self.line = s.end_line
                    if self.cond(s.cond):
                        break
        except _ExitLoop as x:
            if x.kind != 'DO':
                raise

    def x_Exit(self, s):
        if s.what in ('DO', 'FOR'):
            raise _ExitLoop(s.what)
        r = self._frame().routine
        if r.kind != s.what:
            raise StaticError('EXIT ' + s.what + ' outside one')
        raise _ExitProc()

    def x_Select(self, s):
        sel = self.eval(s.e)
        if sel.approx:
            raise Unspecified('SELECT on a transcendental value')
        st = sel.type

        def conv(e):
            v = self.eval(e)
            if (v.type == STRING) != (st == STRING):
                raise StaticError('CASE type')
            return v if st == STRING else V.convert(v, st)
        for k, (clauses, body) in enumerate(s.cases):
            if s.case_lines:
                self.line = s.case_lines[k]
            hit = False
            # all clauses of a CASE are evaluated (their values may fail)
            for cl in clauses:
                if cl[0] == 'val':
                    r = V.binop('=', sel, conv(cl[1])).v
                elif cl[0] == 'range':
                    lo = conv(cl[1])
                    hi = conv(cl[2])
                    r = V.binop('>=', sel, lo).v and V.binop('<=', sel, hi).v
                else:
                    r = V.binop(cl[1], sel, conv(cl[2])).v
                hit = hit or bool(r)
            if hit:
                self.run_body(body)
                return
        if s.else_body is not None:
            self.run_body(s.else_body)

    def x_Goto(self, s):
        raise _Goto(self._label_key(s.target))

    def x_Gosub(self, s):
        saved = self.line
        target = self._run_from_label(self._label_key(s.target))
        if target is not None:
            raise _Goto(self._label_key(target))
        self.line = saved

    def x_Return(self, s):
        raise _Return(s.target)

    def x_End(self, s):
        raise _End()

    def x_CallSub(self, s):
        r = self.routines.get(s.name.lower())
        if r is None or r.kind != 'SUB':
            raise StaticError('not a SUB: ' + s.name)
        self._invoke(r, s.args)

    def x_Read(self, s):
        for t in s.targets:
            cell = self.locate(t)
            if not isinstance(cell, Cell):
                raise StaticError('READ into a record')
            if self.data_pos >= len(self.data):
                raise QBError(V.DEVICE)
            text, quoted = self.data[self.data_pos]
            if cell.type == STRING:
                cell.val = Val(STRING, text or '')
            else:
                if text is None:
                    cell.val = V.default(cell.type)
                else:
                    x = _plain_number(text, cell.type in INTEGRAL)
                    if x is None or quoted:
                        if _looks_numeric(text):
                            raise Unspecified('DATA numeral form (C15/C16)')
                        raise QBError(V.DEVICE)
                    try:
                        cell.val = V.make(cell.type, x)
                    except QBError:
                        raise QBError(V.OVERFLOW, (V.DEVICE,))
            self.data_pos += 1

    def x_Restore(self, s):
        if s.target is None:
            self.data_pos = 0
            return
        key = self._label_key(s.target)
        if key not in self.data_labels:
            raise Unspecified('RESTORE to a label without DATA')
        self.data_pos = self.data_labels[key]

    def x_Randomize(self, s):
        v = V.convert(self._num(self.eval(s.e)), SINGLE)
        self._ev('dev', 'rng', 'seed', v.v)

    def x_Dev(self, s):
        k = s.kind
        ev = self.eval

        def arg(i, t=INTEGER, missing=-1):
            if i >= len(s.args) or s.args[i] is None:
                return missing
            return V.convert(self._num(ev(s.args[i])), t).v
        if k == 'CLS':
            self._ev('dev', 'terminal', 'cls')
        elif k == 'BEEP':
            self._ev('dev', 'pcspkr', 'beep')
        elif k == 'COLOR':
            a = [arg(0), arg(1), arg(2)]
            self._ev('dev', 'terminal', 'color', *a)
        elif k == 'LOCATE':
            row, col, cur = arg(0), arg(1), arg(2)
            if len(s.args) > 3:
                raise Unspecified('LOCATE cursor shape')
            if row >= 1:
                row -= 1
            if col >= 1:
                col -= 1
            self._ev('dev', 'terminal', 'locate', row, col, cur, -1, -1)
        elif k == 'SCREEN':
            if len([a for a in s.args if a is not None]) != 1:
                raise Unspecified('SCREEN with more than the mode')
            self._ev('dev', 'terminal', 'set_mode', arg(0), -1, -1, -1)
        elif k == 'WIDTH':
            self._ev('dev', 'terminal', 'width', arg(0), arg(1))
        elif k == 'VIEWPRINT':
            if s.args:
                self._ev('dev', 'terminal', 'view_print', arg(0), arg(1))
            else:
                self._ev('dev', 'terminal', 'view_print', -1, -1)
        elif k == 'SOUND':
            f = arg(0)
            d = arg(1, LONG)
            self._ev('dev', 'pcspkr', 'sound', f, d)
        elif k == 'PLAY':
            self._ev('dev', 'pcspkr', 'play', self._str(ev(s.args[0])))
        elif k == 'POKE':
            off = arg(0, LONG)
            val = arg(1)
            if val < 0 or val > 255:
                raise QBError(V.IFC, (V.DEVICE,))
            self._ev('dev', 'memory', 'poke', off, val)
        elif k == 'DEFSEG':
            if not s.args:
                self._ev('dev', 'memory', 'set_default_segment')
            else:
                seg = arg(0, LONG)
                if seg < 0 or seg > 65535:
                    raise QBError(V.IFC, (V.DEVICE,))
                self._ev('dev', 'memory', 'set_segment', seg)
        else:
            raise StaticError('device statement ' + k)

    # ---- top level -------------------------------------------------------
    def run(self):
        f = Frame(self.main)
        self.frames.append(f)
        outcome = ('normal',)
        try:
            self.run_body(self.main.body, top=True)
        except _End:
            pass
        except _Exhausted:
            outcome = ('exhausted',)
        except QBError as e:
            outcome = ('error', e.cls, self.line, sorted(e.accept))
        except _Goto:
            raise StaticError('GOTO to an unknown label')
        except _Return:
            raise Unspecified('RETURN without GOSUB')
        except _ExitLoop:
            raise StaticError('EXIT outside its loop')
        except RecursionError:
            raise Horizon()
        return Result(self.events, self.prints, outcome, self.steps)


def _sub_bodies(s):
    if isinstance(s, A.If):
        out = [b for _, b in s.arms]
        if s.else_body is not None:
            out.append(s.else_body)
        return out
    if isinstance(s, A.IfLine):
        return [s.then] + ([s.else_] if s.else_ is not None else [])
    if isinstance(s, (A.For, A.While, A.Do)):
        return [s.body]
    if isinstance(s, A.Select):
        out = [b for _, b in s.cases]
        if s.else_body is not None:
            out.append(s.else_body)
        return out
    return []


def _is_const_expr(e):
    """syntactically constant (literals and operators only); CONST names are
    treated as non-constant here, i.e. such arrays come to life when their DIM
    executes - observable only if the array is used before its DIM"""
    if e is None or isinstance(e, (A.Lit, A.Str)):
        return True
    if isinstance(e, A.Paren):
        return _is_const_expr(e.e)
    if isinstance(e, A.Un):
        return _is_const_expr(e.e)
    if isinstance(e, A.Bin):
        return _is_const_expr(e.l) and _is_const_expr(e.r)
    return False


_CP437_HIGH = bytes(range(128, 256)).decode('cp437')


def _cp437_char(code):
    # the VM hands text to the terminal as str decoded from cp437; the trace
    # is compared in that form
    return bytes([code]).decode('cp437')


def _cp437_code(ch):
    try:
        return ch.encode('cp437')[0]
    except UnicodeEncodeError:
        raise Unspecified('character outside cp437')


_VAL_RE = re.compile(r'[ \t]*([+-]?(?:[0-9]+(?:\.[0-9]*)?|\.[0-9]+)(?:[eEdD][+-]?[0-9]+)?)')


def _val(s):
    if re.match(r'[ \t]*&', s):
        raise Unspecified('VAL of hex/octal text')
    m = _VAL_RE.match(s)
    if not m:
        return 0.0
    rest = s[m.end():]
    # type suffix, embedded blanks before more digits, dangling exponent
    # letters: the numeric-prefix rule is ambiguous there
    if rest[:1] in ('%', '&', '!', '#') or re.match(r'[eEdD]', rest) or \
            re.match(r'[ \t]+[0-9.eEdD+-]', rest):
        raise Unspecified('VAL of a numeral followed by suffix/blank/exponent letter')
    t = m.group(1).lower().replace('d', 'e')
    try:
        x = float(t)
    except (ValueError, OverflowError):
        raise Unspecified('VAL numeral')
    if x in (math.inf, -math.inf):
        raise QBError(V.OVERFLOW)
    return x


_INT_RE = re.compile(r'[+-]?[0-9]+\Z')
_FLT_RE = re.compile(r'[+-]?(?:[0-9]+(?:\.[0-9]*)?|\.[0-9]+)(?:[eE][+-]?[0-9]+)?\Z')


def _plain_number(text, integral):
    t = text.strip()
    if integral:
        if _INT_RE.match(t):
            return int(t)
        return None
    if _FLT_RE.match(t):
        return float(t)
    return None


def _looks_numeric(text):
    return re.match(r'\s*[+-]?[.0-9&]', text) is not None


def _input_fields(line, types):
    """values for an INPUT answer, None if the line is rejected (redo);
    Unspecified where C18's model is needed"""
    if '"' in line:
        raise Unspecified('quoted INPUT field (C18)')
    fields = [f.strip() for f in line.split(',')]
    if len(fields) != len(types):
        return None
    out = []
    for f, t in zip(fields, types):
        if t == STRING:
            out.append(Val(STRING, f))
            continue
        x = _plain_number(f, t in INTEGRAL)
        if x is None:
            if f == '' or _looks_numeric(f):
                raise Unspecified('INPUT numeral form (C18)')
            return None
        try:
            out.append(V.make(t, x))
        except QBError:
            return None
    return out


def run(prog, script=None, budget=20000, on_empty=None):
    return Interp(prog, script, budget, on_empty).run()
