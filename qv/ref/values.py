"""QB-ref values: typed values, conversions, arithmetic (docs/REFSEM.md 2-5).

Shares no code with qbee/ or qvm/.  A value is a `Val(type, v)`; `type` is one
of INTEGER LONG SINGLE DOUBLE STRING (the same names the VM's cell types have,
so that PRINT items can be compared as (type, value) pairs).
"""
import math
import struct

INTEGER, LONG, SINGLE, DOUBLE, STRING = 'INTEGER', 'LONG', 'SINGLE', 'DOUBLE', 'STRING'
NUMERIC = (INTEGER, LONG, SINGLE, DOUBLE)
INTEGRAL = (INTEGER, LONG)
RANK = {INTEGER: 1, LONG: 2, SINGLE: 3, DOUBLE: 4}
SUFFIX = {'%': INTEGER, '&': LONG, '!': SINGLE, '#': DOUBLE, '$': STRING}
SUFFIX_OF = {v: k for k, v in SUFFIX.items()}
LIMITS = {INTEGER: (-32768, 32767), LONG: (-2 ** 31, 2 ** 31 - 1)}

OVERFLOW = 'Overflow'
DIVZERO = 'Division by zero'
SUBSCRIPT = 'Subscript out of range'
IFC = 'Illegal function call'
DEVICE = 'Device error'          # out of DATA, bad DATA text, device failure


class QBError(Exception):
    """a run-time error of the source language; `cls` is the error class,
    `accept` the set of classes the implementation may report instead
    (REFSEM leaves the class open in a few places)"""

    def __init__(self, cls, accept=()):
        Exception.__init__(self, cls)
        self.cls = cls
        self.accept = frozenset((cls,) + tuple(accept))


class Unspecified(Exception):
    """the reference refuses to judge this program (REFSEM section 12)"""


class Val:
    __slots__ = ('type', 'v', 'approx')

    def __init__(self, type, v, approx=False):
        self.type = type
        self.v = v
        self.approx = approx     # value went through a transcendental (^)

    def __repr__(self):
        return f'{self.type}({self.v!r}{"~" if self.approx else ""})'

    def item(self):
        return (self.type, self.v)


def is_numeric(t):
    return t in RANK


def to_single(x):
    """nearest binary32 by struct round trip; out of range -> Overflow"""
    if x != x or x in (math.inf, -math.inf):
        raise QBError(OVERFLOW)
    try:
        return struct.unpack('>f', struct.pack('>f', x))[0]
    except OverflowError:
        raise QBError(OVERFLOW)


def check_double(x):
    if x != x or x in (math.inf, -math.inf):
        raise QBError(OVERFLOW)
    return x


def round_half_even(x):
    """float -> int, ties to even (exact: works on the binary value)"""
    if x != x or x in (math.inf, -math.inf):
        raise QBError(OVERFLOW)
    f = math.floor(x)
    d = x - f                     # exact for doubles
    if d > 0.5:
        return f + 1
    if d < 0.5:
        return f
    return f if f % 2 == 0 else f + 1


def make(type, x, approx=False):
    """range-check / round `x` (already of the right Python kind) into `type`"""
    if type in INTEGRAL:
        lo, hi = LIMITS[type]
        if not isinstance(x, int):
            x = round_half_even(x)
        if x < lo or x > hi:
            raise QBError(OVERFLOW)
        return Val(type, x, approx)
    if type == SINGLE:
        return Val(type, to_single(float(x)), approx)
    if type == DOUBLE:
        try:
            x = float(x)
        except OverflowError:
            raise QBError(OVERFLOW)
        return Val(type, check_double(x), approx)
    if type == STRING:
        return Val(type, x)
    raise ValueError(type)


def default(type):
    return Val(type, '' if type == STRING else (0 if type in INTEGRAL else 0.0))


def convert(val, type):
    """implicit numeric conversion (REFSEM 4)"""
    if val.type == type:
        return val
    if val.type == STRING or type == STRING:
        raise TypeError(f'conversion {val.type} -> {type} is a static error')
    return make(type, val.v, val.approx)


def wider(t1, t2):
    return t1 if RANK[t1] >= RANK[t2] else t2


def arith_type(op, lt, rt):
    """static result type of a binary operator on numeric operands (REFSEM 3)"""
    if op in ('+', '-', '*', '^'):
        return wider(lt, rt)
    if op == '/':
        return DOUBLE if DOUBLE in (lt, rt) else SINGLE
    if op in ('\\', 'MOD', 'AND', 'OR', 'XOR', 'EQV', 'IMP'):
        return INTEGER if lt == rt == INTEGER else LONG
    if op in ('=', '<>', '<', '>', '<=', '>='):
        return INTEGER
    raise ValueError(op)


def _cmp(op, a, b):
    r = {'=': a == b, '<>': a != b, '<': a < b, '>': a > b,
         '<=': a <= b, '>=': a >= b}[op]
    return Val(INTEGER, -1 if r else 0)


def _pow(rt, a, b):
    """a ^ b with both operands already of type rt"""
    anyerr = (OVERFLOW, IFC, DIVZERO)
    if rt in INTEGRAL and b >= 0:
        # exact; avoid astronomically large integers
        if abs(a) > 1 and b > 64:
            raise QBError(OVERFLOW, anyerr)
        r = a ** b
        lo, hi = LIMITS[rt]
        if r < lo or r > hi:
            raise QBError(OVERFLOW, anyerr)
        return Val(rt, r)
    fa, fb = float(a), float(b)
    if fa == 0.0 and fb < 0:
        raise QBError(DIVZERO, anyerr)
    if fa < 0 and fb != math.floor(fb):
        raise QBError(IFC, anyerr)
    try:
        r = math.pow(fa, fb)
    except OverflowError:
        raise QBError(OVERFLOW, anyerr)
    except ValueError:
        raise QBError(IFC, anyerr)
    try:
        exact = (fb == math.floor(fb) and abs(fb) <= 64 and
                 fa == math.floor(fa) and abs(r) < 2.0 ** 53 and fb >= 0)
        out = make(rt, r, approx=not exact)
    except QBError:
        raise QBError(OVERFLOW, anyerr)
    return out


def binop(op, l, r):
    """l op r for two Vals (both already evaluated, left first)"""
    if l.type == STRING or r.type == STRING:
        if l.type != r.type:
            raise TypeError('string/numeric mix is a static error')
        if op == '+':
            return Val(STRING, l.v + r.v)
        if op in ('=', '<>', '<', '>', '<=', '>='):
            # comparison by code unit
            return _cmp(op, [ord(c) for c in l.v], [ord(c) for c in r.v])
        raise TypeError('operator not defined on strings')
    approx = l.approx or r.approx
    rt = arith_type(op, l.type, r.type)
    if op in ('=', '<>', '<', '>', '<=', '>='):
        w = wider(l.type, r.type)
        a, b = convert(l, w), convert(r, w)
        res = _cmp(op, a.v, b.v)
        res.approx = approx
        return res
    a, b = convert(l, rt), convert(r, rt)
    x, y = a.v, b.v
    if op == '+':
        return make(rt, x + y, approx)
    if op == '-':
        return make(rt, x - y, approx)
    if op == '*':
        try:
            return make(rt, x * y, approx)
        except OverflowError:
            raise QBError(OVERFLOW)
    if op == '/':
        if y == 0:
            raise QBError(DIVZERO)
        try:
            return make(rt, x / y, approx)
        except OverflowError:
            raise QBError(OVERFLOW)
    if op == '\\':
        if y == 0:
            raise QBError(DIVZERO)
        q = abs(x) // abs(y)
        if (x < 0) != (y < 0):
            q = -q
        return make(rt, q, approx)
    if op == 'MOD':
        if y == 0:
            raise QBError(DIVZERO)
        m = abs(x) % abs(y)
        if x < 0:
            m = -m
        return make(rt, m, approx)
    if op == '^':
        res = _pow(rt, x, y)
        res.approx = res.approx or approx
        return res
    if op == 'AND':
        return make(rt, x & y, approx)
    if op == 'OR':
        return make(rt, x | y, approx)
    if op == 'XOR':
        return make(rt, x ^ y, approx)
    if op == 'EQV':
        return make(rt, ~(x ^ y), approx)
    if op == 'IMP':
        return make(rt, (~x) | y, approx)
    raise ValueError(op)


def unop(op, a):
    if a.type == STRING:
        raise TypeError('unary operator on a string is a static error')
    if op == '+':
        return a
    if op == '-':
        return make(a.type, -a.v, a.approx)
    if op == 'NOT':
        rt = INTEGER if a.type == INTEGER else LONG
        return make(rt, ~convert(a, rt).v, a.approx)
    raise ValueError(op)


def truth(val):
    """IF / WHILE / DO: true iff non-zero, no rounding first (REFSEM 7)"""
    if val.type == STRING:
        raise TypeError('string condition is a static error')
    return val.v != 0


# ---------------------------------------------------------------------------
# literals (REFSEM 3)

def literal(text):
    """value of a numeric literal as written in the source"""
    t = text.strip().lower()
    suffix = None
    if t and t[-1] in '%&!#':
        suffix = SUFFIX[t[-1]]
        t = t[:-1]
    if t.startswith('&h') or t.startswith('&o'):
        v = int(t[2:], 16 if t[1] == 'h' else 8)
        if v > 32767:
            raise Unspecified('&H/&O literal above 32767')
        try:
            return make(suffix or INTEGER, v)
        except QBError:
            raise Unspecified('literal does not fit its type (a static error)')
    if not t or t[0] in '+-':
        raise ValueError('sign is not part of a literal: ' + text)
    if 'd' in t:
        ty = DOUBLE
        x = float(t.replace('d', 'e'))
    elif 'e' in t:
        ty = SINGLE
        x = float(t)
    elif '.' in t:
        ty = SINGLE
        x = float(t)
    else:
        x = int(t)
        ty = INTEGER if x <= 32767 else LONG
        if x > 2 ** 31 - 1 and suffix is None:
            raise Unspecified('integer literal beyond LONG')
    if suffix is not None:
        if ('d' in t and suffix != DOUBLE) or ('e' in t and 'd' not in t and suffix != SINGLE):
            raise Unspecified('exponent letter contradicts the type suffix')
        if suffix in INTEGRAL and ty not in INTEGRAL:
            raise Unspecified('fractional literal with an integral suffix')
        ty = suffix
    try:
        return make(ty, x)
    except QBError:
        raise Unspecified('literal does not fit its type (a static error)')


# ---------------------------------------------------------------------------
# number text (only what REFSEM fixes: integral values)

def int_text(n):
    return (' ' if n >= 0 else '') + str(n)


def num_text(val):
    """PRINT / STR$ text of a number without the trailing blank, or None if
    the reference does not fix the digits (REFSEM C5)"""
    if val.type in INTEGRAL:
        return int_text(val.v)
    x = val.v
    if x == 0 and math.copysign(1.0, x) < 0:
        return None
    if not val.approx and x == math.floor(x) and abs(x) < 1e6:
        return int_text(int(x))
    return None
