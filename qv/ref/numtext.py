"""C16 specification predicates on exact rationals (fractions.Fraction).

Transcribed from the property statement; three-valued in the sense that only
what the statement fixes is judged:

* INTEGER / LONG: the text is blank-or-minus followed by the plain decimal
  digits of the value (PRINT adds one blank after it).
* finite SINGLE / DOUBLE: the text is a decimal numeral, plain or in exponent
  form, with at most 7 / 17 significant digits, within half a unit of its last
  shown digit of the true value.  Not fixed by the statement and therefore not
  judged: whether a leading blank is written for non-negative values, whether a
  zero is written before the decimal point, the letter of the exponent (E or D),
  which of the admissible texts is chosen, and - for a plain numeral without a
  fraction - whether trailing zeros count as "shown digits" (the lenient
  reading is the verdict; the strict one is only counted).
"""
import re
import struct
from fractions import Fraction

MAXDIGITS = {'SINGLE': 7, 'DOUBLE': 17}
_NUM = re.compile(r'^(-?)(\d*)(?:(\.)(\d*))?(?:([EDed])([+-]?\d+))?$')


class Numeral:
    __slots__ = ('neg', 'ip', 'fp', 'point', 'expch', 'exp')

    def __init__(self, neg, ip, point, fp, expch, exp):
        self.neg, self.ip, self.point, self.fp, self.expch, self.exp = neg, ip, point, fp, expch, exp

    @property
    def notation(self):
        if self.expch:
            return 'exp'
        return 'plain-frac' if self.point else 'plain-int'

    def value(self):
        digits = int((self.ip + self.fp) or '0')
        v = Fraction(digits) * Fraction(10) ** (self.exp - len(self.fp))
        return -v if self.neg else v

    def digits(self):
        """(mantissa digits without the point, exponent part) - 'the digits shown'"""
        return (self.ip, self.fp, self.exp if self.expch else None)

    def sig_digits(self):
        d = (self.ip + self.fp).lstrip('0')
        if not self.fp:
            d = d.rstrip('0')        # trailing zeros of a whole number are place holders
        return len(d)

    def unit(self, strict=False):
        """value of one unit of the last shown digit"""
        e = self.exp - len(self.fp)
        if not strict and not self.fp:
            body = self.ip.lstrip('0')
            stripped = body.rstrip('0')
            if stripped:
                e += len(body) - len(stripped)
        return Fraction(10) ** e


def parse(body):
    """body: numeral without surrounding blanks -> Numeral or None"""
    m = _NUM.match(body)
    if not m:
        return None
    neg, ip, point, fp, expch, exp = m.groups()
    fp = fp or ''
    if not ip and not fp:
        return None
    return Numeral(neg == '-', ip, bool(point), fp, expch, int(exp) if expch else 0)


def int_text(value):
    """the text STR$ must give for an INTEGER / LONG value"""
    return ('-' if value < 0 else ' ') + str(abs(value))


def strip_lead(text):
    """number text without the optional single leading blank"""
    return text[1:] if text.startswith(' ') else text


def exact(value, typ):
    """the exact rational a machine value of the type stands for"""
    if typ == 'SINGLE':
        value = struct.unpack('>f', struct.pack('>f', value))[0]
    return Fraction(value)


def judge_float_text(text, value, typ):
    """text: what STR$ gave (leading blank allowed) -> (list of failed clauses, Numeral|None, info)"""
    n = parse(strip_lead(text))
    if n is None:
        return ['not-a-numeral'], None, {}
    bad = []
    info = {'sig_digits': n.sig_digits(), 'notation': n.notation}
    if n.sig_digits() > MAXDIGITS[typ]:
        bad.append('too-many-digits')
    x = exact(value, typ)
    err = abs(n.value() - x)
    if err > n.unit() / 2:
        bad.append('inaccurate')
    info['strict_half_unit'] = err <= n.unit(strict=True) / 2
    if (x < 0) != n.neg and x != 0:
        bad.append('wrong-sign')
    return bad, n, info


def reproduces(numeral, readback, typ):
    """'reading it back at the same type reproduces the value to that precision':
    the value read back agrees with the shown numeral to the precision shown, i.e.
    the numeral lies within half a unit of its last shown digit of it too.  (A
    correctly rounding reader always satisfies this when the text was accurate for
    the original value: the original is then a candidate at most half a unit away,
    and the nearest value of the type is at least as close.)"""
    return abs(numeral.value() - exact(readback, typ)) <= numeral.unit() / 2


def same_digits(a, b):
    """two number texts show the same digits (blanks and sign aside)"""
    return a.strip().lstrip('-') == b.strip().lstrip('-')
