"""Reference model of PRINT USING (property C19), written from the property
statement only.  Three-valued: for a statement (format string, values, ending)
the model answers either

    ('must', set_of_acceptable_texts, segments)      or
    ('unspecified', reason)

A *must* answer is a set because the statement leaves a few things open that
are decided per cell, not per statement: the direction of an exact binary tie,
the sign of a negative value that rounds to zero, `-.50` versus `%-0.50` when
only the leading zero does not fit, `2.` versus ` 2` for a field that ends in a
decimal point, and a `-` directly in front of a field (literal, or a sign
position of the field).  Anything else that the statement does not settle makes
the whole statement *unspecified* (reasons listed in UNSPECIFIED).

Field shape (numeric): optional leading `+`, one `#` followed by any mix of `#`
and `,`, optionally `.` and zero or more `#`, optionally - only without a
leading `+` - a trailing `+` or `-`.  The width of the field is the number of
characters of that shape.  Scanning is greedy from left to right.
"""
from fractions import Fraction
from functools import lru_cache

ALPHABET = '#.,+-&!_a '
CRLF = '\r\n'

UNSPECIFIED = {
    'trailing-underscore': 'the format ends in an underscore (nothing to escape)',
    'leading-point': 'a "." directly followed by "#" outside a field (field without integer digits, or a literal "." and a field)',
    'sign-before-separator': 'a "+" or "-" outside a field directly followed by "," or "."',
    'double-sign': 'a field with a leading "+" (or a "-" directly in front) that also has a "+" or "-" directly behind',
    'no-values': 'PRINT USING with no value list',
    'value-count': 'number of values differs from the number of fields',
    'type-mismatch': 'string value for a numeric field or number for a string field',
    'bang-empty': '"!" field with an empty string',
}


class Shape:
    """a numeric field"""
    __slots__ = ('plus', 'intpos', 'group', 'point', 'dec', 'trail', 'dash', 'text')

    def __init__(self, plus, intpos, group, point, dec, trail, dash, text):
        self.plus = plus          # leading '+'
        self.intpos = intpos      # positions before the point ('#' and ',')
        self.group = group        # a ',' among them
        self.point = point
        self.dec = dec            # '#' after the point
        self.trail = trail        # None | '+' | '-'
        self.dash = dash          # a '-' directly in front (ambiguous: literal or sign position)
        self.text = text          # the characters of the field (with the '-' in front, if any)

    @property
    def width(self):
        """characters of the field proper (without an ambiguous '-' in front)"""
        return (1 if self.plus else 0) + self.intpos + (1 if self.point else 0) + self.dec + \
            (1 if self.trail else 0)

    def key(self):
        return (self.plus, self.intpos, self.group, self.point, self.dec, self.trail, self.dash)

    def features(self):
        return {'plus': self.plus, 'group': self.group, 'point': self.point,
                'dec': self.dec if self.dec < 3 else '3+', 'trail': self.trail or 'none',
                'dash': self.dash, 'intpos': self.intpos if self.intpos < 3 else '3+'}


def scan(fmt):
    """-> (segments, unspecified_reason or None)
    segments: ('lit', text) | ('amp',) | ('bang',) | ('num', Shape)"""
    segs = []
    lit = []
    why = None
    n = len(fmt)
    i = 0

    def flush():
        if lit:
            segs.append(('lit', ''.join(lit)))
            del lit[:]

    def field(i, dash):
        start = i - (1 if dash else 0)
        plus = fmt[i] == '+'
        j = i + (1 if plus else 0)
        intpos = 0
        group = False
        while j < n and fmt[j] in '#,':
            intpos += 1
            group = group or fmt[j] == ','
            j += 1
        point = False
        dec = 0
        if j < n and fmt[j] == '.':
            point = True
            j += 1
            while j < n and fmt[j] == '#':
                dec += 1
                j += 1
        trail = None
        double = False
        if j < n and fmt[j] in '+-':
            if plus:
                double = True
            else:
                trail = fmt[j]
                j += 1
        return j, Shape(plus, intpos, group, point, dec, trail, dash, fmt[start:j]), double

    while i < n:
        c = fmt[i]
        nxt = fmt[i + 1] if i + 1 < n else ''
        if c == '_':
            if nxt == '':
                why = why or 'trailing-underscore'
                i += 1
            else:
                lit.append(nxt)
                i += 2
        elif c == '&':
            flush()
            segs.append(('amp',))
            i += 1
        elif c == '!':
            flush()
            segs.append(('bang',))
            i += 1
        elif c == '#' or (c == '+' and nxt == '#') or (c == '-' and nxt == '#'):
            flush()
            dash = c == '-'
            i, shape, double = field(i + (1 if dash else 0), dash)
            segs.append(('num', shape))
            if double or (dash and shape.trail):
                why = why or 'double-sign'
        elif c in '+-' and nxt in ('.', ','):
            why = why or 'sign-before-separator'
            lit.append(c)
            i += 1
        elif c == '.' and nxt == '#':
            why = why or 'leading-point'
            lit.append(c)
            i += 1
        else:
            lit.append(c)
            i += 1
    flush()
    return segs, why


def field_kinds(fmt):
    """'N' per numeric field, 'S' per & or ! field, in order"""
    segs, _ = scan(fmt)
    return ''.join('N' if s[0] == 'num' else 'S' for s in segs if s[0] != 'lit')


def _round_candidates(mag, dec):
    """mag: non-negative Fraction -> (list of scaled integers, tie?)"""
    q = mag * 10 ** dec
    lo = q.numerator // q.denominator
    rest = q - lo
    if rest * 2 < 1:
        return [lo], False
    if rest * 2 > 1:
        return [lo + 1], False
    return [lo, lo + 1], True


def _place(body, width, out):
    if len(body) <= width:
        out.add(body.rjust(width))
    else:
        out.add('%' + body)
        if body.endswith(' '):          # overflowing field with an unused trailing "-" position
            out.add('%' + body[:-1])


def _render_plain(plus, group, point, dec, trail, width, value):
    """acceptable texts of one field of `width` characters; -> (set, info)"""
    exact = Fraction(value)
    neg = exact < 0
    cands, tie = _round_candidates(abs(exact), dec)
    out = set()
    overflow = []
    for m in cands:
        ip, fp = divmod(m, 10 ** dec)
        itext = format(ip, ',') if group else str(ip)
        if point and dec:
            tails = ['.' + str(fp).rjust(dec, '0')]
        elif point:
            tails = ['.', '']
        else:
            tails = ['']
        negs = [neg] if (m != 0 or not neg) else [True, False]
        for ng in negs:
            if plus:
                pre, post = ('-' if ng else '+'), ''
            elif trail == '+':
                pre, post = '', ('-' if ng else '+')
            elif trail == '-':
                pre, post = '', ('-' if ng else ' ')
            else:
                pre, post = ('-' if ng else ''), ''
            for tl in tails:
                body = pre + itext + tl + post
                _place(body, width, out)
                overflow.append(len(body) > width)
                if ip == 0 and tl.startswith('.') and len(tl) > 1 and len(body) > width \
                        and len(body) - 1 <= width:
                    out.add((pre + tl + post).rjust(width))     # "-.50": only the leading zero does not fit
    return out, {'tie': tie, 'overflow': all(overflow), 'may_overflow': any(overflow),
                 'rounds_to_zero': 0 in cands}


@lru_cache(maxsize=200000)
def _render_cached(key, width, value, isint):
    plus, intpos, group, point, dec, trail, dash = key
    out, info = _render_plain(plus, group, point, dec, trail, width, value)
    if dash:
        # reading A: '-' is a literal in front of the field; reading B: it is one more position
        out = set('-' + t for t in out)
        outb, infob = _render_plain(plus, group, point, dec, trail, width + 1, value)
        out |= outb
        info = dict(info)
        info['overflow'] = info['overflow'] and infob['overflow']
        info['may_overflow'] = info['may_overflow'] or infob['may_overflow']
    return frozenset(out), info


def render_num(shape, value):
    """-> (frozenset of acceptable texts, info) for a python int or float"""
    return _render_cached(shape.key(), shape.width, value, isinstance(value, int))


def value_class(value):
    if isinstance(value, str):
        return {'vtype': 'string', 'vlen': min(len(value), 2)}
    f = Fraction(value)
    return {'vtype': 'int' if isinstance(value, int) else 'float',
            'vsign': 'neg' if f < 0 else 'zero' if f == 0 else 'pos',
            'integral': f.denominator == 1}


def statement(fmt, values, ending=''):
    """ending: '' | ';' | ','  (separator after the last value)
    -> ('must', frozenset of texts, parts) | ('unspecified', reason)
    parts = per segment (segment, frozenset of alternatives, value or None, info)"""
    segs, why = scan(fmt)
    if why:
        return ('unspecified', why)
    nfields = sum(1 for s in segs if s[0] != 'lit')
    if not values:
        return ('unspecified', 'no-values')
    if nfields != len(values):
        return ('unspecified', 'value-count')
    parts = []
    k = 0
    for s in segs:
        if s[0] == 'lit':
            parts.append((s, frozenset([s[1]]), None, None))
            continue
        v = values[k]
        k += 1
        if s[0] in ('amp', 'bang'):
            if not isinstance(v, str):
                return ('unspecified', 'type-mismatch')
            if s[0] == 'amp':
                parts.append((s, frozenset([v]), v, None))
            elif v == '':
                return ('unspecified', 'bang-empty')
            else:
                parts.append((s, frozenset([v[0]]), v, None))
        else:
            if isinstance(v, str):
                return ('unspecified', 'type-mismatch')
            alts, info = render_num(s[1], v)
            parts.append((s, alts, v, info))
    texts = ['']
    for _, alts, _, _ in parts:
        texts = [t + a for t in texts for a in alts]
    end = '' if ending else CRLF
    return ('must', frozenset(t + end for t in texts), parts)


def blame(parts, observed):
    """index of the first segment that the observed text (without the line end)
    cannot be matched through, by depth-first matching of the alternatives;
    -> (index, observed_rest_at_that_point) ; index == len(parts): trailing text"""
    best = [-1, observed]

    def rec(i, rest):
        if i > best[0]:
            best[0], best[1] = i, rest
        if i == len(parts):
            return rest == ''
        for a in sorted(parts[i][1], key=len, reverse=True):
            if rest.startswith(a) and rec(i + 1, rest[len(a):]):
                return True
        return False

    if rec(0, observed):
        return None, ''
    return best[0], best[1]


def _anatomy(text):
    """decompose the text of a numeric field: mark, lead blanks, sign, digits... or None"""
    t = text
    mark = t.startswith('%')
    if mark:
        t = t[1:]
    body = t.strip(' ')
    lead = len(t) - len(t.lstrip(' '))
    trailblank = len(t) - len(t.rstrip(' ')) if body else 0
    sign, where = '', 'none'
    if body[:1] in ('+', '-'):
        sign, where, body = body[0], 'lead', body[1:]
    elif body[-1:] in ('+', '-'):
        sign, where, body = body[-1], 'trail', body[:-1]
    plain = body.replace(',', '')
    ip, dot, fp = plain.partition('.')
    if not (ip + fp).isdigit() or not (ip.isdigit() or ip == '') or not (fp.isdigit() or fp == ''):
        return None
    val = Fraction(int(ip or '0') * 10 ** len(fp) + int(fp or '0'), 10 ** len(fp))
    if sign == '-':
        val = -val
    return {'mark': mark, 'lead': lead, 'trailblank': trailblank, 'sign': sign, 'where': where,
            'commas': body.count(','), 'decimals': len(fp), 'dot': bool(dot), 'value': val,
            'len': len(text), 'intdigits': ip}


def differs(expected_alts, observed):
    """behavioural class of the difference between the observed text of a
    numeric field and the closest acceptable text: '+'-joined aspects out of
    mark, decimals, value, grouping, sign, width, align, other"""
    o = _anatomy(observed)
    if o is None:
        return 'unparsable'
    best = None
    for e_text in sorted(expected_alts):
        e = _anatomy(e_text)
        if e is None:
            continue
        d = []
        if e['mark'] != o['mark']:
            d.append('mark')
        if e['decimals'] != o['decimals'] or e['dot'] != o['dot']:
            d.append('decimals')
        if abs(e['value']) != abs(o['value']):
            d.append('value')
        if e['commas'] != o['commas']:
            d.append('grouping')
        if (e['sign'], e['where']) != (o['sign'], o['where']):
            d.append('sign')
        if e['len'] != o['len']:
            d.append('width')
        if not d and (e['lead'], e['trailblank']) != (o['lead'], o['trailblank']):
            d.append('align')
        elif not d:
            d.append('other')
        elif 'width' not in d and 'mark' not in d and (e['lead'], e['trailblank']) != (o['lead'], o['trailblank']) \
                and d == ['sign']:
            d.append('align')
        if best is None or len(d) < len(best):
            best = d
    return '+'.join(best) if best else 'unparsable'


# Calibration: examples from the QBASIC manual's description of PRINT USING that
# the property statement covers; the check refuses to run if the model disagrees.
CALIBRATION = [
    ('##.##', [0.78], {' 0.78'}),
    ('###.##', [987.654], {'987.65'}),
    ('+##.##', [-68.95], {'-68.95'}),
    ('##.##-', [-68.95], {'68.95-'}),
    ('####,.##', [1234.5], {'1,234.50'}),
    ('##.##', [111.22], {'%111.22'}),
    ('_!##.##_!', [12.34], {'!12.34!'}),
    ('!', ['abc'], {'a'}),
    ('& and &', ['x', 'yz'], {'x and yz'}),
    ('###', [2.5], {'  2', '  3'}),
    ('##-', [12], {'12 '}),
    ('#.##-', [1], {'1.00 '}),
    ('##.#', [9.995], {'10.0'}),
    ('##.#', [99.95], {'%100.0'}),
    ('#,###', [1234567], {'%1,234,567'}),
    ('#.##', [-0.5], {'-.50', '%-0.50'}),
]


def calibrate():
    bad = []
    for fmt, vals, want in CALIBRATION:
        r = statement(fmt, vals, ';')
        if r[0] != 'must' or set(r[1]) != want:
            bad.append((fmt, vals, sorted(want), r[:2]))
    return bad
