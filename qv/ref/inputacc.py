"""C18 acceptance model for the INPUT statement, transcribed from the property
statement (properties.jsonl, C18).  Pure Python, no qbee imports.

Three-valued: a response line is a MUST (must be accepted), a MUSTNOT (must be
rejected) or OPEN (the statement is silent; either verdict is fine, only
consistency across configurations and well-typedness of what is stored are
demanded).

What the statement fixes
  * the text shown before a line is read: the literal prompt followed by "? "
    iff there is no prompt or the prompt is followed by a semicolon;
  * after a rejected line: "Redo from start", then the same text again;
  * a line is accepted ONLY IF it has exactly one comma-separated field per
    variable and every numeric field is a well-formed number that the type of
    its variable can hold;
  * accepted fields are assigned in order, converted to the variable types.

What is read into it (and why)
  * "well-formed number" = optional sign, decimal digits with an optional
    point, optional E exponent: [+-]?(d+[.d*]|.d+)([eE][+-]?d+)? over ASCII
    digits.  Texts that are numerals only in BASIC source syntax (&H10, 1D2,
    5%) and the empty field are OPEN.  Anything else (x, -, 1_0, nan, inf,
    1e, 1.2.3, non-ASCII digits) is malformed: MUSTNOT.
  * "its type can hold": INTEGER/LONG hold integral values in their range;
    a well-formed number with a fraction or exponent whose value lies inside
    the range (1.5, 1e2) is OPEN for an integral variable (rounding is not
    addressed by the statement), outside the range by more than rounding slack
    it is MUSTNOT.  SINGLE/DOUBLE hold every value whose magnitude does not
    exceed the largest finite value of the format; values at or above 2^128 /
    2^1024 are MUSTNOT; the sliver in between, and non-zero values below the
    smallest normal number, are OPEN.
  * blanks around a field are not mentioned: a field that is well-formed only
    after removing surrounding blanks is OPEN as to acceptance, but if it is
    accepted the value must be that of the number; a string field may keep or
    lose its surrounding blanks.
  * a line containing a double quote is OPEN altogether (quoted-field syntax
    is not described).
  * the empty line for a single variable is OPEN (one empty field or no
    field); for two or more variables it has the wrong number of fields.
"""
import re
import struct
from fractions import Fraction

TYPES = ('INTEGER', 'LONG', 'SINGLE', 'DOUBLE', 'STRING')
SUFFIX = {'INTEGER': '%', 'LONG': '&', 'SINGLE': '!', 'DOUBLE': '#', 'STRING': '$'}
NUMERIC = ('INTEGER', 'LONG', 'SINGLE', 'DOUBLE')

MUST, MUSTNOT, OPEN = 'must', 'mustnot', 'open'

REDO = 'Redo from start'

_DEC = re.compile(r'^([+-]?)([0-9]+(?:\.[0-9]*)?|\.[0-9]+)(?:[eE]([+-]?[0-9]+))?$')
_PLAININT = re.compile(r'^[+-]?[0-9]+$')
_BASICLIT = re.compile(r'^[+-]?(?:&[hH][0-9a-fA-F]+[%&]?|&[oO]?[0-7]+[%&]?|'
                       r'(?:[0-9]+(?:\.[0-9]*)?|\.[0-9]+)(?:[eEdD][+-]?[0-9]+)?[%&!#]?)$')

INT_RANGE = {'INTEGER': (-32768, 32767), 'LONG': (-2 ** 31, 2 ** 31 - 1)}
FLT_MAX = {'SINGLE': Fraction(2 ** 128 - 2 ** 104), 'DOUBLE': Fraction(2 ** 1024 - 2 ** 971)}
FLT_OVER = {'SINGLE': Fraction(2 ** 128), 'DOUBLE': Fraction(2 ** 1024)}
FLT_MINNORMAL = {'SINGLE': Fraction(1, 2 ** 126), 'DOUBLE': Fraction(1, 2 ** 1022)}


def prompt_text(prompt, sep):
    """text shown before a line is read.  prompt: str or None; sep ';' ',' None"""
    if prompt is None:
        return '? '
    return prompt + ('? ' if sep == ';' else '')


def number_value(text):
    """exact value of a well-formed number, else None"""
    m = _DEC.match(text)
    if not m:
        return None
    sign, mant, exp = m.groups()
    if '.' in mant:
        ip, fp = mant.split('.')
    else:
        ip, fp = mant, ''
    e = int(exp) if exp else 0
    if abs(e) > 5000:
        # avoid building astronomically large rationals: decide by magnitude
        digits = (ip + fp).lstrip('0')
        if not digits:
            v = Fraction(0)
        elif e > 0:
            v = Fraction(10) ** 5000
        else:
            v = Fraction(1, 10 ** 5000)
    else:
        v = Fraction(int((ip + fp) or '0')) * Fraction(10) ** (e - len(fp))
    return -v if sign == '-' else v


def field_class(text):
    """input-side class of a field text (ledger feature; not used for verdicts)"""
    t = text.strip(' \t')
    pad = 'padded-' if t != text else ''
    if t == '':
        return 'empty' if text == '' else 'blank'
    if '"' in t:
        return pad + 'quoted'
    if _PLAININT.match(t):
        return pad + 'plain-int'
    if _DEC.match(t):
        v = number_value(t)
        if abs(v) >= FLT_OVER['DOUBLE']:
            return pad + 'decimal-beyond-double'
        if abs(v) >= FLT_OVER['SINGLE']:
            return pad + 'decimal-beyond-single'
        return pad + ('exponent' if ('e' in t or 'E' in t) else 'fraction')
    if _BASICLIT.match(t):
        return pad + 'basic-literal'
    if re.match(r'^[+-]?[0-9][0-9_]*$', t) and '_' in t:
        return pad + 'underscore-digits'
    if re.match(r'^[+-]?(inf|infinity|nan)$', t, re.I):
        return pad + 'inf-nan-word'
    if t in ('-', '+'):
        return pad + 'sign-only'
    if any(ord(c) > 127 for c in t):
        return pad + 'non-ascii'
    if re.match(r'^[+-]?[0-9. ]+$', t):
        return pad + 'digits-with-blank-or-dots'
    return pad + 'text'


class FieldVerdict:
    """verdict: MUST / MUSTNOT / OPEN ; why: short reason ;
    ok(value) -> bool : is this stored python value admissible if the field is
    accepted (None = any well-typed value)"""
    __slots__ = ('verdict', 'why', 'ok', 'expect')

    def __init__(self, verdict, why, ok=None, expect=None):
        self.verdict = verdict
        self.why = why
        self.ok = ok
        self.expect = expect


def _f32(x):
    return struct.unpack('<f', struct.pack('<f', x))[0]


def _f32_neighbours(x):
    """x (a binary32 value as python float) and its two binary32 neighbours"""
    bits = struct.unpack('<I', struct.pack('<f', x))[0]
    out = [x]
    for d in (-1, 1):
        b = bits + d
        if x == 0.0:
            b = 1 if d == 1 else 0x80000001
        if 0 <= b <= 0xFFFFFFFF:
            y = struct.unpack('<f', struct.pack('<I', b))[0]
            if y == y and y not in (float('inf'), float('-inf')):
                out.append(y)
    return out


def nearest_single(v):
    """set of binary32 values nearest to the exact rational v (both on a tie)"""
    try:
        c = _f32(float(v))
    except OverflowError:
        return set()
    cands = _f32_neighbours(c)
    best = min(abs(Fraction(y) - v) for y in cands)
    return {y for y in cands if abs(Fraction(y) - v) == best}


def well_typed(value, typ):
    """the stored value is a value of the variable's type"""
    if typ == 'STRING':
        return isinstance(value, str)
    if isinstance(value, bool):
        return False
    if typ in INT_RANGE:
        lo, hi = INT_RANGE[typ]
        return isinstance(value, int) and lo <= value <= hi
    if not isinstance(value, float):
        return False
    if value != value or value in (float('inf'), float('-inf')):
        return False
    if typ == 'SINGLE':
        try:
            return _f32(value) == value
        except OverflowError:
            return False
    return True


def judge_numeric_field(text, typ):
    t = text.strip(' \t')
    padded = t != text
    if t == '':
        return FieldVerdict(OPEN, 'empty numeric field')
    v = number_value(t)
    if v is None:
        if '"' in t:
            return FieldVerdict(OPEN, 'quoted field')
        if _BASICLIT.match(t):
            return FieldVerdict(OPEN, 'BASIC source-literal syntax')
        squeezed = t.replace(' ', '').replace('\t', '')
        if number_value(squeezed) is not None:
            return FieldVerdict(OPEN, 'blanks inside a number')
        return FieldVerdict(MUSTNOT, 'not a well-formed number')
    if typ in INT_RANGE:
        lo, hi = INT_RANGE[typ]
        if v < lo - 1 or v > hi + 1:
            return FieldVerdict(MUSTNOT, f'out of range for {typ}')
        if _PLAININT.match(t):
            if v < lo or v > hi:
                return FieldVerdict(MUSTNOT, f'out of range for {typ}')
            iv = int(v)
            return FieldVerdict(OPEN if padded else MUST,
                                'blanks around a number' if padded else 'integer in range',
                                ok=lambda x, iv=iv: x == iv, expect=iv)
        # fraction / exponent syntax into an integral variable
        if v.denominator == 1 and lo <= v <= hi:
            iv = int(v)
            return FieldVerdict(OPEN, 'non-integer syntax for an integral variable',
                                ok=lambda x, iv=iv: x == iv, expect=iv)
        fl = v.numerator // v.denominator
        return FieldVerdict(OPEN, 'fractional value for an integral variable',
                            ok=lambda x, fl=fl: x in (fl, fl + 1), expect=[fl, fl + 1])
    # SINGLE / DOUBLE
    a = abs(v)
    if a >= FLT_OVER[typ]:
        return FieldVerdict(MUSTNOT, f'out of range for {typ}')
    if typ == 'SINGLE':
        near = nearest_single(v)
        ok = (lambda x, near=near: x in near)
        expect = sorted(near)
    else:
        try:
            d = float(v)
        except OverflowError:
            d = None
        ok = (lambda x, d=d: d is not None and x == d)
        expect = d
    if a > FLT_MAX[typ]:
        return FieldVerdict(OPEN, 'between the largest finite value and the overflow threshold')
    if 0 < a < FLT_MINNORMAL[typ]:
        return FieldVerdict(OPEN, 'below the smallest normal number', ok=ok, expect=expect)
    return FieldVerdict(OPEN if padded else MUST,
                        'blanks around a number' if padded else 'number in range',
                        ok=ok, expect=expect)


def judge_string_field(text):
    if '"' in text:
        return FieldVerdict(OPEN, 'quoted field')
    allowed = {text, text.lstrip(' \t'), text.strip(' \t')}
    return FieldVerdict(MUST, 'string field', ok=lambda x, allowed=allowed: x in allowed,
                        expect=sorted(allowed))


class LineVerdict:
    __slots__ = ('verdict', 'why', 'fields', 'culprit', 'fclass', 'ctype')

    def __init__(self, verdict, why, fields=None, culprit=None, fclass=None, ctype=None):
        self.verdict = verdict      # MUST / MUSTNOT / OPEN
        self.why = why
        self.fields = fields        # list of FieldVerdict (None when the line is not split)
        self.culprit = culprit      # index of the deciding field, or None
        self.fclass = fclass        # input-side class of the deciding field / line
        self.ctype = ctype          # type of the variable of the deciding field


def judge_line(line, types):
    """verdict of one response line for a variable list of the given types"""
    n = len(types)
    if '"' in line:
        return LineVerdict(OPEN, 'quoted-field syntax is not specified', fclass='quoted')
    if line == '' and n == 1:
        return LineVerdict(OPEN, 'empty line for one variable', fclass='empty-line',
                           ctype=types[0])
    fields = line.split(',')
    if line == '' or len(fields) != n:
        cls = 'empty-line' if line == '' else ('too-few-fields' if len(fields) < n else 'too-many-fields')
        return LineVerdict(MUSTNOT, f'{0 if line == "" else len(fields)} field(s) for {n} variable(s)',
                           fclass=cls)
    fvs = []
    for f, t in zip(fields, types):
        fvs.append(judge_string_field(f) if t == 'STRING' else judge_numeric_field(f, t))
    for i, fv in enumerate(fvs):
        if fv.verdict == MUSTNOT:
            return LineVerdict(MUSTNOT, f'field {i + 1}: {fv.why}', fvs, i,
                               field_class(fields[i]), types[i])
    for i, fv in enumerate(fvs):
        if fv.verdict == OPEN:
            return LineVerdict(OPEN, f'field {i + 1}: {fv.why}', fvs, i,
                               field_class(fields[i]), types[i])
    return LineVerdict(MUST, 'one well-formed field per variable', fvs, None,
                       'valid', None)


def line_class(line, types):
    """coarse input-side class of a line (ledger feature)"""
    lv = judge_line(line, types)
    return lv.fclass or 'valid'
