"""Reference tokenizer for the text of a DATA statement (C15), transcribed
from the property statement:

  * a colon outside quotes ends the statement;
  * items are separated at commas outside quotes;
  * unquoted items are trimmed of surrounding blanks;
  * quoted items are kept verbatim (blanks around the quotes do not count);
  * an empty item reads as 0 or "".

Three-valued: the statement says nothing about a quote inside an unquoted
item, about text after a closing quote, or about a quote that is never
closed; such texts are *unspecified* (the compiler must not crash on them,
nothing else is demanded).

Deliberately written as split/strip over the whole text (not as a character
automaton like the implementation's)."""

BLANKS = ' \t'

EMPTY = ('e', '')


def _outside_positions(text, ch):
    """indices of `ch` that are outside quotes, toggling at every quote"""
    out = []
    inq = False
    for i, c in enumerate(text):
        if c == '"':
            inq = not inq
        elif c == ch and not inq:
            out.append(i)
    return out


def split_statement(text):
    """-> (statement_text, remainder or None): cut at the first colon outside
    quotes"""
    cols = _outside_positions(text, ':')
    if not cols:
        return text, None
    return text[:cols[0]], text[cols[0] + 1:]


def items_of(stmt):
    """-> (status, items).  status 'spec' or 'unspec:<why>'.  items: list of
    ('u', text) unquoted / ('q', text) quoted / ('e', '') empty"""
    cuts = _outside_positions(stmt, ',')
    raws = []
    prev = 0
    for c in cuts:
        raws.append(stmt[prev:c])
        prev = c + 1
    raws.append(stmt[prev:])
    items = []
    why = None
    for raw in raws:
        body = raw.strip(BLANKS)
        if body == '':
            items.append(EMPTY)
        elif body[0] == '"':
            close = body.find('"', 1)
            if close < 0:
                why = why or 'unclosed-quote'
                items.append(('?', body))
            elif close != len(body) - 1:
                why = why or 'text-after-quote'
                items.append(('?', body))
            else:
                items.append(('q', body[1:-1]))
        elif '"' in body:
            why = why or 'quote-in-unquoted'
            items.append(('?', body))
        else:
            items.append(('u', body))
    return ('spec' if why is None else 'unspec:' + why), items


def tokenize(text):
    """-> dict(status, items, strings, remainder, must_compile)

    strings: what READ into a string variable delivers for each item (only
    when status == 'spec').  must_compile: the line `DATA <text>` has to be
    accepted (specified tokenisation and nothing but blanks/colons after the
    statement-ending colon)."""
    stmt, rest = split_statement(text)
    status, items = items_of(stmt)
    rest_blank = rest is None or rest.strip(BLANKS + ':') == ''
    return {
        'status': status,
        'items': items,
        'strings': [v for _, v in items] if status == 'spec' else None,
        'statement': stmt,
        'remainder': rest,
        'must_compile': status == 'spec' and rest_blank,
    }


def classify(text):
    """coarse input-side class of a DATA text (feature for the ledger)"""
    t = tokenize(text)
    cls = []
    if '"' in text:
        cls.append('quoted')
    if t['remainder'] is not None:
        cls.append('colon')
    if any(k == 'e' for k, _ in t['items']):
        cls.append('empty-item')
    if not cls:
        cls.append('plain')
    return t['status'] + '/' + '+'.join(cls)
