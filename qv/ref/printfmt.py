"""C17 specification model: the text one PRINT statement writes.

Transcribed from the property statement.  An element is ';' | ',' | (type,
value).  The texts of the few numbers of the C17 conformance alphabet are
constants of the model (number -> text in general is C16's subject); for other
numbers the caller passes `number_text`, a mapping (type, value) -> text that it
obtained in a history-free way (see qv/checks/c17.py, family `history`)."""

NUMBER_TEXT = {('INTEGER', 5): ' 5', ('INTEGER', -5): '-5', ('LONG', 100000): ' 100000',
               ('SINGLE', 1.5): ' 1.5', ('DOUBLE', 1.5): ' 1.5'}
ZONE = 14
EOL = '\n'


def layout(elements, number_text=None):
    if number_text is None:
        number_text = NUMBER_TEXT
    out = ''
    for e in elements:
        if e == ';':
            pass                                   # a semicolon adds nothing
        elif e == ',':
            out += ' ' * (ZONE - len(out) % ZONE)  # blanks up to the next print zone
        elif e[0] == 'STRING':
            out += e[1]                            # verbatim
        else:
            out += number_text[e] + ' '            # number text and one blank
    if not elements or elements[-1] not in (';', ','):
        out += EOL                                 # line break unless it ends in a separator
    return out


def normalise(text):
    """observed terminal text: the line break may be CR LF or LF"""
    return text.replace('\r\n', '\n')
