def run(chk):
    return {}

def replay(rec):
    return 0
