"""C02 (a) - all optimisation levels agree (program level).

Every program of a bounded generated space and of the repository corpus is
compiled at O0, O1, O2, O3 (without -g) and at O0..O3 with -g, and every
accepted module is run under every script of the program's menu.  Oracle: the
O0 build of the same -g group - same verdict (accepted / the same located
diagnostic), same device events, same end, same trap, and (in the -g group,
where the machine can name it) the same source line of the failing statement.

The generated space is built around what the two optimisation stages rewrite:
constant sub-expressions (AST fold), push+conv / push+unary / push+push+binary,
read/store pairs, jump pairs, push+jz, code after halt (peephole) - each as a
statement `atom`, alone, in pairs (triples in the thorough tier) and inside
every block construct (`wrapper`).
"""
import itertools

from . import impl, corpus

LEVELS = (0, 1, 2, 3)
HORIZON = 60000

# ---------------------------------------------------------------------------
# atoms: name -> list of source lines; {n} is replaced by the atom's position
# so that labels and declared names stay unique within one program

ATOMS = {
    # constant folding in expressions
    'Pint': ['PRINT 2 + 3 * 4'],
    'Pmix': ['PRINT 7 / 2; 7 \\ 2; 7 MOD 4; 2 ^ 3'],
    'Pstr': ['PRINT "a" + "b"; "a" < "b"'],
    'Pcmp': ['PRINT 2 < 3; 1.5 = 1.5#; NOT 0'],
    'Pneg': ['PRINT -a%; -2; - -2; NOT a%'],
    'Pvar': ['PRINT a%; b&; s$'],
    # assignments: read/store pair, conversions of literals, mixed folding
    'Aself': ['a% = a%'],
    'Ainc': ['a% = a% + 1'],
    'Acx': ['a% = 2 * 3 + a%'],
    'Arnd': ['a% = 2.5 : b& = 3.5'],
    'Along': ['b& = 70000 * 2'],
    'Asng': ['x! = 1 / 3 : PRINT x!'],
    'Adbl': ['d# = 0.1 : PRINT d#; 0.1 * 3'],
    'Astr': ['s$ = s$ + "x" + "y"'],
    # statements that fail at run time (the fold / peephole must leave them)
    'Xovf': ['a% = 20000 * 2'],
    'Xconv': ['a% = 40000'],
    'Xdiv': ['PRINT 5 \\ 0'],
    # compile-time names
    'Cnum': ['CONST c{n} = 2 * 3 : PRINT c{n}; c{n} * 2'],
    'Cstr': ['CONST t{n} = "q" : PRINT t{n} + "r"'],
    'Ddim': ['DIM r{n}(1 TO 1 + 2) AS INTEGER : r{n}(3) = 1 + 1 : PRINT r{n}(3); UBOUND(r{n})'],
    'Dcon': ['CONST n{n} = 4 : DIM q{n}(n{n}) AS LONG : q{n}(n{n}) = n{n} : PRINT q{n}(4)'],
    # environment
    'Iin': ['INPUT a%'],
    # constant and variable conditions (push + jz)
    'If0': ['IF 0 THEN PRINT 71'],
    'If1': ['IF 1 THEN PRINT 72 ELSE PRINT 73'],
    'Ifx': ['IF 2 - 2 THEN PRINT 74 ELSE PRINT 75'],
    'Ifv': ['IF a% THEN PRINT 76 ELSE PRINT 77'],
    'Ifl': ['IF 1& THEN PRINT 78'],
    'Iff': ['IF 0.4 THEN PRINT 79 ELSE PRINT 80'],
    # halting
    'End': ['END'],
    'Ifend': ['IF a% = 1 THEN END'],
    # jumps
    'Jskip': ['GOTO m{n}', 'PRINT 91', 'm{n}:'],
    'Jchain': ['GOTO u{n}', 'v{n}: PRINT 92', 'GOTO w{n}', 'u{n}: GOTO v{n}', 'w{n}:'],
    'Jgosub': ['GOSUB g{n}', 'GOTO e{n}', 'g{n}: PRINT 93', 'RETURN', 'e{n}:'],
    # blocks with constant parts
    'Bwh0': ['WHILE 0', 'PRINT 94', 'WEND'],
    'Bsel': ['SELECT CASE a%', 'CASE 0 + 0', 'PRINT 95', 'CASE 1 TO 1 + 1', 'PRINT 96', 'END SELECT'],
    'Bfor': ['FOR k{n}% = 1 + 0 TO 2 * 1 STEP 1', 'PRINT k{n}%', 'NEXT'],
    'Bdo': ['DO', 'a% = a% + 1', 'LOOP WHILE a% < 2 AND 1'],
}
ALL = list(ATOMS)
CORE = ['Pint', 'Pvar', 'Aself', 'Ainc', 'Arnd', 'Xovf', 'Cnum', 'If0', 'If1', 'End', 'Jskip', 'Jchain']
CORE_T = CORE + ['Pstr', 'Adbl', 'Xconv', 'Ddim', 'Iin', 'Ifv', 'Jgosub', 'Bsel']

# wrappers: name -> (lines before body, lines after body, lines appended after the main program)
WRAPPERS = {
    'top': ([], [], []),
    'if1': (['IF 1 THEN'], ['END IF'], []),
    'if0else': (['IF 0 THEN', 'PRINT 81', 'ELSE'], ['END IF'], []),
    'ifv': (['IF a% = 0 THEN'], ['ELSE', 'PRINT 82', 'END IF'], []),
    'while': (['WHILE z% < 2'], ['z% = z% + 1', 'WEND'], []),
    'dountil1': (['DO'], ['LOOP UNTIL 1'], []),
    'dowhile0': (['DO WHILE 0'], ['LOOP'], []),
    'for': (['FOR i% = 1 TO 2'], ['NEXT'], []),
    'forempty': (['FOR i% = 2 TO 1'], ['NEXT i%'], []),
    'select': (['SELECT CASE 1 + 1', 'CASE 1', 'PRINT 83', 'CASE 2'], ['CASE ELSE', 'PRINT 84', 'END SELECT'], []),
    'sub': (['CALL p1'], [], ['SUB p1', '@', 'END SUB']),
    'subexit': (['p2'], [], ['SUB p2', '@', 'EXIT SUB', 'PRINT 85', 'END SUB']),
    'func': (['PRINT f1%'], [], ['FUNCTION f1%', '@', 'f1% = 1 + 1', 'END FUNCTION']),
    'gosub': (['GOSUB r1', 'PRINT 86', 'END', 'r1:'], ['RETURN'], []),
    'onerror': (['ON ERROR GOTO h1'], ['PRINT 87', 'END', 'h1: PRINT "E"; ERR', 'RESUME NEXT'], []),
}
WRAP = [w for w in WRAPPERS if w != 'top']

SCRIPTS_INPUT = [{'input': ['0']}, {'input': ['1']}, {'input': ['3']}]


def render(desc):
    """desc = (wrapper names outermost first, atom names) -> source text"""
    wraps, atoms = desc
    body = []
    for i, a in enumerate(atoms):
        body += [l.replace('{n}', str(i + 1)) for l in ATOMS[a]]
    tail = []
    for w in reversed(wraps):
        pre, post, after = WRAPPERS[w]
        if after:
            tail = [x for l in after for x in (body if l == '@' else [l])] + tail
            body = list(pre) + list(post)
        else:
            body = list(pre) + body + list(post)
    lines = body + ['PRINT a%; z%'] + (['END'] + tail if tail else [])
    return '\n'.join(lines)


def gen_descs(tier):
    out = []
    for a in ALL:
        out.append((('top',), (a,)))
    for a in ALL:
        for b in ALL:
            out.append((('top',), (a, b)))
    for w in WRAP:
        for a in ALL:
            out.append(((w,), (a,)))
    core = CORE if tier == 'quick' else CORE_T
    for w in WRAP:
        for a in core:
            for b in core:
                out.append(((w,), (a, b)))
    if tier == 'thorough':
        for t in itertools.product(ALL, repeat=3):
            out.append((('top',), t))
        for w1 in WRAP:
            for w2 in WRAP:
                if w1 in ('sub', 'subexit', 'func') and w2 in ('sub', 'subexit', 'func'):
                    continue   # a routine cannot be declared inside a routine
                if w1 == w2 and w1 in ('gosub', 'onerror'):
                    continue   # the wrapper's own labels would be declared twice
                for a in ALL:
                    out.append(((w1, w2), (a,)))
    return out


def scripts_for(src):
    if 'INPUT ' in src:
        return SCRIPTS_INPUT
    return [None]


# ---------------------------------------------------------------------------
# evaluation

def _verdict(r):
    if r.ok:
        return ('ok',)
    if r.kind in ('syntax', 'compile'):
        return (r.kind, r.err_code, r.loc)
    return (r.kind, r.exc)


def _obs(out, dbg):
    o = {'end': out.end, 'trap': out.trap, 'exc': out.exc, 'events': impl.jsonable(out.events)}
    if dbg:
        o['line'] = out.line
    return o


def judge(src, scripts, on_empty=None, horizon=HORIZON, levels=LEVELS, groups=(False, True)):
    """-> (list of (divergence, dbg, level, script index, expected, observed), info)"""
    bad = []
    info = {'accepted': False, 'rejected': False, 'compiles': 0, 'runs': 0, 'code_differs': [],
            'o3_equals_o2': None, 'horizon': 0, 'outcomes': set(), 'crash': False}
    for dbg in groups:
        res = {}
        for o in levels:
            res[o] = impl.compile_text(src, o, dbg, want_listing=False)
            if res[o].kind == 'timeout':    # confirm with a generous limit (loaded machine)
                res[o] = impl.compile_text(src, o, dbg, limit=60.0, want_listing=False)
            info['compiles'] += 1
        base = res[levels[0]]
        v0 = _verdict(base)
        for o in levels[1:]:
            r = res[o]
            if _verdict(r) != v0:
                div = 'compiler-crash' if r.kind in ('crash', 'timeout') else 'verdict'
                bad.append((div, dbg, o, None, base.brief(), r.brief()))
        if base.kind in ('crash', 'timeout'):
            # the compiler dies at O0 already: C06's business; here only the
            # agreement of the levels (checked above) matters
            info['crash'] = True
            continue
        if not base.ok:
            info['rejected'] = True
            continue
        info['accepted'] = True
        if not dbg:
            c0 = impl.split_sections(base.binary).get(4)
            for o in levels[1:]:
                if res[o].ok and impl.split_sections(res[o].binary).get(4) != c0:
                    info['code_differs'].append(o)
            if 2 in res and 3 in res and res[2].ok and res[3].ok:
                info['o3_equals_o2'] = res[2].binary == res[3].binary
        mods = {}
        for o in levels:
            if res[o].ok:
                try:
                    mods[o] = impl.load(res[o].binary)
                except Exception as e:
                    bad.append(('module-rejected-by-loader', dbg, o, None, None, str(e)[:120]))
        if levels[0] not in mods:
            continue
        for si, script in enumerate(scripts):
            outs = {}
            for o, m in mods.items():
                env = impl.Env(script, on_empty=on_empty)
                outs[o], _ = impl.run_module(m, env, horizon=horizon)
                info['runs'] += 1
            o0 = outs[levels[0]]
            info['outcomes'].add((o0.end, o0.trap))
            if any(x.end == 'horizon' for x in outs.values()):
                # cut runs are not comparable event by event (levels need different tick counts)
                info['horizon'] += 1
                if not all(x.end == 'horizon' for x in outs.values()):
                    # give every level eight times the budget before calling it a difference
                    for o, m in mods.items():
                        outs[o], _ = impl.run_module(m, impl.Env(script, on_empty=on_empty), horizon=8 * horizon)
                    o0 = outs[levels[0]]
                    if any(x.end == 'horizon' for x in outs.values()):
                        if not all(x.end == 'horizon' for x in outs.values()):
                            bad.append(('termination', dbg, 0, si, None,
                                        {f'O{o}': x.end for o, x in outs.items()}))
                        continue
                else:
                    continue
            e0 = _obs(o0, dbg)
            for o in levels[1:]:
                if o not in outs:
                    continue
                e = _obs(outs[o], dbg)
                if e == e0:
                    continue
                if (e['end'], e['trap'], e['exc']) != (e0['end'], e0['trap'], e0['exc']):
                    div = 'outcome'
                elif e['events'] != e0['events']:
                    div = 'events'
                else:
                    div = 'error-line'
                bad.append((div, dbg, o, si, e0, e))
    return bad, info


def new_stats():
    return {'lv_evaluations': 0, 'lv_nontrivial': 0, 'lv_programs': 0, 'lv_compiles': 0, 'lv_runs': 0,
            'lv_accepted': 0, 'lv_rejected': 0, 'lv_code_differs_O1': 0, 'lv_code_differs_O2': 0,
            'lv_code_differs_O3': 0, 'lv_o3_identical_to_o2': 0, 'lv_o3_differs_from_o2': 0,
            'lv_horizon': 0, 'lv_compiler_dies_at_O0': 0, 'lv_outcomes': set(), 'lv_per_family': {}}


def worker(chunk):
    impl.parse_cache(True)
    viol = []
    st = new_stats()
    for item in chunk:
        fam = item[0]
        if fam == 'corpus':
            _, src, script, feat = item
            scripts = [script]
            horizon = 200000
        else:
            _, wraps, atoms = item
            src = render((wraps, atoms))
            scripts = scripts_for(src)
            feat = {'wrappers': '/'.join(wraps), 'atoms': ' '.join(atoms)}
            horizon = HORIZON
        bad, info = judge(src, scripts, horizon=horizon)
        st['lv_programs'] += 1
        st['lv_evaluations'] += len(scripts)
        st['lv_compiles'] += info['compiles']
        st['lv_runs'] += info['runs']
        st['lv_per_family'][fam] = st['lv_per_family'].get(fam, 0) + 1
        st['lv_accepted'] += bool(info['accepted'])
        st['lv_rejected'] += bool(info['rejected'])
        for o in info['code_differs']:
            st[f'lv_code_differs_O{o}'] += 1
        if info['code_differs']:
            st['lv_nontrivial'] += 1
        if info['o3_equals_o2'] is True:
            st['lv_o3_identical_to_o2'] += 1
        elif info['o3_equals_o2'] is False:
            st['lv_o3_differs_from_o2'] += 1
        st['lv_horizon'] += info['horizon']
        st['lv_compiler_dies_at_O0'] += bool(info['crash'])
        st['lv_outcomes'] |= {(fam,) + tuple(x) for x in info['outcomes']}
        by = {}
        for div, dbg, o, si, exp, obs in bad:
            by.setdefault((div, dbg), []).append((o, si, exp, obs))
        for (div, dbg), lst in by.items():
            f = {'family': 'levels', 'divergence': div, 'source': fam, 'g': bool(dbg),
                 'levels': ','.join(f'O{o}' for o in sorted(set(x[0] for x in lst)))}
            f.update(feat)
            o, si, exp, obs = lst[0]
            case = {'kind': 'levels', 'src': src, 'scripts': scripts, 'horizon': horizon,
                    'script_index': si, 'level': o, 'g': bool(dbg)}
            viol.append((f, case, exp, obs, len(src)))
    return viol, st


def conformance_slice(n=10):
    """the per-line parse memo must not change what the compiler produces:
    compile n corpus programs with and without it -> number of differences"""
    cs = [c for c in corpus.cases() if c['expected'] in ('success', 'trap')][:n]
    diff = 0

    def essence(r):
        # the debug section is a pickle whose bytes depend on object sharing;
        # compare the other sections byte by byte and the statement table by content
        if not r.ok:
            return (r.kind, r.err_code, r.loc)
        sec = impl.split_sections(r.binary)
        di = impl.load(r.binary).debug_info
        return (r.kind, [sec.get(i) for i in (1, 2, 3, 4)],
                [(x.source_start_line, x.start_offset, x.end_offset) for x in di.stmts])

    for c in cs:
        impl.parse_cache(False)
        a = essence(impl.compile_text(c['src'], 2, True, want_listing=False))
        impl.parse_cache(True)
        b = essence(impl.compile_text(c['src'], 2, True, want_listing=False))
        b2 = essence(impl.compile_text(c['src'], 2, True, want_listing=False))
        if a != b or a != b2:
            diff += 1
    impl.parse_cache(False)
    return len(cs), diff


def run(chk):
    descs = gen_descs(chk.tier)
    items = [('gen', list(w), list(a)) for w, a in descs]
    cs = []
    for c in corpus.cases():
        cs.append(('corpus', c['src'], corpus.script_of(c),
                   {'file': c['file'], 'idx': c['idx']}))
    for part, chunk in ((items, 40), (cs, 6)):
        for viol, st in chk.pmap(worker, part, chunk=chunk):
            chk.add_violations(viol)
            chk.merge_stats(st)
    n, diff = conformance_slice()
    chk.cov['lv_parse_memo_conformance'] = {'programs': n, 'differences': diff}
    if diff:
        chk.add_violations([({'family': 'levels', 'divergence': 'harness-parse-memo'},
                             {'kind': 'levels', 'src': '', 'scripts': [None]}, 'identical modules',
                             f'{diff} of {n} differ', 0)])
    for d in (descs[3], descs[len(descs) // 2], descs[-1]):
        chk.sample({'family': 'levels', 'wrappers': list(d[0]), 'atoms': list(d[1]), 'src': render(d)[:500]})
    return {'generated_programs': len(items), 'corpus_programs': len(cs),
            'atoms': {k: ' / '.join(v) for k, v in ATOMS.items()},
            'core_atoms': CORE if chk.tier == 'quick' else CORE_T,
            'wrappers': {k: {'before': v[0], 'after': v[1], 'routine': v[2]} for k, v in WRAPPERS.items()},
            'shapes': ('top level: all sequences of 1 and 2 atoms; every wrapper x every atom; every wrapper x '
                       'all pairs of core atoms'
                       + ('; top level: all sequences of 3 atoms; every wrapper inside every wrapper x every atom'
                          if chk.tier == 'thorough' else '')),
            'configs': 'O0 O1 O2 O3 without -g (oracle O0) and O0 O1 O2 O3 with -g (oracle O0 -g)',
            'scripts': 'programs with INPUT: the lines "0", "1", "3"; corpus: its own INKEY$/RND/TIMER lists',
            'horizon_ticks': HORIZON}


def replay(rec):
    case = rec['case']
    src = case['src']
    print('--- source ---')
    print(src)
    scripts = case.get('scripts') or [None]
    print('--- scripts ---')
    print(scripts)
    impl.parse_cache(False)
    with impl.quiet():
        bad, info = judge(src, scripts, horizon=case.get('horizon', HORIZON))
        rows = []
        for dbg in (False, True):
            for o in LEVELS:
                r = impl.compile_text(src, o, dbg)
                line = f'O{o}{" -g" if dbg else ""}: {r.brief()}'
                if r.ok:
                    for s in scripts:
                        out, _ = impl.run_module(impl.load(r.binary), impl.Env(s), horizon=case.get('horizon', HORIZON))
                        line += f'\n      -> {out.end} {out.trap or ""} line={out.line} events={impl.jsonable(out.events)[-6:]}'
                rows.append(line)
    for l in rows:
        print(l)
    for b in bad:
        print('DIFFERS:', b)
    return 1 if bad else 0
