"""C12 - debugger stepping and breakpoints are transparent and stop correctly.

Explicit-state exploration of *command histories* of the real debugger
(qvm.dbg.Cmd, driven through qv.dbgdrive) over a set of small debuggees,
each compiled with -g at O0 and O2:

* family ``bfs``  - breadth-first over all histories of length <= D over the
  alphabet {step, next, stepi, nexti, continue, break L, delbr L : L a source
  line}, with state hashing (canonical VM state + breakpoint specs + finished
  flag).  Level-synchronous: the frontier of all debuggees is expanded by the
  worker pool, the parent process deduplicates.
* family ``path`` - the single-path histories step^k, next^k, stepi^k, nexti^k
  run to completion.
* family ``tagged`` - a second set of debuggees (programs/dbg_tagged) whose
  PRINT statements announce their own source position; the stop rules
  (stepping stops in every simple statement, a line breakpoint stops exactly
  at the arrivals at the first executable statement at or after the line,
  next stays out of callees, a deleted breakpoint never stops) are judged
  against a ground truth computed from the SOURCE TEXT (a small reference
  interpreter) and the FREE RUN's device trace only - module.debug_info is
  not consulted, so a wrong debug map cannot vouch for itself
  (qv/c12_tagged.py).

Oracle = the program's own free run (impl.run_module with a monitor that
records, before every tick, the pc, a structural snapshot of memory and the
device trace).  Every state the debugger stops in must be *a state of the free
run* (same pc, same memory, same device trace so far) at an index that never
decreases along the history; on top of this position the per-command rules of
the property statement are evaluated (see `Tracker`)."""
import glob
import hashlib
import json
import os
import re
import types

from .. import impl
from ..dbgdrive import Debuggee, Session, frame_depth
from ..explore import memory_view
from .. import c12_tagged as tgd

LEVEL = 'model_checking'

ROOT = os.path.dirname(os.path.dirname(os.path.dirname(os.path.abspath(__file__))))
PROG_DIR = os.path.join(ROOT, 'programs', 'dbg')
TAGGED_DIR = os.path.join(ROOT, 'programs', 'dbg_tagged')
# tagged family: number of leading `step`s before `break L` (None = every stop of step^k)
TAGGED_PREFIX = {'quick': 3, 'thorough': None}
OPTS = (0, 2)
MOVES = ('step', 'next', 'stepi', 'nexti', 'continue')
DEPTH = {'quick': 4, 'thorough': 6}
# divergences after which a history is not extended (the machine has left the
# free run's path: every later observation would only repeat the first one)
CUTTING = {'host-exception', 'off-trace', 'trace', 'changes-after-finish',
           'bp-command-changes-state'}


# ---------------------------------------------------------------------------
# debuggees

def load_programs():
    """[(name, src, script)] ; a first line  ' @script {json}  gives the
    scripted environment answers"""
    out = []
    for fn in sorted(glob.glob(os.path.join(PROG_DIR, '*.bas'))):
        with open(fn) as f:
            src = f.read()
        script = None
        m = re.match(r"' @script (.*)\n", src)
        if m:
            script = json.loads(m.group(1))
        out.append((os.path.basename(fn)[:-4], src, script))
    return out


BLOCK_WORDS = {'IF', 'ELSEIF', 'ELSE', 'FOR', 'NEXT', 'WHILE', 'WEND', 'DO', 'LOOP',
               'SELECT', 'CASE', 'SUB', 'FUNCTION', 'DECLARE', 'TYPE', 'DEF'}


def is_simple(text):
    """a simple statement = not the header / footer / clause of a block and
    not a compound (one-line IF) statement; judged on the source text only"""
    t = text.strip()
    m = re.match(r'[A-Za-z][A-Za-z0-9_.]*[%&!#$]?', t)
    if not m:
        return False
    w = m.group(0).upper()
    if w == 'END':
        return t.upper() == 'END'
    return w not in BLOCK_WORDS


def finished(cpu, module):
    return bool(cpu.halted) or cpu.pc >= len(module.code)


def pos_key(machine, module):
    """what identifies 'where the program is' independently of who drives it:
    pc, finished, the error-handling registers and a structural snapshot of
    stack, frames, globals, arrays and device cursors (halt_reason and the
    breakpoint machinery are deliberately not part of it)"""
    cpu = machine.cpu
    return (cpu.pc, finished(cpu, module), repr(getattr(cpu, 'trap_target', None)),
            bool(getattr(cpu, 'error_handler_active', False)), memory_view(machine))


class _Mon:
    def __init__(self, env, module):
        self.env = env
        self.module = module
        self.keys = []
        self.pcs = []
        self.events = []
        self.depths = []

    def pre(self, cpu):
        self.pcs.append(cpu.pc)
        self.depths.append(frame_depth(cpu))
        self.keys.append(pos_key(types.SimpleNamespace(cpu=cpu), self.module))
        self.events.append(tuple(self.env.events))

    def post(self, cpu):
        pass


class Free:
    """the free run of a debuggee, tick by tick"""

    def __init__(self, dbe):
        env = impl.Env(dbe.script)
        mon = _Mon(env, dbe.module)
        out, m = impl.run_module(dbe.module, env, horizon=dbe.horizon, monitor=mon)
        if out.end not in ('halt', 'eoc', 'trap'):
            raise ValueError(f'debuggee {dbe.name} O{dbe.opt}: free run ends with {out.end} {out.exc}')
        code = dbe.module.code
        self.T = len(mon.pcs)
        self.pcs = mon.pcs + [m.cpu.pc]
        self.keys = mon.keys + [pos_key(m, dbe.module)]
        self.events = mon.events + [tuple(env.events)]
        self.end = f'trap:{out.trap}' if out.end == 'trap' else out.end
        self.ops = [impl.op_at(code, pc) for pc in mon.pcs]
        self.sids = [dbe.sid(dbe.stmt_at(pc, m.cpu)) for pc in self.pcs[:-1]] + [None]
        self.final_sid = dbe.sid(dbe.stmt_at(self.pcs[-1], m.cpu))
        self.index = {}
        for i, k in enumerate(self.keys):
            self.index.setdefault(k, []).append(i)
        # procedure nesting before tick i: number of call frames, counting a
        # procedure whose `frame` instruction is about to execute as entered
        # (its call has happened; GOSUB creates no frame and is not a procedure)
        self.level = [d + (1 if op == 'frame' else 0) for d, op in zip(mon.depths, self.ops)]
        self.level.append(frame_depth(m.cpu))
        # source texts
        di = dbe.di
        self.text = {}
        for s in di.stmts:
            self.text[dbe.sid(s)] = di.source_code[s.source_start_offset:s.source_end_offset]
        # R of the property: statements of the pc trace, None dropped,
        # consecutive duplicates removed
        self.R = []
        for s in self.sids[:-1]:
            if s is not None and (not self.R or self.R[-1] != s):
                self.R.append(s)

    def locate(self, key, frm):
        for i in self.index.get(key, ()):
            if i >= frm:
                return i
        return None

    def simple(self, sid):
        return sid is not None and is_simple(self.text.get(sid, ''))


# ---------------------------------------------------------------------------
# the judge

class Tracker:
    """follows one live session command by command and evaluates the rules of
    the property on every transition.  `apply` returns the violations of that
    one transition as dicts(divergence, expected, observed, extra features)."""

    def __init__(self, dbe, free):
        self.dbe = dbe
        self.free = free
        self.s = Session(dbe)
        self.bag = {}          # target address -> number of set, not yet deleted breakpoints
        self.setm = set()      # the same under set semantics (second `break` of a line is a no-op)
        self.deleted = set()
        self.cut = False
        self.moved = False     # some command advanced a live program
        self.fin_cmd = None    # kind of the command under which the program finished
        self.hist = []
        self.stops = [self.s.dbe.sid(self.s.stmt())] if self.s.cmd else []
        self.j = None
        self.start_viol = []
        self.classes = []      # (cmd kind, result class) per transition: vacuity counters
        if self.s.cmd is None:
            self.cut = True
            self.start_viol.append(self._v('host-exception', 'a debugger over the module',
                                           self.s.exc, cmd='<start>'))
            return
        self.j = free.locate(pos_key(self.s.machine, dbe.module), 0)
        if self.j is None:
            self.cut = True
            self.start_viol.append(self._v('off-trace', 'start-up stops in a state of the free run',
                                           {'pc': self.s.cpu.pc}, cmd='<start>'))
        elif tuple(self.s.env.events) != free.events[self.j]:
            self.cut = True
            self.start_viol.append(self._v('trace', list(free.events[self.j]),
                                           list(self.s.env.events), cmd='<start>'))

    # -- helpers
    def _v(self, divergence, expected, observed, cmd=None, **feat):
        f = {'divergence': divergence, 'cmd': cmd, 'ending': self.free.end,
             'halt_site': 'code-follows' if self.free.final_sid is not None else 'no-code-follows'}
        f.update(feat)
        return {'features': f, 'expected': expected, 'observed': observed}

    def must(self):
        return {a for a, n in self.bag.items() if n > 0 and a in self.setm}

    def may(self):
        return {a for a, n in self.bag.items() if n > 0 and a not in self.setm}

    def target(self, line):
        st = self.dbe.line_target(line)
        return st.start_offset if st is not None else None

    @property
    def is_finished(self):
        return self.j == self.free.T

    # -- one command
    def advance(self, line):
        """replay one command of an already judged prefix: only the position
        and the breakpoint model are kept up to date"""
        free, s, dbe = self.free, self.s, self.dbe
        kind = line.split()[0]
        st = s.do(line)
        self.hist.append(line)
        if st.exc:
            self.cut = True
            return
        if kind in ('break', 'delbr') or self.is_finished:
            self._model(kind, line)
            return
        jc = free.locate(pos_key(s.machine, dbe.module), self.j)
        if jc is None:
            self.cut = True
            return
        if jc > self.j:
            self.moved = True
        self.j = jc
        if jc == free.T:
            self.fin_cmd = kind
        else:
            self.stops.append(dbe.sid(s.stmt()))

    def apply(self, line):
        free, s, dbe = self.free, self.s, self.dbe
        kind = line.split()[0]
        jp = self.j
        par_fin = self.is_finished
        par_canon = s.canon()
        par_events = list(s.env.events)
        par_sid = dbe.sid(s.stmt())
        par_reason = getattr(s.cpu.halt_reason, 'name', str(s.cpu.halt_reason))
        st = s.do(line)
        self.hist.append(line)
        out = []
        if st.exc:
            self.cut = True
            self.classes.append((kind, 'host-exception'))
            return [self._v('host-exception', 'the command returns', {'exc': st.exc, 'where': st.where},
                            cmd=kind, finished=par_fin)]
        # ---- a finished program stays finished
        if par_fin:
            same = s.canon() == par_canon and list(s.env.events) == par_events and \
                finished(s.cpu, dbe.module)
            self.classes.append((kind, 'probe-finished'))
            if not same:
                self.cut = True
                return [self._v('changes-after-finish',
                                'no device call and no state change: the program has finished',
                                {'pc': s.cpu.pc, 'halted': bool(s.cpu.halted),
                                 'events_after': impl.jsonable(s.env.events[len(par_events) - 1:]),
                                 'debugger_said': st.out.strip()[:200]},
                                cmd=kind, fin_cmd=self.fin_cmd, finish_reason=par_reason)]
            self._model(kind, line)
            return out
        # ---- breakpoint administration does not touch the program
        if kind in ('break', 'delbr'):
            if s.canon() != par_canon or list(s.env.events) != par_events:
                self.cut = True
                out.append(self._v('bp-command-changes-state', 'program state unchanged',
                                   {'pc': s.cpu.pc}, cmd=kind))
            self._model(kind, line)
            self.classes.append((kind, 'set' if kind == 'break' else 'deleted'))
            return out
        # ---- a command that runs the program
        jc = free.locate(pos_key(s.machine, dbe.module), jp)
        if jc is None:
            self.cut = True
            self.classes.append((kind, 'off-trace'))
            return [self._v('off-trace', 'a state the free run passes through at or after tick %d' % jp,
                            {'pc': s.cpu.pc, 'halted': bool(s.cpu.halted),
                             'events': impl.jsonable(s.env.events)}, cmd=kind)]
        self.j = jc
        if jc > jp:
            self.moved = True
        if tuple(s.env.events) != free.events[jc]:
            self.cut = True
            self.classes.append((kind, 'trace'))
            return [self._v('trace', impl.jsonable(free.events[jc]), impl.jsonable(s.env.events), cmd=kind)]
        user = self.must() | self.may()
        at_user_bp = jc < free.T and jc > jp and free.pcs[jc] in user
        if jc == free.T:
            self.fin_cmd = kind
            self.classes.append((kind, 'finished'))
            got = s.end_kind()
            if got != free.end:
                out.append(self._v('outcome', free.end, got, cmd=kind, fin_cmd=kind,
                                   finish_reason=getattr(s.cpu.halt_reason, 'name', str(s.cpu.halt_reason)),
                                   bp_at_final_pc=free.pcs[-1] in user))
        else:
            self.stops.append(dbe.sid(s.stmt()))
            self.classes.append((kind, 'user-bp' if at_user_bp else
                                 ('same-stmt' if dbe.sid(s.stmt()) == par_sid else 'new-stmt')))
        seg = range(jp + 1, jc)                   # ticks strictly between the two stops
        if kind == 'next' and jc < free.T and not at_user_bp:
            rel = free.level[jc] - free.level[jp]
            if rel > 0:
                # where next should have come to rest: the first later tick at
                # which the call nesting is back at (or below) the level of the start
                exp = next((t for t in range(jp + 1, free.T + 1)
                            if free.level[t] <= free.level[jp] and
                            (free.sids[t] is not None and free.sids[t] != par_sid or t == free.T)),
                           free.T)
                # the call that is stepped over, where it returns to, and whether
                # that return address is reached earlier in a deeper activation
                c = next((t for t in range(jp, jc) if free.level[t + 1] > free.level[jp]), jp)
                ret = next((t for t in range(c + 1, free.T + 1) if free.level[t] <= free.level[jp]), free.T)
                deeper = any(free.pcs[t] == free.pcs[ret] for t in range(c + 1, ret))
                out.append(self._v('next-enters-callee',
                                   {'call_nesting_relative_to_start': '<= 0', 'stop_tick': exp},
                                   {'call_nesting_relative_to_start': rel, 'stop_tick': jc,
                                    'pc': free.pcs[jc]}, cmd=kind,
                                   return_site_reached_deeper=deeper))
                return out
        if kind in ('step', 'next') and jc < free.T and not at_user_bp:
            if jc == jp or dbe.sid(s.stmt()) == par_sid:
                out.append(self._v('no-progress', 'a different statement or finished',
                                   {'stmt_before': par_sid, 'stmt_after': dbe.sid(s.stmt()),
                                    'ticks': jc - jp}, cmd=kind))
                return out
        if kind == 'step':
            for t in seg:
                x = free.sids[t]
                if x is not None and x != par_sid and free.simple(x):
                    out.append(self._v('skipped-statement',
                                       'stop in %r' % free.text.get(x), {'stopped_in': free.text.get(dbe.sid(s.stmt()))},
                                       cmd=kind))
                    break
        if kind == 'continue':
            must, may = self.must(), self.may()
            miss = next((t for t in seg if free.pcs[t] in must), None)
            if miss is not None:
                out.append(self._v('bp-missed', {'stop_tick': miss, 'pc': free.pcs[miss]},
                                   {'stop_tick': jc, 'pc': free.pcs[jc]}, cmd=kind))
            elif jc < free.T and free.pcs[jc] not in must and free.pcs[jc] not in may:
                div = 'deleted-bp-fired' if free.pcs[jc] in self.deleted else 'bp-spurious'
                out.append(self._v(div, 'run on (no breakpoint is set at this address)',
                                   {'stop_tick': jc, 'pc': free.pcs[jc],
                                    'debugger_said': st.out.strip()[:120]}, cmd=kind))
            elif jc == jp:
                out.append(self._v('no-progress', 'continue runs the program',
                                   {'ticks': 0}, cmd=kind))
        return out

    def _model(self, kind, line):
        if kind not in ('break', 'delbr'):
            return
        try:
            a = self.target(int(line.split()[1]))
        except (IndexError, ValueError):
            return
        if a is None:
            return
        if kind == 'break':
            self.bag[a] = self.bag.get(a, 0) + 1
            self.setm.add(a)
            self.deleted.discard(a)
        else:
            if self.bag.get(a, 0) > 0:
                self.bag[a] -= 1
                self.deleted.add(a)
            self.setm.discard(a)

    def state_hash(self):
        k = repr(self.s.key())
        return hashlib.sha1(k.encode()).hexdigest()[:20]


def coverage_order(tr):
    """the step^k rule: S in-order subsequence of R, simple(R) in-order
    subsequence of S.  Only meaningful when the path ran to completion."""
    free = tr.free
    S = tr.stops
    out = []

    def subseq(a, b):
        it = iter(b)
        for x in a:
            for y in it:
                if x == y:
                    break
            else:
                return x
        return None
    bad = subseq([x for x in S if x is not None], free.R)
    if bad is not None:
        out.append(tr._v('stop-not-in-free-run', 'stops form an in-order subsequence of the free run',
                         {'stmt': free.text.get(bad), 'at': bad}, cmd='step'))
    simple_r = [x for x in free.R if free.simple(x)]
    bad = subseq(simple_r, S)
    if bad is not None:
        out.append(tr._v('simple-statement-not-stopped-in', 'a stop in %r' % free.text.get(bad),
                         {'stops': [free.text.get(x) for x in S][:40]}, cmd='step'))
    return out


# ---------------------------------------------------------------------------
# workers

_CACHE = {}


def get_cfg(cfg):
    name, src, script, opt = cfg
    k = (name, opt)
    ent = _CACHE.get(k)
    if ent is None:
        dbe = Debuggee(name, src, opt, script)
        free = Free(dbe)
        alphabet = list(MOVES) + [f'break {l}' for l in range(1, dbe.nlines + 1)] + \
            [f'delbr {l}' for l in range(1, dbe.nlines + 1)]
        ent = _CACHE[k] = (dbe, free, alphabet)
    return ent


def _mk(family, cfg, hist, v, depth):
    name, src, script, opt = cfg
    feat = {'family': family}
    feat.update(v['features'])
    case = {'program': name, 'opt': opt, 'src': src, 'script': script, 'history': list(hist)}
    return (feat, case, v['expected'], v['observed'], depth)


def expand_chunk(chunk, max_depth):
    """chunk: [(cfg index, history as tuple of alphabet indices)] -> children
    (cfg index, history, state hash, flags) ; flags: 1 expandable, 2 moved, 4 finished"""
    impl.parse_cache(True)
    viol = []
    stats = {'transitions': 0, 'classes': {}, 'validated': 0}
    children = []
    for ci, hist in chunk:
        cfg = CFGS[ci]
        dbe, free, alphabet = get_cfg(cfg)
        lines = [alphabet[i] for i in hist]
        for c, cline in enumerate(alphabet):
            tr = Tracker(dbe, free)
            for h in lines:
                tr.advance(h)
            was_fin = tr.is_finished
            vs = tr.apply(cline)
            stats['transitions'] += 1
            if all(v['features']['divergence'] not in ('host-exception', 'off-trace') for v in vs):
                stats['validated'] += 1
            k, cl = tr.classes[-1]
            key = f'{k}:{cl}'
            stats['classes'][key] = stats['classes'].get(key, 0) + 1
            for v in vs:
                viol.append(_mk('bfs', cfg, lines + [cline], v, len(hist) + 1))
            expandable = not tr.cut and not was_fin and \
                (len(hist) + 1 < max_depth or tr.is_finished)
            children.append((ci, hist + (c,), tr.state_hash(),
                             (1 if expandable else 0) | (2 if tr.moved else 0) |
                             (4 if tr.is_finished else 0)))
    return viol, stats, children


def path_chunk(chunk):
    impl.parse_cache(True)
    viol = []
    stats = {'transitions': 0, 'classes': {}, 'validated': 0, 'paths': 0, 'path_len': {}}
    for cfg, cmd in chunk:
        dbe, free, alphabet = get_cfg(cfg)
        tr = Tracker(dbe, free)
        stats['paths'] += 1
        for v in tr.start_viol:
            viol.append(_mk('path', cfg, (), v, 0))
        n = 0
        extra = 0
        while not tr.cut and n < free.T + 8:
            vs = tr.apply(cmd)
            n += 1
            stats['transitions'] += 1
            stats['validated'] += 1
            k, cl = tr.classes[-1]
            key = f'{k}:{cl}'
            stats['classes'][key] = stats['classes'].get(key, 0) + 1
            for v in vs:
                viol.append(_mk('path', cfg, tuple(tr.hist), v, n))
            if tr.is_finished:
                extra += 1
                if extra > 2:
                    break
        if not tr.cut and not tr.is_finished:
            viol.append(_mk('path', cfg, tuple(tr.hist),
                            tr._v('never-finishes', 'the program finishes within T+8 commands',
                                  {'commands': n, 'free_ticks': free.T}, cmd=cmd), n))
        if cmd == 'step' and tr.is_finished:
            for v in coverage_order(tr):
                viol.append(_mk('path', cfg, tuple(tr.hist), v, n))
        stats['path_len'][f'{cfg[0]}/O{cfg[3]}/{cmd}'] = n
    return viol, stats


# ---------------------------------------------------------------------------
# family tagged

_TCACHE = {}


def load_tagged():
    out = []
    for fn in sorted(glob.glob(os.path.join(TAGGED_DIR, '*.bas'))):
        with open(fn) as f:
            out.append((os.path.basename(fn)[:-4], f.read()))
    return out


def get_tagged(name, src, opt):
    k = (name, opt)
    tg = _TCACHE.get(k)
    if tg is None:
        tg = _TCACHE[k] = tgd.Tagged(name, src, opt)
    return tg


def tagged_history(tg, spec):
    """the command list of a history spec; `run_history` cuts it one command
    after the program has finished"""
    bound = 2 * len(tg.model.visits) + 10
    kind = spec[0]
    if kind == 'step':
        return ['step'] * bound
    if kind == 'next':                       # step^j next^k
        return ['step'] * spec[1] + ['next'] * bound
    if kind == 'break':                      # step^j, break L, continue^k
        return ['step'] * spec[1] + [f'break {spec[2]}'] + ['continue'] * bound
    if kind == 'del-before':                 # break L, delbr L, continue
        return [f'break {spec[1]}', f'delbr {spec[1]}', 'continue', 'continue']
    if kind == 'del-after':                  # break L, continue, delbr L, continue
        return [f'break {spec[1]}', 'continue', f'delbr {spec[1]}', 'continue', 'continue']
    raise ValueError(spec)


def tagged_specs(tg, tier):
    nv = len(tg.model.visits)
    pre = TAGGED_PREFIX[tier]
    jmax = nv + 1 if pre is None else min(pre, nv + 1)
    specs = [('step',)]
    specs += [('next', j) for j in range(0, nv + 2)]
    for L in range(1, tg.nlines + 2):
        specs += [('break', j, L) for j in range(0, jmax + 1)]
        specs += [('del-before', L), ('del-after', L)]
    return specs


def tagged_chunk(chunk):
    impl.parse_cache(True)
    viol = []
    stats = {'transitions': 0, 'validated': 0, 'tagged_histories': 0, 'tagged_classes': {}}
    for name, src, opt, spec in chunk:
        tg = get_tagged(name, src, opt)
        vs, obs, info = tgd.run_history(tg, tagged_history(tg, spec))
        hist = info['executed']
        stats['transitions'] += len(hist)
        stats['validated'] += len(hist)
        stats['tagged_histories'] += 1
        for k, n in info['classes'].items():
            stats['tagged_classes'][k] = stats['tagged_classes'].get(k, 0) + n
        for v in vs:
            feat = {'family': 'tagged'}
            feat.update(v['features'])
            case = {'program': name, 'opt': opt, 'src': src, 'script': None, 'history': list(hist)}
            viol.append((feat, case, v['expected'], v['observed'], len(hist)))
    return viol, stats


# ---------------------------------------------------------------------------

CFGS = []


def run(chk):
    progs = load_programs()
    only_progs = os.environ.get('C12_PROGS')          # development aid
    if only_progs:
        progs = [p for p in progs if any(p[0].startswith(x) for x in only_progs.split(','))]
        chk.cov['exhaustive'] = False
    CFGS[:] = [(n, s, sc, o) for n, s, sc in progs for o in OPTS]
    cfgs = CFGS
    max_depth = DEPTH[chk.tier]
    env_depth = os.environ.get('C12_DEPTH')
    if env_depth:
        max_depth = int(env_depth)
    fams = {}
    # ---- validate the debuggees and describe the space
    alph = {}
    o0o2_differ = 0
    for n, s, sc in progs:
        d0, f0, a0 = get_cfg((n, s, sc, 0))
        d2, f2, a2 = get_cfg((n, s, sc, 2))
        if f0.events[-1] != f2.events[-1] or f0.end != f2.end:
            print(f'HARNESS-ERROR: debuggee {n} behaves differently at O0 and O2 (C02 business)')
            raise SystemExit(2)
        if bytes(d0.module.code) != bytes(d2.module.code):
            o0o2_differ += 1
        alph[n] = len(a0)
    # ---- tagged debuggees: ground truth from the source text and the free run
    if not chk.only or 'tagged' in chk.only:
        tprogs = load_tagged()
        if only_progs:
            tprogs = [p for p in tprogs if any(p[0].startswith(x) for x in only_progs.split(','))]
        items = []
        per_prog = {}
        try:
            for n, s in tprogs:
                for o in OPTS:
                    tg = get_tagged(n, s, o)
                    specs = tagged_specs(tg, chk.tier)
                    per_prog[f'{n}/O{o}'] = {'histories': len(specs), 'announcements': tg.n,
                                             'statement_visits_of_the_model': len(tg.model.visits)}
                    items += [(n, s, o, sp) for sp in specs]
        except tgd.ModelError as e:
            print(f'HARNESS-ERROR: tagged debuggee rejected: {e}')
            raise SystemExit(2)
        for viol, st in chk.pmap(tagged_chunk, items, chunk=12):
            chk.add_violations(viol)
            chk.merge_stats(st)
        fams['tagged'] = {
            'programs': [p[0] for p in tprogs],
            'histories': ['step^k', 'step^j next^k for every j', 'step^j, break L, continue^k for every line L (and one past '
                          'the end) and j <= %s' % ('every stop of step^k' if TAGGED_PREFIX[chk.tier] is None
                                                    else TAGGED_PREFIX[chk.tier]),
                          'break L, delbr L, continue', 'break L, continue, delbr L, continue'],
            'run_until': 'finished + 1 further command', 'cases': len(items), 'per_program': per_prog}
    else:
        chk.cov['exhaustive'] = False
    # ---- paths
    if not chk.only or 'path' in chk.only:
        items = [(cfg, cmd) for cfg in cfgs for cmd in ('step', 'next', 'stepi', 'nexti')]
        for viol, st in chk.pmap(path_chunk, items, chunk=4):
            chk.add_violations(viol)
            chk.merge_stats(st)
        fams['path'] = {'histories': ['step^k', 'next^k', 'stepi^k', 'nexti^k'],
                        'run_until': 'finished + 2 further commands', 'cases': len(items)}
    else:
        chk.cov['exhaustive'] = False
    # ---- bfs, level by level, the frontier in fixed slices
    states = 0
    nontrivial = 0
    finished_states = 0
    per_level = []
    if not chk.only or 'bfs' in chk.only:
        seen = set()
        frontier = []
        for ci, cfg in enumerate(cfgs):
            dbe, free, _ = get_cfg(cfg)
            tr = Tracker(dbe, free)
            for v in tr.start_viol:
                chk.add_violations([_mk('bfs', cfg, [], v, 0)])
            seen.add((ci, tr.state_hash()))
            states += 1
            if not tr.cut:
                frontier.append((ci, ()))
        level = 0
        SLICE = 6000
        while frontier:
            level += 1
            nxt = []
            ntrans = new = 0
            for lo in range(0, len(frontier), SLICE):
                allch = []
                for viol, st, children in chk.pmap(expand_chunk, frontier[lo:lo + SLICE],
                                                   extra=(max_depth,), chunk=10):
                    chk.add_violations(viol)
                    chk.merge_stats(st)
                    allch.extend(children)
                allch.sort()
                ntrans += len(allch)
                for ci, hist, h, flags in allch:
                    k = (ci, h)
                    if k in seen:
                        continue
                    seen.add(k)
                    new += 1
                    states += 1
                    if flags & 2:
                        nontrivial += 1
                    if flags & 4:
                        finished_states += 1
                    if flags & 1:
                        nxt.append((ci, hist))
            frontier = nxt
            per_level.append({'level': level, 'transitions': ntrans, 'new_states': new,
                              'to_expand': len(frontier)})
        fams['bfs'] = {'alphabet': 'step next stepi nexti continue + break L, delbr L for every source line L',
                       'alphabet_size_per_program': alph, 'max_depth': max_depth,
                       'finished_states_probed_one_level_deeper': True,
                       'levels': per_level}
    else:
        chk.cov['exhaustive'] = False
    cov = chk.cov
    cov['evaluations'] = cov.get('transitions', 0)
    cov['states'] = max(states, 1)
    cov['traces_validated_against_impl'] = cov.pop('validated', 0)
    cov['distinct_nontrivial'] = nontrivial
    cov['finished_states'] = finished_states
    cov['max_depth'] = max_depth
    classes = cov.get('classes', {})
    cov['distinct_outcomes'] = len(classes)
    # vacuity guard: the mechanisms of the property must have been exercised
    need = ['step:new-stmt', 'next:new-stmt', 'continue:user-bp', 'continue:finished',
            'step:finished', 'stepi:same-stmt', 'break:set', 'delbr:deleted',
            'step:probe-finished', 'next:user-bp']
    tneed = ['step:coverage-judged', 'next:over-a-call', 'break:certain-explains-stops',
             'break:uncertain-explains-stops', 'break:certain-explains-no-stop',
             'continue:finished-after-delbr', 'continue:probe-finished']
    tclasses = cov.get('tagged_classes', {})
    if not chk.only:
        missing = [n for n in need if not classes.get(n)] + \
            ['tagged/' + n for n in tneed if not tclasses.get(n)]
        if missing:
            chk.add_violations([({'family': 'self-check', 'divergence': 'vacuous', 'missing': missing},
                                 {}, 'every mechanism exercised', missing, 0)])
    for cfg, hist in ((cfgs[0], ['step', 'break 3', 'continue', 'next']),
                      (cfgs[len(cfgs) // 2], ['break 2', 'continue', 'delbr 2', 'continue']),
                      (cfgs[-1], ['nexti', 'stepi', 'next', 'step'])):
        chk.sample({'program': cfg[0], 'opt': cfg[3], 'history': hist[:max_depth]})
    chk.sample({'program': cfgs[0][0], 'opt': 0, 'history': 'step^k until finished, then 2 more'})
    chk.assumptions = [
        'the debuggees are the %d programs of programs/dbg (each validated: free run ends by END, '
        'falling off the end or a trap; identical behaviour at O0 and O2)' % len(progs),
        'families bfs and path: statement attribution is taken from module.debug_info.find_stmt (validated by C11)',
        'family tagged: statement attribution comes from the source text through the reference interpreter of '
        'qv/c12_tagged.py, validated on every debuggee (its announcement sequence equals the free run\'s); stops are '
        'observed through the device trace and the call-frame depth only',
        'family tagged: PRINT, SUB call, GOSUB and RETURN are taken to have code and to be entered at their first '
        'instruction; whether any other statement (header, clause, terminator, assignment, GOTO, EXIT, END) has code, '
        'and where a loop-back or clause jump lands in it, is unspecified: a breakpoint that resolves to such a '
        'statement may stop at any subset of the moments at which control is at that statement in the source',
        'simple statement = judged on the source text (not a block header/footer/clause, not a one-line IF)',
        'a line set twice and deleted once is unspecified (either still set or not)',
        'histories that reach the same canonical state (VM state + breakpoint specs + finished flag) '
        'have the same futures; only the first one (in command order) is extended',
        'a history is not extended after the machine has left the path of the free run',
    ]
    chk.finish(
        rule=('family tagged: every listed history is run under the real debugger and its stops (number of announcements made, '
              'call nesting) are judged against the source-level model; families bfs/path: '
              'every command history of length <= max_depth over the alphabet (plus step^k, next^k, stepi^k, '
              'nexti^k to completion) is replayed on a fresh machine under the real debugger and judged against '
              'the tick-by-tick free run of the same module; evaluations = transitions executed; '
              'distinct_nontrivial = distinct canonical states (VM state + breakpoint specs + finished flag) whose '
              'history advanced a live program with at least one of step/next/stepi/nexti/continue; '
              'distinct_outcomes = distinct (command kind, result class) pairs observed'),
        extra_cov={'families': fams, 'configs': ['O0g', 'O2g'], 'program_names': [p[0] for p in progs],
                   'programs_whose_O0_and_O2_code_differ': o0o2_differ})


def replay_tagged(rec):
    case = rec['case']
    tg = tgd.Tagged(case['program'], case['src'], case['opt'])
    print(f"--- tagged program {case['program']} O{case['opt']} -g")
    for i, ln in enumerate(case['src'].split('\n'), 1):
        print(f'{i:3} {ln}')
    print('--- free run announces:', ' '.join(tg.free_ann), f'({tg.free_end})')
    print('--- the model: statement visits as (line:col kind, announcements made)')
    print('   ', ' '.join(f'{tg.model.stmts[i].where()}{tg.model.stmts[i].kind}@{c}' for i, c, d, e in tg.model.visits))
    vs, obs, info = tgd.run_history(tg, case['history'], probes=len(case['history']))
    for h, c, fin in obs:
        print(f'(qdb) {h:<10} -> announcements made: {c}{"  FINISHED" if fin else ""}')
    rc = 0
    want = rec.get('features', {}).get('divergence')
    for v in vs:
        print('   VIOLATION', v['features']['divergence'], '| expected:',
              json.dumps(impl.jsonable(v['expected']), default=str),
              '| observed:', json.dumps(impl.jsonable(v['observed']), default=str))
        if want is None or v['features']['divergence'] == want:
            rc = 1
    print('STILL VIOLATES' if rc else 'no violation on replay')
    return rc


def replay(rec):
    if rec.get('features', {}).get('family') == 'tagged':
        return replay_tagged(rec)
    case = rec['case']
    dbe = Debuggee(case['program'], case['src'], case['opt'], case.get('script'))
    free = Free(dbe)
    print(f"--- program {case['program']} O{case['opt']} -g")
    print(case['src'])
    print('--- free run:', free.end, impl.jsonable(free.events[-1]), f'({free.T} ticks)')
    tr = Tracker(dbe, free)
    rc = 0
    want = rec.get('features', {}).get('divergence')
    for v in tr.start_viol:
        print('START VIOLATION', json.dumps(impl.jsonable(v), default=str))
        rc = 1
    print(f'start: pc={tr.s.cpu.pc} tick={tr.j}')
    for h in case['history']:
        if tr.s.cmd is None:
            break
        vs = tr.apply(h)
        s = tr.s
        print(f'(qdb) {h:<10} -> pc={s.cpu.pc} halted={s.cpu.halted} reason={s.cpu.halt_reason.name} '
              f'tick={tr.j}/{free.T} stmt={free.text.get(dbe.sid(s.stmt()))!r} '
              f'events={impl.jsonable(s.env.events)}')
        for v in vs:
            print('   VIOLATION', v['features']['divergence'], '| expected:',
                  json.dumps(impl.jsonable(v['expected']), default=str),
                  '| observed:', json.dumps(impl.jsonable(v['observed']), default=str))
            if want is None or v['features']['divergence'] == want:
                rc = 1
    if want in ('stop-not-in-free-run', 'simple-statement-not-stopped-in') and tr.is_finished:
        for v in coverage_order(tr):
            print('   VIOLATION', v['features']['divergence'], v['expected'], v['observed'])
            rc = 1
    print('STILL VIOLATES' if rc else 'no violation on replay')
    return rc
