"""C01 - compiled programs do what their QBASIC source says.

Bounded-exhaustive enumeration of typed program families (DESIGN 4, C01);
every program is interpreted by the reference interpreter QB-ref
(qv/ref/interp.py, specified by docs/REFSEM.md) and compiled + run by the
real compiler and VM in the six configurations; the canonical event trace,
the typed PRINT items and the outcome (normal end, or error class raised by
the same source line in the -g builds) must agree.  Programs QB-ref refuses
to judge (REFSEM 12) are only checked for agreement among the six
configurations.
"""
from .. import impl
from .. import c01_oracle as O
from ..spaces import exprs as E
from ..spaces import stmts as S

LEVEL = 'exploration'

FAMILIES = ['F1', 'F2', 'F4', 'F3', 'F5', 'F6', 'F7', 'F8', 'F9', 'F10', 'F11', 'F12']


def _builders():
    b = dict(E.BUILDERS)
    b.update(S.BUILDERS)
    return b


def eval_chunk(chunk):
    impl.parse_cache(True)
    builders = _builders()
    viol = []
    st = O.new_stats()
    import time
    t0 = time.process_time()
    for desc in chunk:
        case = builders[desc[0]](desc)
        case.desc = desc
        viol.extend(O.evaluate(case, st))
    st['cpu_s'] = time.process_time() - t0
    return viol, st


def space(tier):
    """[(family, descriptors, description)]"""
    fams = []
    fams.append(('F1', E.f1_descs(tier), {
        'what': 'binary operators x ordered type pairs x boundary values',
        'operators': list(E.A.BIN_OPS),
        'values': {k: v for k, v in (E.QUICK if tier == 'quick' else E.FULL).items()},
        'values_lit_const': E.LITQ if tier == 'quick' else {'lit': 'all values', 'const': E.QUICK},
        'forms': ['var', 'lit', 'const'],
        'guises': 'var: operands through variables (run-time instruction); lit: literal operands '
                  '(compile-time evaluation at O1/O2); const: operands through CONST names'}))
    fams.append(('F2', E.f2_descs(tier), {
        'what': 'unary - + NOT x types x boundary values (variables, literals and CONST names); '
                'builtins x argument menus incl. illegal arguments',
        'builtins': sorted(set(d[2] for d in E.f2_descs(tier) if d[0] == 'F2b'))}))
    fams.append(('F4', E.f4_descs(tier), {
        'what': 'implicit conversion T2 -> T1 on assignment to variable / element / field, '
                'by-value argument (parenthesised variable, literal), function result, function argument',
        'targets': E.TARGETS,
        'values': E.CONV_QUICK if tier == 'quick' else E.CONV_VALUES}))
    fams.append(('F3', E.f3_descs(tier), {
        'what': 'all trees of two binary operators (both shapes, minimal parentheses) and '
                'unary/binary combinations over mixed-type atoms',
        'operators': E.F3_OPS_Q if tier == 'quick' else E.F3_OPS_T,
        'atoms': E.F3_ATOMS_Q if tier == 'quick' else E.F3_ATOMS_T}))
    for name, descs, d in S.families(tier):
        fams.append((name, descs, d))
    return fams


def run(chk):
    fams = space(chk.tier)
    desc = {}
    for name, descs, d in fams:
        if chk.only and name not in chk.only:
            chk.cov['exhaustive'] = False
            continue
        before = chk.cov.get('evaluations', 0)
        cpu_before = chk.cov.get('cpu_s', 0)
        chunk = max(1, min(8, len(descs) // (chk.ncpu * 6) or 1))
        for viol, st in chk.pmap(eval_chunk, descs, chunk=chunk):
            chk.add_violations(viol)
            chk.merge_stats(st)
        d = dict(d)
        d['descriptors'] = len(descs)
        d['cases'] = chk.cov.get('evaluations', 0) - before
        d['worker_cpu_s'] = round(chk.cov.get('cpu_s', 0) - cpu_before, 1)
        desc[name] = d
        if descs:
            b = _builders()
            for dd in (descs[0], descs[len(descs) // 2], descs[-1]):
                case = b[dd[0]](dd)
                if case.items:
                    it = case.items[len(case.items) // 2]
                    chk.sample({'family': name, 'descriptor': list(dd),
                                'program': O.A.render(O._prog(case, [it]))[:600],
                                'script': it.script})
    chk.cov['distinct_nontrivial'] = chk.cov.pop('nontrivial', 0)
    chk.cov['cpu_s'] = round(chk.cov.get('cpu_s', 0), 1)
    print('worker cpu seconds per family:', {k: v.get('worker_cpu_s') for k, v in desc.items()}, flush=True)
    _dump(chk)
    outcomes = chk.cov.get('_sets', {}).get('outcomes', set())
    per_family = {}
    for fam, kind, cls in outcomes:
        per_family.setdefault(fam, set()).add((kind, cls))
    chk.cov['distinct_outcomes_per_family'] = {k: len(v) for k, v in sorted(per_family.items())}
    chk.assumptions = [
        'QB-ref (qv/ref/interp.py) implements docs/REFSEM.md; where REFSEM follows qbee\'s typing table '
        'instead of Microsoft QBASIC it is a listed calibration point (REFSEM 11 and docs/notes/C01.md)',
        'programs are bounded as listed per family; nothing is claimed above the bounds',
        'numeric text of SINGLE/DOUBLE PRINT items is not judged here (compared as typed values; C16 decides digits)',
        'results of ^ with a non-integral result are compared with a relative tolerance (2e-6 SINGLE, 1e-12 DOUBLE)',
        'per-line parse memo is byte-identical to re-parsing (conformance slice in C20/C02)',
    ]
    chk.finish(
        rule=('every program of each family is run by QB-ref and compiled+run in the 6 configurations '
              '(O0..2 x -g) under every script of its menu; evaluations = programs items judged; '
              'non-trivial = item for which QB-ref gives a verdict (not unspecified/horizon) and that was '
              'compared trace-by-trace; distinct outcomes = (family, normal | error class) classes reached'),
        extra_cov={'families': desc, 'configs': O.CFG_NAMES})


def _dump(chk):
    """development aid: C01_DUMP=<path> writes every violation (not only the
    first 25 groups) for triage"""
    import json
    import os
    path = os.environ.get('C01_DUMP')
    if not path:
        return
    rows = []
    for feat, case, exp, obs, size in chk.violations:
        rows.append({'features': feat, 'source': case.get('source'), 'expected': exp,
                     'observed': obs, 'size': size, 'note': case.get('note')})
    with open(path, 'w') as f:
        json.dump(impl.jsonable(rows), f, indent=0, default=str)


def replay(rec):
    from ..ref import interp as R  # noqa: F401
    case = rec['case']
    src = case['source']
    script = case.get('script')
    print('--- source ---')
    print(src)
    print('--- script ---')
    print(script)
    print('--- expected (QB-ref) ---')
    print(rec.get('expected'))
    print('--- observed (recorded) ---')
    print(rec.get('observed'))
    print('--- implementation now ---')
    obs = O.run_impl(src, script, 400000)
    for ob in obs:
        print(ob['cfg'], ob.get('outcome', ob.get('brief')), impl.jsonable(ob.get('events')),
              ob.get('prints'))
    # the reference needs the AST: rebuild the item from its descriptor
    rc = 0
    rb = rec['case'].get('rebuild')
    v = None
    if rb:
        b = _builders()
        cs = b[rb['desc'][0]](tuple(_tup(rb['desc'])))
        items = [it for it in cs.items if it.feat.get('key') == rb['key']]
        if rb.get('pack'):
            items = [it for it in cs.items if it.feat.get('key') in rb['pack']]
        if items:
            prog = O._prog(cs, items if rb.get('pack') else items[:1])
            v = O.judge(prog, items[0].script)
            print('--- QB-ref now ---')
            if v.ref is not None:
                print(v.ref.outcome, [O._clean(e) for e in v.ref.events], v.ref.prints)
            print('status:', v.status, v.note or '')
            for d in v.divs:
                print('DIVERGES:', d)
            rc = 1 if v.divs else 0
    if v is None:
        print('(no descriptor recorded: comparing configurations only)')
        c = O.consistency(obs)
        rc = 1 if c else 0
    return rc


def _tup(x):
    return tuple(_tup(i) if isinstance(i, list) else i for i in x)
