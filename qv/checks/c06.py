"""C06 - the compiler is total: any text yields a module or a located diagnostic.

Exhaustive enumeration of bounded text spaces (DESIGN section 4, C06); every
text is compiled in the six configurations by the real compiler."""
import itertools
import re

from .. import impl, corpus

LEVEL = 'exploration'

KW_Q = ['print', 'if', 'then', 'else', 'end', 'for', 'to', 'next', 'goto',
        'dim', 'as', 'integer', 'sub', 'call', 'do', 'loop', 'while', 'select',
        'case', 'input', 'data', 'not', 'mod', 'exit']
ID = ['x', 'a$', 's']
LIT = ['1', '2.5', '"t"']
PUNCT_Q = ['=', '(', ')', ',', ';', ':', '+', '-', '^', '<']
TOK_Q = KW_Q + ID + LIT + PUNCT_Q                     # 40 tokens
KW_T = ['gosub', 'return', 'wend', 'read', 'const', 'let', 'and', 'on',
        'error', 'resume', 'type', 'function', 'shared', 'static', 'using',
        'step', 'until', 'is', 'restore', 'locate', 'color', 'string', 'elseif',
        'declare']
PUNCT_T = ['*', '/', '\\', '>', '.', "'", '#', '&h1', '%']
TOK_T = TOK_Q + KW_T + PUNCT_T                         # 73 tokens
CORE4 = ['print', 'if', 'then', 'else', 'for', 'to', 'dim', 'as', 'case',
         'not', 'x', 'a$', '1', '"t"', '=', '(', ')', ',', ';', ':', '-', '^',
         'input', 'locate']                            # 24 tokens

LINES = ['if x then', 'else', 'elseif x then', 'end if', 'for i = 1 to 2',
         'next', 'next i', 'while x', 'wend', 'do', 'loop', 'do while x',
         'loop until x', 'select case x', 'case 1', 'case else', 'end select',
         'sub s', 'end sub', 'function f', 'end function', 'type t',
         'n as integer', 'end type', 'l1:', 'print 1', 'exit for', 'x = 1',
         'goto l1', 'if x then print 1 else print 2', 'data 1,2', 'restore l1',
         'dim v as t', 'end', 'const c = 1', 'exit sub', 'call s', 'f = 1',
         'exit do']
LINES_Q = LINES[:26]

PREAMBLE = ('type rec\nf as integer\nend type\ndim arr(3) as integer\n'
            'dim r as rec\ns$ = "a"\nn% = 1\nconst kc = 3\nlab:\n')
OPERANDS = {'missing': '', 'string': 's$', 'numeric': 'n%', 'array': 'arr',
            'record': 'r', 'keyword': 'then', 'strlit': '"q"', 'big': '100000',
            'neg': '-1', 'float': '2.5', 'elem': 'arr(1)', 'field': 'r.f',
            'paren': '(n%)', 'label': 'lab', 'double': '1d300',
            # constant expressions that fail when evaluated, a function name and a
            # constant where a variable is wanted (added after seeded / found misses)
            'divzero': '1 \\ 0', 'overflow': '32767 + 1', 'strcmp': '"a" < "b"',
            'fname': 'fn', 'const': 'kc', 'power': '2 ^ 1000'}
FORMS = [
    'x = {0}', 'x% = {0}', 'x$ = {0}', 'arr({0}) = {1}', 'r.f = {0}', 'r = {0}',
    'print {0}', 'print {0}; {1}', 'print {0}, {1}', 'print using {0}; {1}',
    'input {0}', 'input {0}; {1}', 'input {0}, {1}', 'line input {0}',
    'if {0} then print 1', 'if {0} then {1}', 'if n% then x = {0} else x = {1}',
    'for {0} = {1} to {2}: next', 'for i% = 1 to 2 step {0}: next',
    'while {0}: wend', 'do while {0}: loop', 'do until {0}: loop',
    'do: loop while {0}', 'do: loop until {0}',
    'select case {0}: case {1}: end select',
    'select case n%: case {0} to {1}: end select',
    'select case n%: case is > {0}: end select',
    'select case n%: case {0}, {1}: end select',
    'goto {0}', 'gosub {0}', 'return {0}', 'restore {0}', 'on error goto {0}',
    'resume {0}', 'dim q({0})', 'dim q({0} to {1})', 'dim q as {0}',
    'dim shared q({0}) as {1}', 'const k = {0}', 'read {0}', 'data {0}',
    'cls {0}', 'beep {0}', 'color {0}', 'color {0}, {1}', 'color {0}, {1}, {2}',
    'locate {0}', 'locate {0}, {1}', 'locate , {0}', 'locate {0}, {1}, {2}',
    'locate {0}, {1}, {2}, {3}, {4}', 'screen {0}', 'screen {0}, {1}',
    'width {0}', 'width {0}, {1}', 'view print {0} to {1}', 'view print {0}',
    'sound {0}, {1}', 'play {0}', 'poke {0}, {1}', 'def seg = {0}', 'def seg {0}',
    'randomize {0}', 'kill {0}', 'bload {0}, {1}', 'bsave {0}, {1}, {2}',
    'x = abs({0})', 'x = asc({0})', 'x$ = chr$({0})', 'x = cint({0})',
    'x = clng({0})', 'x = int({0})', 'x = instr({0}, {1})',
    'x = instr({0}, {1}, {2})', 'x$ = lcase$({0})', 'x$ = left$({0}, {1})',
    'x = len({0})', 'x$ = ltrim$({0})', 'x$ = mid$({0}, {1})',
    'x$ = mid$({0}, {1}, {2})', 'x = peek({0})', 'x$ = right$({0}, {1})',
    'x = rnd({0})', 'x$ = rtrim$({0})', 'x$ = space$({0})', 'x$ = str$({0})',
    'x$ = string$({0}, {1})', 'x$ = ucase$({0})', 'x = val({0})',
    'x = lbound({0})', 'x = ubound({0}, {1})', 'x = timer({0})', 'x$ = inkey$({0})',
    'x = {0} + {1}', 'x = {0} - {1}', 'x = {0} * {1}', 'x = {0} / {1}',
    'x = {0} \\ {1}', 'x = {0} mod {1}', 'x = {0} ^ {1}', 'x = {0} and {1}',
    'x = {0} or {1}', 'x = {0} xor {1}', 'x = {0} eqv {1}', 'x = {0} imp {1}',
    'x = {0} = {1}', 'x = {0} < {1}', 'x = {0} <> {1}', 'x = not {0}',
    'x = -{0}', 'x = +{0}', 'call p({0})', 'p {0}', 'call p2({0}, {1})',
    'x = fn({0})', 'x = fn2({0}, {1})', 'exit {0}', 'end {0}', 'let x = {0}',
    'swap {0}, {1}', 'erase {0}', 'redim q({0})', 'on {0} goto lab',
    'defint {0}', 'declare sub z ({0})', 'static {0}', 'shared {0}',
]
FORM_SUFFIX = ('\nsub p(a%)\nend sub\nsub p2(a%, b$)\nend sub\n'
               'function fn(a%)\nfn = a%\nend function\n'
               'function fn2(a%, b$)\nfn2 = a%\nend function\n')

_TOKEN_RE = re.compile(r'"[^"\n]*"|[A-Za-z_][A-Za-z0-9_.]*[%&!#$]?|\d+\.?\d*(?:[eEdD][+-]?\d+)?[%&!#]?|<>|<=|>=|\n|[^\sA-Za-z0-9]')


def tokenize(src):
    return _TOKEN_RE.findall(src)


def untokenize(toks):
    out = []
    for t in toks:
        if t == '\n':
            out.append('\n')
        else:
            if out and out[-1] != '\n':
                out.append(' ')
            out.append(t)
    return ''.join(out)


KEYWORDS = set(KW_Q + KW_T + """line def seg cls beep screen width view sound play poke
peek randomize kill bload bsave abs asc chr$ cint clng int instr lcase$ left$ len ltrim$
mid$ right$ rnd rtrim$ space$ str$ string$ ucase$ val lbound ubound timer inkey$ swap erase
redim defint defsng defdbl deflng defstr or xor eqv imp long single double rem system stop
err key list name out wait base loc pos""".split())


def pattern(text):
    """token-class pattern of a (minimised) input: the ledger matches on this"""
    out = []
    for t in tokenize(text):
        tl = t.lower()
        if t == '\n':
            out.append('/')
        elif t.startswith('"'):
            out.append('S')
        elif t[0].isdigit():
            body = t.rstrip('%&!#')
            if any(c in body.lower() for c in '.ed'):
                out.append('F')      # floating literal
            elif int(body) >= 32768:
                out.append('L')      # does not fit INTEGER
            else:
                out.append('N')
        elif tl in KEYWORDS:
            out.append(tl)
        elif t[0].isalpha() or t[0] == '_':
            suffix = t[-1] if t[-1] in '%&!#$' else ''
            out.append('V' + suffix + ('.f' if '.' in t else ''))
        else:
            out.append(t)
    return ' '.join(out)


def judge(text, cfgs=impl.CONFIGS):
    """-> list of (divergence, detail) ; empty if total on this text"""
    bad = []
    for o, g in cfgs:
        r = impl.compile_text(text, o, g, limit=10.0)
        if r.kind == 'ok':
            continue
        if r.kind in ('syntax', 'compile'):
            if r.loc is None:
                bad.append(('no-position', r.kind, o, g, r.brief()))
            elif not isinstance(r.loc, int) or r.loc < 0 or r.loc > len(text):
                bad.append(('bad-position', r.kind, o, g, r.brief()))
            continue
        if r.kind == 'timeout':
            bad.append(('timeout', r.stage, o, g, r.brief()))
            break   # do not burn the budget five more times
        else:
            bad.append(('internal-error', r.exc + '/' + str(r.stage), o, g, r.brief()))
    return bad


def _sig(bad):
    return sorted(set((b[0], b[1]) for b in bad))


def minimise(units, join, sig):
    """drop windows of units (largest windows first, restarting after each
    success) while the same divergence signature persists"""
    units = list(units)
    budget = 600
    progressed = True
    while progressed and len(units) > 1 and budget > 0:
        progressed = False
        for k in range(len(units) - 1, 0, -1):
            for i in range(0, len(units) - k + 1):
                cand = units[:i] + units[i + k:]
                budget -= 1
                if _sig(judge(join(cand))) == sig:
                    units = cand
                    progressed = True
                    break
                if budget <= 0:
                    break
            if progressed or budget <= 0:
                break
    return units


def eval_chunk(chunk):
    impl.parse_cache(True)
    viol = []
    st = {'evaluations': 0, 'compiles': 0, 'accepted': 0, 'rejected': 0,
          'verdicts': set()}
    for fam, mode, units in chunk:
        join = JOIN[mode]
        text = join(units)
        st['evaluations'] += 1
        st['compiles'] += 6
        bad = judge(text)
        r0 = impl.compile_text(text, 0, False)
        if r0.kind == 'ok':
            st['accepted'] += 1
            st['verdicts'].add(('ok', fam, len(units)))
        else:
            st['rejected'] += 1
            st['verdicts'].add((r0.kind, r0.err_code, fam))
        if not bad:
            continue
        sig = _sig(bad)
        mu = minimise(units, join, sig) if mode != 'raw' else units
        mtext = join(mu)
        mbad = judge(mtext)
        cfgs = sorted(set(f'O{b[2]}{"g" if b[3] else ""}' for b in mbad))
        for div, what in _sig(mbad):
            feat = {'family': fam, 'divergence': div, 'what': what,
                    'pattern': pattern(mtext)[:300],
                    'configs': 'all' if len(cfgs) == 6 else ','.join(cfgs)}
            viol.append((feat, {'text': mtext, 'original': text},
                         'module or Syntax/CompileError with position inside the text',
                         [b[4] for b in mbad if b[0] == div][:3], len(mtext)))
    return viol, st


def _form_lines(stmt):
    return (PREAMBLE + stmt + FORM_SUFFIX).split('\n')


def _join_tokens(u):
    return ' '.join(u)


def _join_lines(u):
    return '\n'.join(u)


def _join_form(u):
    return PREAMBLE + u[0] + FORM_SUFFIX


JOIN = {'tok': _join_tokens, 'lines': _join_lines, 'raw': lambda u: u[0],
        'form': _join_form, 'src': untokenize}


def space(tier):
    fams = []
    # (a) token strings
    toks = TOK_Q if tier == 'quick' else TOK_T
    a = []
    for n in (1, 2, 3):
        a.extend(('tokens', 'tok', list(t)) for t in itertools.product(toks, repeat=n))
    if tier == 'thorough':
        a.extend(('tokens4', 'tok', list(t)) for t in itertools.product(CORE4, repeat=4))
    fams.append(('tokens', a, {'alphabet': toks, 'max_len': 3,
                               'len4_core': CORE4 if tier == 'thorough' else None}))
    # (b) line sequences
    lines = LINES_Q if tier == 'quick' else LINES
    b = []
    nmax = 3
    for n in range(1, nmax + 1):
        b.extend(('lines', 'lines', list(t)) for t in itertools.product(lines, repeat=n))
    if tier == 'thorough':
        b.extend(('lines', 'lines', list(t)) for t in itertools.product(LINES_Q, repeat=4))
    fams.append(('lines', b, {'alphabet': lines, 'max_len': nmax,
                              'len4_over': LINES_Q if tier == 'thorough' else None}))
    # (c) statement forms x operand faults
    c = []
    ops = list(OPERANDS.items())
    for form in FORMS:
        nslots = len(set(re.findall(r'\{(\d)\}', form)))
        base = ['n%'] * nslots
        seen = set()
        # every slot x every fault, others benign numeric or string
        for benign in ('n%', 's$'):
            for i in range(nslots):
                for fname, fval in ops:
                    args = [benign] * nslots
                    args[i] = fval
                    stmt = form.format(*args)
                    if stmt not in seen:
                        seen.add(stmt)
                        c.append(('forms', 'lines', _form_lines(stmt)))
            stmt = form.format(*([benign] * nslots))
            if stmt not in seen:
                seen.add(stmt)
                c.append(('forms', 'lines', _form_lines(stmt)))
        # extra operand
        stmt = form.format(*base) + ', n%'
        c.append(('forms', 'lines', _form_lines(stmt)))
        if tier == 'thorough' and nslots >= 2:
            for combo in itertools.product([v for _, v in ops], repeat=2):
                args = list(combo) + ['n%'] * (nslots - 2)
                stmt = form.format(*args)
                if stmt not in seen:
                    seen.add(stmt)
                    c.append(('forms', 'lines', _form_lines(stmt)))
    fams.append(('forms', c, {'forms': len(FORMS), 'operand_faults': list(OPERANDS)}))
    # (d) nesting ladders
    d = []
    maxd = 12
    for k in range(1, maxd + 1):
        d.append(('ladder', 'raw', ['x = ' + '(' * k + '1' + ')' * k]))
        d.append(('ladder', 'raw', ['x = ' + 'not ' * k + '1']))
        d.append(('ladder', 'raw', ['x = ' + '-' * k + '1']))
        d.append(('ladder', 'raw', ['x = ' + 'abs(' * k + '1' + ')' * k]))
        d.append(('ladder', 'raw', ['x = ' + '1 + (' * k + '1' + ')' * k]))
        d.append(('ladder', 'raw', ['\n'.join(['if x then'] * k + ['print 1'] + ['end if'] * k)]))
        d.append(('ladder', 'raw', ['\n'.join([f'for i{j} = 1 to 2' for j in range(k)] + ['print 1'] + ['next'] * k)]))
        d.append(('ladder', 'raw', ['\n'.join(['do'] * k + ['print 1'] + ['loop'] * k)]))
        d.append(('ladder', 'raw', ['\n'.join(['select case x', 'case 1'] * k + ['print 1'] + ['end select'] * k)]))
        d.append(('ladder', 'raw', ['dim a(' + ','.join(['1'] * k) + ')']))
        d.append(('ladder', 'raw', ['x = 1' + ' + 1' * (k * 8)]))
        d.append(('ladder', 'raw', ['print 1' + '; 1' * (k * 8)]))
        d.append(('ladder', 'raw', [': '.join(['x = 1'] * (k * 4))]))
        d.append(('ladder', 'raw', ['if x then ' * k + 'print 1']))
        d.append(('ladder', 'raw', ['x$ = ' + '"a" + ' * (k * 4) + '"b"']))
    fams.append(('ladder', d, {'max_depth': maxd}))
    # (f) declaration blocks: TYPE blocks (self-referential, undefined, later-defined,
    # mutually recursive element types) x uses; CONST / DIM / SUB headers whose
    # constant expressions fail to evaluate
    f = []
    elems = ['a as integer', 'b as string * 4', 'c as t', 'd as u', 'e as zz',
             'f as string', 'g(3) as integer', 'a as long']
    uses = ['', 'dim v as t', 'dim w(2) as t', 'dim shared sv as t', 'v.a = 1',
            'sub q(p as t)\nend sub', 'dim x1 as u', 'dim v as t\ndim w as t\nv = w']
    others = ['', 'type u\nh as integer\nend type', 'type u\nh as t\nend type']
    nel = (1, 2) if tier == 'quick' else (1, 2, 3)
    for n in nel:
        for body in itertools.product(elems, repeat=n):
            for use in uses:
                for oth in others:
                    for oth_first in ((False,) if not oth else (False, True)):
                        t = 'type t\n' + '\n'.join(body) + '\nend type'
                        parts = ([oth, t] if oth_first else [t, oth]) + [use]
                        f.append(('decls', 'raw', ['\n'.join(x for x in parts if x)]))
    bad_consts = ['1 / 0', '1 \\ 0', '1 mod 0', '32767 + 1', '2 ^ 1000', '(-8) ^ 0.5',
                  '"a" < "b"', '-(-32768)', '1e38 * 10', 'not 2.5e9', '"a" + "b"', '2 ^ -1']
    for e in bad_consts:
        for tmpl in ['const k = {0}', 'const k = {0}\nprint k', 'const k% = {0}',
                     'dim q({0})', 'dim q(1 to {0})', 'dim shared q({0})', 'dim q({0}) as string',
                     'sub p\nconst k = {0}\nend sub', 'sub p\ndim q({0})\nend sub',
                     'sub p\nstatic q({0})\nend sub', 'const k = {0}\nconst j = k + 1\nprint j',
                     'const k = {0}\ndim q(k)', 'x = {0}', 'print {0}', 'if {0} then print 1',
                     'select case 1\ncase {0}\nend select', 'for i = 1 to {0}\nnext',
                     'type t\na as string * {0}\nend type']:
            f.append(('decls', 'raw', [tmpl.format(e)]))
    fams.append(('decls', f, {'type_elements': elems, 'uses': uses, 'failing_constants': bad_consts}))
    # (e) single-token edits of the corpus (thorough)
    if tier == 'thorough':
        e = []
        seen = set()
        for cs in corpus.cases():
            toks = tokenize(cs['src'])
            if len(toks) > 60:
                continue
            for i in range(len(toks)):
                cands = [toks[:i] + toks[i + 1:], toks[:i] + [toks[i]] + toks[i:]]
                for s in CORE4:
                    if s != toks[i]:
                        cands.append(toks[:i] + [s] + toks[i + 1:])
                for cnd in cands:
                    k = '\x00'.join(cnd)
                    if k not in seen:
                        seen.add(k)
                        e.append(('edits', 'src', cnd))
        fams.append(('edits', e, {'sources': len(corpus.cases()), 'substitutes': CORE4}))
    return fams


def run(chk):
    fams = space(chk.tier)
    desc = {}
    total = 0
    for name, items, d in fams:
        if chk.only and name not in chk.only:
            chk.cov['exhaustive'] = False
            continue
        d = dict(d)
        d['cases'] = len(items)
        desc[name] = d
        total += len(items)
        for viol, st in chk.pmap(eval_chunk, items, chunk=250 if name in ('tokens', 'lines', 'edits') else 40):
            chk.add_violations(viol)
            chk.merge_stats(st)
        for it in (items[0], items[len(items) // 2], items[-1]):
            chk.sample({'family': name, 'text': JOIN[it[1]](it[2])[:300]})
    nverd = len(chk.cov.get('_sets', {}).get('verdicts', ()))
    chk.cov['distinct_nontrivial'] = chk.cov.get('accepted', 0) + 0
    chk.assumptions = ['texts are bounded as listed per family; nothing is claimed above the bounds',
                       'per-line parse memo is byte-identical to re-parsing (conformance slice in C20/C02)']
    chk.finish(
        rule=('every text of each family is compiled in the 6 configurations (O0..2 x -g); '
              'non-trivial = text accepted by the compiler (reaches passes, folding, codegen, '
              'peephole, assembler and listing); verdicts = distinct (kind, error code, family) classes'),
        extra_cov={'families': desc, 'configs': ['O%d%s' % (o, 'g' if g else '') for o, g in impl.CONFIGS],
                   'distinct_outcomes': nverd})


def replay(rec):
    text = rec['case']['text']
    print('--- text ---')
    print(text)
    print('--- verdicts ---')
    rc = 0
    for o, g in impl.CONFIGS:
        r = impl.compile_text(text, o, g)
        print(f'O{o} g={g}: {r.brief()}')
    if judge(text):
        print('NOT TOTAL')
        rc = 1
    return rc
