"""C15 - DATA items are read in source order and RESTORE repositions exactly.

Three families, all exhaustive inside their bounds:

tok    every DATA text over {a 1 blank , " :} up to a length bound is compiled
       by the real compiler as `DATA <text>` and read back as strings until
       the sentinel / the out-of-data error; oracle = qv.ref.datatok
       (three-valued).  Longer texts (thorough) go through the tokenizer
       function directly; conformance of the direct call with the compiled
       path is measured on the compiled set.
conv   READ of one item into each of the five types (typed observation of the
       value that reaches PRINT), also of a later item of a list; oracle = the
       statement's conversion rules, five-valued (value / error / value-or-
       error / error-or-unspecified / unspecified).
place  VX: every arrangement of <= n elements from {DATA, label+DATA on one
       line, numbered DATA line, label, line number, executed statement, SUB
       block containing a label, DATA after a colon, DATA nested in an IF
       block} with the driver loop at every position; breadth-first over all
       sequences of {READ numeric, READ string, READ two strings, RESTORE,
       RESTORE Li}; the driver resets its variables after every operation so
       the machine state is the read cursor alone and the search *closes*
       (frontier empty) long before the depth bound: the verdict then holds
       for operation sequences of any length.  Oracle = cursor over the
       concatenated item list.  A transition that diverges is reported and
       not explored further (only first divergences are reported).
"""
import itertools
import os
import re

from .. import impl
from ..explore import VX
from ..ref import datatok

LEVEL = 'model_checking'

ALPHABET = 'a1 ,":'
TOK_CONFIGS = [(0, False), (2, True)]
PLACE_CONFIGS_Q = [(0, False)]
PLACE_CONFIGS_T = [(0, False), (2, True)]
PACK = 16
SENTINEL = '#'


def cfgname(c):
    return 'O%d%s' % (c[0], 'g' if c[1] else '')


def compile_(src, cfg):
    """compile; a timeout is retried once with a longer limit (the machine is
    shared, a stall must not be reported as a hang of the compiler)"""
    r = impl.compile_text(src, cfg[0], cfg[1], limit=30.0, want_listing=False)
    if r.kind == 'timeout':
        r = impl.compile_text(src, cfg[0], cfg[1], limit=90.0, want_listing=False)
    return r


# ---------------------------------------------------------------------------
# the tokenizer function, called directly (thorough: lengths 7..8)

def _direct_fn():
    try:
        from qbee.utils import parse_data
        return parse_data
    except Exception:
        return None


def direct_strings(fn, stmt):
    """what READ s$ would deliver for each item according to the direct call;
    None = the function rejects the text; raises if the function raises"""
    r = fn(stmt)
    if r is None:
        return None
    return [x if isinstance(x, str) else '' for x in r]


# ---------------------------------------------------------------------------
# family tok

READER = ['end', 'rd:', 'read s$', 'if s$ = "%s" then' % SENTINEL, 'print "|";',
          'return', 'end if', 'print "["; s$; "]";', 'goto rd']


def pack_source(texts):
    lines = ['restore l%d: gosub rd' % i for i in range(len(texts))]
    lines += READER
    for i, t in enumerate(texts):
        lines += ['l%d:' % i, 'data ' + t, 'data ' + SENTINEL]
    return '\n'.join(lines) + '\n'


def single_source(text):
    # no sentinel: reads until the out-of-data error
    return 'rd:\nread s$\nprint "["; s$; "]";\ngoto rd\ndata ' + text + '\n'


_ITEM_RE = re.compile(r'\[([^\]]*)\]')


def _printed(out):
    return ''.join(e[1] for e in out.events if e[0] == 'print')


def run_single(text, cfg):
    """-> (compile result, strings or None, outcome or None)"""
    r = compile_(single_source(text), cfg)
    if not r.ok:
        return r, None, None
    out, _ = impl.run_module(impl.load(r.binary), impl.Env({}), horizon=20000)
    return r, _ITEM_RE.findall(_printed(out)), out


def run_pack(texts, cfg):
    """-> (compile result, list of string lists or None)"""
    r = compile_(pack_source(texts), cfg)
    if not r.ok:
        return r, None
    out, _ = impl.run_module(impl.load(r.binary), impl.Env({}), horizon=200000)
    txt = _printed(out)
    segs = txt.split('|')
    if out.end != 'halt' or len(segs) != len(texts) + 1 or segs[-1] != '':
        return r, None
    return r, [_ITEM_RE.findall(s) for s in segs[:-1]]


def judge_single(text, cfg, tk, st, direct):
    """full judgement of one text in its own program; -> list of violations"""
    viol = []
    r, got, out = run_single(text, cfg)
    st['compiles'] += 1
    cls = datatok.classify(text)
    feat = {'family': 'tok', 'path': 'compiled', 'class': cls, 'config': cfgname(cfg)}
    case = {'family': 'tok', 'text': text, 'config': list(cfg)}

    def v(div, exp, obs):
        f = dict(feat)
        f['divergence'] = div
        viol.append((f, case, exp, obs, len(text)))

    if r.kind in ('crash', 'timeout'):
        v('compiler-crash', 'module or diagnostic', r.brief())
        st['outcomes'].add(('crash', cls))
        return viol
    if not r.ok:
        st['rejected'] += 1
        st['outcomes'].add((r.kind, cls))
        if tk['must_compile']:
            v('rejected', {'items': tk['strings']}, r.brief())
        return viol
    st['accepted'] += 1
    st['outcomes'].add(('ok', tk['status'], len(got)))
    if out.end != 'trap' or out.trap in impl.MACHINE_FAULTS:
        v('no-out-of-data-error', 'run-time error after the last item',
          {'end': out.end, 'trap': out.trap, 'exc': out.exc, 'printed': _printed(out)[:200]})
    else:
        st['exhaustion_traps'] += 1
        st['trapnames'].add(out.trap)
    if tk['status'] == 'spec':
        st['judged'] += 1
        if got != tk['strings']:
            v('items', tk['strings'], got)
    else:
        st['unspecified_ran'] += 1
    if direct is not None:
        try:
            d = direct_strings(direct, tk['statement'])
        except Exception as e:  # noqa
            d = 'raised ' + type(e).__name__
        if d == got:
            st['direct_agree'] += 1
        elif tk['status'] == 'spec':
            st['direct_disagree_spec'] += 1
            f = dict(feat)
            f['divergence'] = 'direct-call-differs'
            f['path'] = 'direct'
            viol.append((f, case, got, d, len(text)))
        else:
            st['direct_disagree_unspec'] += 1
    return viol


def tok_stats():
    return {'evaluations': 0, 'compiles': 0, 'accepted': 0, 'rejected': 0, 'judged': 0,
            'unspecified_ran': 0, 'packed': 0, 'exhaustion_traps': 0,
            'direct_agree': 0, 'direct_disagree_spec': 0, 'direct_disagree_unspec': 0,
            'outcomes': set(), 'trapnames': set(), 'nontrivial_tok': 0}


def tok_chunk(chunk, single_upto):
    impl.parse_cache(True)
    direct = _direct_fn()
    viol = []
    st = tok_stats()
    packable = []
    for text in chunk:
        tk = datatok.tokenize(text)
        st['evaluations'] += 1
        if tk['status'] == 'spec' and (len(tk['items']) > 1 or '"' in text or tk['remainder'] is not None):
            st['nontrivial_tok'] += 1
        if tk['must_compile'] and len(text) > single_upto:
            packable.append((text, tk))
        else:
            for cfg in TOK_CONFIGS:
                viol.extend(judge_single(text, cfg, tk, st, direct))
    for i in range(0, len(packable), PACK):
        grp = packable[i:i + PACK]
        for cfg in TOK_CONFIGS:
            r, got = run_pack([t for t, _ in grp], cfg)
            st['compiles'] += 1
            if got is None or any(g != tk['strings'] for g, (_, tk) in zip(got, grp)):
                # something in the pack is off: judge each member on its own
                # so that the report (and the replay) is self-contained
                before = len(viol)
                for text, tk in grp:
                    viol.extend(judge_single(text, cfg, tk, st, direct))
                if len(viol) == before:
                    viol.append(({'family': 'tok', 'divergence': 'pack-only', 'path': 'compiled',
                                  'config': cfgname(cfg)},
                                 {'family': 'tokpack', 'texts': [t for t, _ in grp], 'config': list(cfg)},
                                 [tk['strings'] for _, tk in grp], got if got is not None else r.brief(),
                                 sum(len(t) for t, _ in grp)))
                continue
            st['packed'] += len(grp)
            st['accepted'] += len(grp)
            st['judged'] += len(grp)
            for g, (text, tk) in zip(got, grp):
                st['outcomes'].add(('ok', 'spec', len(g)))
                if direct is not None:
                    try:
                        d = direct_strings(direct, tk['statement'])
                    except Exception as e:  # noqa
                        d = 'raised ' + type(e).__name__
                    if d == g:
                        st['direct_agree'] += 1
                    else:
                        st['direct_disagree_spec'] += 1
                        viol.append(({'family': 'tok', 'divergence': 'direct-call-differs', 'path': 'direct',
                                      'class': datatok.classify(text), 'config': cfgname(cfg)},
                                     {'family': 'tok', 'text': text, 'config': list(cfg)}, g, d, len(text)))
    return viol, st


def direct_chunk(chunk):
    """chunk of (prefix, total_length): all texts prefix + suffix judged through
    the direct call"""
    fn = _direct_fn()
    viol = []
    st = {'evaluations': 0, 'direct_evaluations': 0, 'direct_judged': 0, 'direct_unspecified': 0,
          'direct_outcomes': set(), 'nontrivial_tok': 0}
    for prefix, n in chunk:
        for suf in itertools.product(ALPHABET, repeat=n - len(prefix)):
            text = prefix + ''.join(suf)
            tk = datatok.tokenize(text)
            st['evaluations'] += 1
            st['direct_evaluations'] += 1
            try:
                d = direct_strings(fn, tk['statement'])
            except Exception as e:  # noqa
                viol.append(({'family': 'tok', 'divergence': 'tokenizer-raised', 'path': 'direct',
                              'class': datatok.classify(text)},
                             {'family': 'tokdirect', 'text': text}, 'a list of items or a rejection',
                             type(e).__name__ + ': ' + str(e)[:100], len(text)))
                continue
            if tk['status'] != 'spec':
                st['direct_unspecified'] += 1
                st['direct_outcomes'].add(('unspec', d is None))
                continue
            st['direct_judged'] += 1
            if len(tk['items']) > 1 or '"' in text or tk['remainder'] is not None:
                st['nontrivial_tok'] += 1
            st['direct_outcomes'].add(('spec', len(tk['items'])))
            if d != tk['strings']:
                viol.append(({'family': 'tok', 'divergence': 'items', 'path': 'direct',
                              'class': datatok.classify(text)},
                             {'family': 'tokdirect', 'text': text}, tk['strings'], d, len(text)))
    return viol, st


# ---------------------------------------------------------------------------
# family conv: one item read into each type

TYPES = [('%', 'INTEGER'), ('&', 'LONG'), ('!', 'SINGLE'), ('#', 'DOUBLE'), ('$', 'STRING')]
# (DATA text, index of the item that is read into the typed variable; the
# items before it are read into a string variable)
CONV_ITEMS = [(t, 0) for t in [
    '', '1', '-2', ' 7 ', '+5', '32767', '-32768', '32768', '-32769', '2147483647',
    '2147483648', '-2147483649', '1.5', '2.5', '-0.5', '.25', '1e3', '1E3', '1e39', '1e309',
    'x', '1x', 'a1', '1 2', '- 1', '"3"', '"x"', '""', '&H10', '1,2', '0x10', '1e', 'e1', '1.2.3', '--1',
    '1_0', '1_000', '1e1_0', 'nan', 'NaN', '+nan', 'inf', '-inf', 'Infinity']] + \
    [(',5', 0), ('1,,2', 1), ('1, ,2', 1), ('1,', 1), ('x, 2', 1), ('"a,b",3', 1), ('1,x', 1), ('1,"",2', 1)]
_INT_RE = re.compile(r'^[+-]?[0-9]+\Z')
_DEC_RE = re.compile(r'^[+-]?([0-9]+\.?[0-9]*|\.[0-9]+)([eE][+-]?[0-9]+)?\Z')
RANGES = {'INTEGER': (-32768, 32767), 'LONG': (-2 ** 31, 2 ** 31 - 1)}


def _f32(x):
    import struct
    return struct.unpack('>f', struct.pack('>f', x))[0]


def _half_even(x):
    import fractions
    import math
    f = fractions.Fraction(x)
    lo = math.floor(f)
    d = f - lo
    if d > fractions.Fraction(1, 2) or (d == fractions.Fraction(1, 2) and lo % 2):
        return lo + 1
    return lo


def conv_expect(text, tname, idx=0):
    """-> ('value', v) | ('error',) | ('value-or-error', v) | ('error-or-unspec', why) |
    ('unspec', why) for READ of item `idx` of `DATA <text>` into a variable of
    type tname"""
    tk = datatok.tokenize(text)
    if tk['status'] != 'spec':
        return ('unspec', tk['status'])
    kind, s = tk['items'][idx]
    if tname == 'STRING':
        return ('value', s)
    if kind == 'e':
        return ('value', 0 if tname in RANGES else 0.0)
    if kind == 'q':
        return ('unspec', 'quoted item into a numeric variable')
    if _INT_RE.match(s):
        n = int(s)
        if tname in RANGES:
            lo, hi = RANGES[tname]
            if lo <= n <= hi:
                return ('value', n)
            return ('error-or-unspec', 'integer numeral outside the range of the type')
        return ('value', _f32(float(n)) if tname == 'SINGLE' else float(n))
    if _DEC_RE.match(s):
        x = float(s)
        if x in (float('inf'), float('-inf')):
            return ('unspec', 'numeral beyond the DOUBLE range')
        if tname in RANGES:
            # "converted to the type of the receiving variable": the numeral
            # is a number, the conversion rounds half to even.  The statement
            # can also be read as demanding an integer numeral, so an error is
            # tolerated; a *different value* is not.
            n = _half_even(x)
            lo, hi = RANGES[tname]
            if lo <= n <= hi:
                return ('value-or-error', n)
            return ('error-or-unspec', 'numeral outside the range of the type')
        if tname == 'SINGLE':
            try:
                return ('value', _f32(x))
            except OverflowError:
                return ('error-or-unspec', 'numeral beyond the SINGLE range')
        return ('value', x)
    if re.match(r'^&[hHoO]', s):
        return ('unspec', 'BASIC radix numeral')
    squeezed = s.replace(' ', '')
    if squeezed != s and (_INT_RE.match(squeezed) or _DEC_RE.match(squeezed)):
        return ('unspec', 'numeral with blanks inside')
    return ('error',)       # text into a numeric variable


def conv_source(text, sfx, idx=0):
    return 'read a$\n' * idx + 'read v%s\nprint v%s\ndata %s\n' % (sfx, sfx, text)


def _host_accepts(s):
    for f in (int, float):
        try:
            f(s)
            return True
        except ValueError:
            pass
    return False


def conv_item_class(text, idx=0):
    """input-side class of the item (feature for the ledger)"""
    tk = datatok.tokenize(text)
    if tk['status'] != 'spec':
        return 'unspecified-text'
    kind, s = tk['items'][idx]
    if kind == 'e':
        return 'empty'
    if kind == 'q':
        return 'quoted'
    if _INT_RE.match(s):
        return 'integer'
    if _DEC_RE.match(s):
        return 'decimal'
    if _host_accepts(s):
        # not a BASIC numeral, but something the host language's int()/float()
        # takes: nan, inf, infinity, digits grouped with underscores
        return 'host-numeral'
    return 'text'


def conv_judge(text, idx, sfx, tname, cfg):
    """-> (violation or None, observation)"""
    exp = conv_expect(text, tname, idx)
    src = conv_source(text, sfx, idx)
    r = compile_(src, cfg)
    feat = {'family': 'conv', 'type': tname, 'item_class': conv_item_class(text, idx), 'config': cfgname(cfg)}
    case = {'family': 'conv', 'text': text, 'index': idx, 'sfx': sfx, 'type': tname, 'config': list(cfg)}
    if not r.ok:
        obs = ('compile', r.brief())
        if r.kind in ('crash', 'timeout') or exp[0] != 'unspec':
            feat['divergence'] = 'compiler-crash' if r.kind in ('crash', 'timeout') else 'rejected'
            return (feat, case, list(exp), r.brief(), len(text)), obs
        return None, obs
    out, _ = impl.run_module(impl.load(r.binary), impl.Env({}), horizon=5000, typed_prints=True)
    if out.end == 'trap':
        obs = ('trap', out.trap)
    elif out.end in ('halt', 'eoc') and out.prints and out.prints[0] and \
            isinstance(out.prints[0][0], tuple):
        obs = ('value', out.prints[0][0][0], out.prints[0][0][1])
    else:
        obs = (out.end, out.exc)
    div = None
    if obs[0] not in ('trap', 'value'):
        div = 'host-exception'
    elif obs[0] == 'trap' and obs[1] in impl.MACHINE_FAULTS:
        div = 'machine-fault'
    elif exp[0] == 'value':
        if obs[0] != 'value':
            div = 'error-instead-of-value'
        elif obs[1] != tname or type(obs[2]) is not type(exp[1]) or obs[2] != exp[1]:
            div = 'value'
    elif exp[0] == 'value-or-error':
        if obs[0] == 'value' and (obs[1] != tname or type(obs[2]) is not type(exp[1]) or obs[2] != exp[1]):
            div = 'value'
    elif exp[0] == 'error':
        if obs[0] == 'value':
            div = 'text-read-as-number'
    elif exp[0] == 'error-or-unspec':
        # whatever happens, a delivered value must be of the variable's type
        if obs[0] == 'value':
            ok = obs[1] == tname
            if tname in RANGES:
                ok = ok and RANGES[tname][0] <= obs[2] <= RANGES[tname][1]
            if not ok:
                div = 'ill-typed-value'
    if obs[0] == 'value' and obs[1] != tname and div is None:
        div = 'ill-typed-value'
    if div is None:
        return None, obs
    feat['divergence'] = div
    return (feat, case, list(exp), list(obs), len(text)), obs


def conv_chunk(chunk):
    impl.parse_cache(True)
    viol = []
    st = {'evaluations': 0, 'conv_cases': 0, 'conv_judged': 0, 'conv_unspecified': 0,
          'conv_outcomes': set(), 'conv_inconsistent': 0, 'conv_tolerated_errors': 0}
    for text, idx, sfx, tname in chunk:
        st['evaluations'] += 1
        st['conv_cases'] += 1
        exp = conv_expect(text, tname, idx)
        if exp[0] == 'unspec':
            st['conv_unspecified'] += 1
        else:
            st['conv_judged'] += 1
        seen = []
        bydiv = {}
        for cfg in impl.CONFIGS:
            v, obs = conv_judge(text, idx, sfx, tname, cfg)
            if v:
                bydiv.setdefault(v[0]['divergence'], []).append(v)
            seen.append(obs)
            st['conv_outcomes'].add((exp[0],) + tuple(obs[:2]))
        if exp[0] == 'value-or-error' and seen[0][0] == 'trap':
            st['conv_tolerated_errors'] += 1
        for div, vs in bydiv.items():
            f = dict(vs[0][0])
            f['config'] = 'all' if len(vs) == len(impl.CONFIGS) else ','.join(x[0]['config'] for x in vs)
            viol.append((f,) + tuple(vs[0][1:]))
        if any(repr(o) != repr(seen[0]) for o in seen):
            st['conv_inconsistent'] += 1
            viol.append(({'family': 'conv', 'divergence': 'configurations-disagree', 'type': tname,
                          'item_class': conv_item_class(text, idx)},
                         {'family': 'conv', 'text': text, 'index': idx, 'sfx': sfx, 'type': tname,
                          'config': [0, False]},
                         'the same observation in all six configurations',
                         [list(o) for o in seen], len(text)))
    return viol, st


# ---------------------------------------------------------------------------
# family place
#
# An arrangement is a sequence of elements; the driver loop (below) is put
# after the first `pos` of them, so the elements before it are executed once
# and the ones after it never.
#
#   D    data <items>
#   LD   lN: data <items>            label and DATA on one line
#   ND   <n>00 data <items>          line number as the label
#   L    lN:                         label on a line of its own
#   N    <n>00                       line number on a line of its own
#   X    c% = c% + 1                 executed statement
#   S    sub sN / mN: / end sub      procedure containing a label
#   XD   c% = c% + 1: data <items>   DATA as the second statement of a line
#   ID   if c% = 99 then / data <items> / end if     DATA nested in a block

KINDS_Q = ['D', 'LD', 'ND', 'L', 'X', 'S', 'XD']
KINDS_T = KINDS_Q + ['N', 'ID']
DATA_KINDS = ('D', 'LD', 'ND', 'XD', 'ID')
OP_READ_N, OP_READ_S, OP_RESTORE, OP_READ_2 = 1, 2, 3, 4
FIRST_LABEL_OP = 5


def build(segs, pos):
    """-> dict describing the arrangement `segs` (tuple of kinds) with the
    driver loop after the first `pos` elements"""
    elements = []     # source order: ('data', items) ('label', name) ('stmt',) ('sublabel', name)
    seg_lines = []
    nd = nl = ns = nn = 0

    def data_items():
        return ['%d1' % nd, 't%d' % nd] if nd % 2 else ['%d1' % nd]

    for k in segs:
        ls = []
        if k in DATA_KINDS:
            nd += 1
            its = data_items()
            txt = 'data ' + ', '.join(its)
            if k == 'D':
                ls.append(txt)
            elif k == 'LD':
                nl += 1
                elements.append(('label', 'l%d' % nl))
                ls.append('l%d: %s' % (nl, txt))
            elif k == 'ND':
                nn += 1
                elements.append(('label', '%d00' % nn))
                ls.append('%d00 %s' % (nn, txt))
            elif k == 'XD':
                elements.append(('stmt',))
                ls.append('c% = c% + 1: ' + txt)
            elif k == 'ID':
                elements.append(('stmt',))
                ls += ['if c% = 99 then', txt, 'end if']
            elements.append(('data', its))
        elif k == 'L':
            nl += 1
            elements.append(('label', 'l%d' % nl))
            ls.append('l%d:' % nl)
        elif k == 'N':
            nn += 1
            elements.append(('label', '%d00' % nn))
            ls.append('%d00' % nn)
        elif k == 'X':
            elements.append(('stmt',))
            ls.append('c% = c% + 1')
        elif k == 'S':
            ns += 1
            elements.append(('sublabel', 'm%d' % ns))
            ls += ['sub s%d' % ns, 'm%d:' % ns, 'end sub']
        else:
            raise ValueError(k)
        seg_lines.append(ls)
    items = []
    starts = []            # element index -> item index where that DATA starts
    for e in elements:
        if e[0] == 'data':
            starts.append(len(items))
            items.extend(e[1])
        else:
            starts.append(None)
    labels = []
    targets = {}
    between = {}
    for i, e in enumerate(elements):
        if e[0] != 'label':
            continue
        labels.append(e[1])
        tgt = None
        inter = set()
        for j in range(i + 1, len(elements)):
            if elements[j][0] == 'data':
                tgt = starts[j]
                break
            inter.add(elements[j][0])
        targets[e[1]] = tgt
        between[e[1]] = sorted(inter)
    # item index at which a DATA statement follows a different "most recent
    # label of any kind" than the DATA statement before it.  Used only to
    # *name the shape* of a divergence (ledger matching), never for a verdict.
    lastlabel_starts = []
    last = object()
    cur = None
    for i, e in enumerate(elements):
        if e[0] in ('label', 'sublabel'):
            cur = e[1]
        elif e[0] == 'data':
            if cur != last:
                lastlabel_starts.append(starts[i])
                last = cur
    before = [l for ls in seg_lines[:pos] for l in ls]
    after = [l for ls in seg_lines[pos:] for l in ls]
    return {'before': before, 'after': after, 'elements': elements, 'items': items,
            'labels': labels, 'targets': targets, 'between': between,
            'lastlabel_starts': lastlabel_starts, 'n_data': nd}


def driver(labels):
    """one operation per answer to INPUT; the variables are reset after every
    operation so that the machine state is the read cursor and nothing else
    (the exploration then closes after a few steps)"""
    ls = ['do', 'input k%', 'select case k%',
          'case 1', 'read n%', 'print n%', 'n% = 0',
          'case 2', 'read s$', 'print "["; s$; "]"', 's$ = ""',
          'case 3', 'restore',
          'case 4', 'read s$, t$', 'print "["; s$; "]["; t$; "]"', 's$ = ""', 't$ = ""']
    for i, lab in enumerate(labels):
        ls += ['case %d' % (FIRST_LABEL_OP + i), 'restore ' + lab]
    ls += ['end select', 'k% = 0', 'loop']
    return ls


def place_source(b, labels):
    return '\n'.join(b['before'] + driver(labels) + b['after']) + '\n'


def _num_out(it):
    n = int(it)
    return ('-' if n < 0 else ' ') + str(abs(n)) + ' \r\n'


def model_step(b, labels, state, op, shape=None):
    """the reference cursor.  state = (index into the concatenated item list,
    flag used by the alternative shapes only).  -> (new state, text printed
    by the operation, or None for a run-time error).

    shape=None is the property.  shape='plain-restore-selects-last-group'
    describes a known wrong behaviour (plain RESTORE positions at the last
    group of DATA that share their most recent label, and reading on from
    there continues at the first item); it is used to tag a divergence for
    the ledger, never to accept one."""
    items = b['items']
    cur, flag = state

    def adv(c, f):
        c += 1
        if f and c >= len(items):
            return 0, False
        return c, f

    if op in (OP_READ_N, OP_READ_S):
        if cur >= len(items):
            return state, None
        it = items[cur]
        if op == OP_READ_N:
            if not _INT_RE.match(it):
                return state, None
            return adv(cur, flag), _num_out(it)
        return adv(cur, flag), '[' + it + ']\r\n'
    if op == OP_READ_2:
        if cur >= len(items):
            return state, None
        a = items[cur]
        cur, flag = adv(cur, flag)
        if cur >= len(items):
            return state, None
        c = items[cur]
        return adv(cur, flag), '[' + a + '][' + c + ']\r\n'
    if op == OP_RESTORE:
        if shape == 'plain-restore-selects-last-group':
            st = b['lastlabel_starts']
            if not st:
                return (0, False), ''
            return (st[-1], True), ''
        return (0, False), ''
    return (b['targets'][labels[op - FIRST_LABEL_OP]], False), ''


ALT_SHAPES = ['plain-restore-selects-last-group']


def model_run(b, labels, ops, shape=None):
    st = (0, False)
    outs = []
    for op in ops:
        st, o = model_step(b, labels, st, op, shape)
        outs.append(o)
        if o is None:
            break
    return st, outs


def opname(op):
    return {OP_READ_N: 'read-numeric', OP_READ_S: 'read-string', OP_RESTORE: 'restore',
            OP_READ_2: 'read-two'}.get(op, 'restore-label')


def _ops_of(path):
    return [int(a) for _, a in path]


def _last_output(events):
    out = ''
    for e in reversed(events):
        if e[0] == 'input':
            break
        if e[0] == 'print':
            out = e[1] + out
    return out


def observe_last(node):
    """what the last operation of the path did, as far as the property cares:
    ('out', text) | ('error', trap) | ('fault', description)"""
    if not node.halted:
        return ('out', _last_output(node.env.events))
    o = node.outcome
    if o.end == 'trap' and o.trap not in impl.MACHINE_FAULTS:
        return ('error', o.trap)
    return ('fault', '%s %s %s' % (o.end, o.trap, o.exc))


def shape_of(b, labels, ops, obs):
    """name of the alternative cursor that agrees with the property on all
    earlier operations of the path and predicts the observation of the last
    one, or 'other'"""
    _, ref = model_run(b, labels, ops[:-1])
    for shape in ALT_SHAPES:
        _, outs = model_run(b, labels, ops, shape)
        if len(outs) != len(ops) or outs[:-1] != ref:
            continue
        o = outs[-1]
        if (o is None and obs[0] == 'error') or (o is not None and obs == ('out', o)):
            return shape
    return 'other'


def explore_place(b, labels, module, depth, cfg, src, st):
    nops = FIRST_LABEL_OP - 1 + len(labels)
    menu_all = [('input', str(k), 0) for k in range(1, nops + 1)]
    info = {(): ((0, False), False)}        # path -> (model state, diverged)

    def menu(nd):
        return [] if info[nd.path][1] else menu_all

    def check(ch, parent, choice):
        case = {'family': 'place', 'source': src, 'ops': _ops_of(ch.path), 'config': list(cfg),
                'labels': labels}
        if parent is None:
            info[ch.path] = ((0, False), False)
            if ch.halted or _last_output(ch.env.events) != '':
                info[ch.path] = ((0, False), True)
                return [({'family': 'place', 'divergence': 'driver-did-not-start', 'config': cfgname(cfg)},
                         case, 'the program waits for the first operation without output',
                         list(observe_last(ch)), len(src.split('\n')))]
            return []
        ops = case['ops']
        op = ops[-1]
        mstate, _ = info[parent.path]
        new, exp = model_step(b, labels, mstate, op)
        obs = observe_last(ch)
        st['traces'] += 1
        st['place_outcomes'].add((opname(op), obs[0], obs[1][:2] if obs[0] == 'out' else obs[1]))
        div = None
        if obs[0] == 'fault':
            div = 'host-exception' if ch.outcome.end == 'hostexc' else 'machine-fault'
        elif exp is None:
            if obs[0] != 'error':
                div = 'missing-error'
            else:
                st['error_leaves'] += 1
        elif obs[0] == 'error':
            div = 'unexpected-error'
        elif obs[1] != exp:
            div = 'output'
        info[ch.path] = (new, div is not None)
        if div is None:
            return []
        st['diverged_transitions'] += 1
        last_rep = 'none'
        for o in ops[:-1]:
            if o == OP_RESTORE:
                last_rep = 'restore'
            elif o >= FIRST_LABEL_OP:
                last_rep = 'restore-label'
        feat = {'family': 'place', 'divergence': div, 'op': opname(op), 'after': last_rep,
                'shape': shape_of(b, labels, ops, obs), 'config': cfgname(cfg)}
        return [(feat, case, 'run-time error' if exp is None else exp, list(obs),
                 len(ops) * 100 + len(src.split('\n')))]

    def key_extra(nd):
        return info[nd.path]

    vx = VX(module, menu, check=check, horizon=5000, max_depth=depth, key_extra=key_extra)
    vx.run()
    s = vx.stats()
    st['states'] += s['states']
    st['transitions'] += s['transitions']
    st['dedup_hits'] += s['dedup_hits']
    st['max_depth'] = max(st['max_depth'], s['max_depth'])
    st['horizon_hits'] += s['horizon_hits']
    if s['max_depth'] < depth:
        st['closed_programs'] += 1       # the frontier ran empty before the depth bound
    st['depth_hist'][str(s['max_depth'])] = st['depth_hist'].get(str(s['max_depth']), 0) + 1
    return vx.violations


def place_stats():
    return {'evaluations': 0, 'programs': 0, 'explorations': 0, 'states': 0, 'transitions': 0,
            'dedup_hits': 0, 'max_depth': 0, 'horizon_hits': 0, 'traces': 0, 'error_leaves': 0,
            'diverged_transitions': 0, 'closed_programs': 0, 'depth_hist': {},
            'restore_label_not_compiled': 0, 'labels_without_data_after': 0, 'labels_explored': 0,
            'labels_reaching_past_another_label': 0,
            'place_outcomes': set(), 'compile_fallbacks': 0}


def place_one(segs, pos, depth, cfgs, st):
    viol = []
    b = build(segs, pos)
    st['programs'] += 1
    st['evaluations'] += 1
    live = [l for l in b['labels'] if b['targets'][l] is not None]
    st['labels_without_data_after'] += len(b['labels']) - len(live)
    size = len(segs) * 10 + pos
    for cfg in cfgs:
        labels = list(live)
        src = place_source(b, labels)
        r = compile_(src, cfg)
        if not r.ok and labels:
            # find the labels whose RESTORE the compiler cannot take
            st['compile_fallbacks'] += 1
            good = []
            for lab in labels:
                src1 = place_source(b, [lab])
                r1 = compile_(src1, cfg)
                if r1.ok:
                    good.append(lab)
                    continue
                st['restore_label_not_compiled'] += 1
                inter = b['between'][lab]
                viol.append(({'family': 'place', 'divergence': 'restore-label-not-compiled',
                              'kind': r1.kind,
                              'intervening_label': any(x in ('label', 'sublabel') for x in inter),
                              'config': cfgname(cfg)},
                             {'family': 'placecompile', 'source': src1, 'config': list(cfg), 'label': lab,
                              'between': '+'.join(inter) or 'nothing'},
                             'RESTORE %s continues with item %d (%s)' % (lab, b['targets'][lab],
                                                                          b['items'][b['targets'][lab]]),
                             r1.brief(), size))
            labels = good
            src = place_source(b, labels)
            r = compile_(src, cfg)
        if not r.ok:
            viol.append(({'family': 'place', 'divergence': 'arrangement-not-compiled', 'kind': r.kind,
                          'config': cfgname(cfg)},
                         {'family': 'placecompile', 'source': src, 'config': list(cfg), 'label': None},
                         'a module', r.brief(), size))
            continue
        st['labels_explored'] += len(labels)
        st['labels_reaching_past_another_label'] += sum(
            1 for l in labels if any(x in ('label', 'sublabel') for x in b['between'][l]))
        st['explorations'] += 1
        viol.extend(explore_place(b, labels, impl.load(r.binary), depth, cfg, src, st))
    return viol


def place_chunk(chunk, depth):
    impl.parse_cache(True)
    viol = []
    st = place_stats()
    for segs, pos, cfgs in chunk:
        viol.extend(place_one(segs, pos, depth, cfgs, st))
    return viol, st


# ---------------------------------------------------------------------------

def all_texts(maxlen):
    for n in range(0, maxlen + 1):
        for t in itertools.product(ALPHABET, repeat=n):
            yield ''.join(t)


CORE_KINDS = ['D', 'LD', 'L', 'S', 'X']
LABEL_KINDS = ['D', 'LD', 'L', 'S']
# (number of elements, kinds, driver positions: 'all' or 'three', configurations)
PLAN_Q = [(1, KINDS_T, 'all', PLACE_CONFIGS_T), (2, KINDS_T, 'all', PLACE_CONFIGS_T),
          (3, KINDS_Q, 'all', PLACE_CONFIGS_Q), (4, LABEL_KINDS, 'three', PLACE_CONFIGS_Q)]
PLAN_T = [(1, KINDS_T, 'all', PLACE_CONFIGS_T), (2, KINDS_T, 'all', PLACE_CONFIGS_T),
          (3, KINDS_T, 'all', PLACE_CONFIGS_T), (4, KINDS_Q, 'three', PLACE_CONFIGS_Q),
          (5, CORE_KINDS, 'three', PLACE_CONFIGS_Q)]


def arrangements(plan):
    """every sequence of n elements over the kinds of each plan row that has
    no two executed statements in a row (X X is X as far as DATA is
    concerned) and, beyond two elements, at least one DATA; the driver at
    every position ('all') or before / in the middle of / after the elements
    ('three').  -> list of (segs, pos, configs)"""
    out = []
    for n, kinds, posrule, cfgs in plan:
        for segs in itertools.product(kinds, repeat=n):
            if any(a == 'X' and c == 'X' for a, c in zip(segs, segs[1:])):
                continue
            if n > 2 and not any(k in DATA_KINDS for k in segs):
                continue
            poss = range(0, n + 1) if posrule == 'all' else sorted({0, n // 2, n})
            for pos in poss:
                out.append((segs, pos, tuple(cfgs)))
    return out


def run(chk):
    quick = chk.tier == 'quick'
    only = chk.only
    fams = {}
    direct = _direct_fn()

    # ---- tok
    if not only or 'tok' in only:
        maxlen = 5 if quick else 6
        texts = list(all_texts(maxlen))
        for viol, st in chk.pmap(tok_chunk, texts, extra=(3,), chunk=160):
            chk.add_violations(viol)
            chk.merge_stats(st)
        fams['tok'] = {'alphabet': list(ALPHABET), 'max_len_compiled': maxlen, 'cases': len(texts),
                       'configs': [cfgname(c) for c in TOK_CONFIGS],
                       'pack_size': PACK, 'single_programs_up_to_len': 3}
        for t in (texts[7], texts[len(texts) // 2], texts[-1]):
            chk.sample({'family': 'tok', 'source': single_source(t)})
        if not quick:
            if direct is None:
                chk.cov['exhaustive'] = False
                fams['tok']['direct'] = 'off (qbee.utils.parse_data not importable)'
            else:
                pref = [''.join(p) for p in itertools.product(ALPHABET, repeat=3)]
                jobs = [(p, n) for n in (7, 8) for p in pref]
                for viol, st in chk.pmap(direct_chunk, jobs, chunk=4):
                    chk.add_violations(viol)
                    chk.merge_stats(st)
                fams['tok']['direct_lengths'] = [7, 8]
                fams['tok']['direct_cases'] = 6 ** 7 + 6 ** 8
    else:
        chk.cov['exhaustive'] = False

    # ---- conv
    if not only or 'conv' in only:
        cases = [(t, i, s, n) for t, i in CONV_ITEMS for s, n in TYPES]
        for viol, st in chk.pmap(conv_chunk, cases, chunk=5):
            chk.add_violations(viol)
            chk.merge_stats(st)
        fams['conv'] = {'items': [list(x) for x in CONV_ITEMS], 'types': [n for _, n in TYPES], 'cases': len(cases),
                        'configs': [cfgname(c) for c in impl.CONFIGS]}
        chk.sample({'family': 'conv', 'source': conv_source('2.5', '!')})
    else:
        chk.cov['exhaustive'] = False

    # ---- place
    if not only or 'place' in only:
        plan, depth = (PLAN_Q, 12) if quick else (PLAN_T, 16)
        if 'PLACE_MAXSEG' in os.environ:          # development only
            plan = [r for r in plan if r[0] <= int(os.environ['PLACE_MAXSEG'])]
        arr = arrangements(plan)
        # neighbours share their lines: keep product order, small chunks
        maxd = 0
        for viol, st in chk.pmap(place_chunk, arr, extra=(depth,), chunk=12):
            chk.add_violations(viol)
            maxd = max(maxd, st.pop('max_depth'))
            chk.merge_stats(st)
        chk.cov['max_depth'] = maxd
        fams['place'] = {'plan': [{'elements': n, 'kinds': k, 'driver_positions': p,
                                   'configs': [cfgname(c) for c in cf]} for n, k, p, cf in plan],
                         'excluded': 'two executed statements in a row; more than two elements without any DATA',
                         'programs': len(arr),
                         'ops': ['READ n%', 'READ s$', 'RESTORE', 'READ s$, t$',
                                 'RESTORE <each label that has DATA at or after it>'],
                         'max_ops': depth}
        for a in (arr[3], arr[len(arr) // 2], arr[-1]):
            b = build(a[0], a[1])
            chk.sample({'family': 'place', 'segments': list(a[0]), 'driver_after': a[1],
                        'source': place_source(b, [l for l in b['labels'] if b['targets'][l] is not None])})
    else:
        chk.cov['exhaustive'] = False

    sets = chk.cov.get('_sets', {})
    nout = sum(len(sets.get(k, ())) for k in ('outcomes', 'direct_outcomes', 'conv_outcomes', 'place_outcomes'))
    chk.cov['distinct_nontrivial'] = chk.cov.get('nontrivial_tok', 0) + chk.cov.get('conv_judged', 0) + \
        chk.cov.get('labels_explored', 0)
    chk.cov['traces_validated_against_impl'] = chk.cov.get('traces', 0) + chk.cov.get('judged', 0) + \
        chk.cov.get('conv_judged', 0)
    chk.cov.setdefault('states', 0)
    chk.cov.setdefault('transitions', 0)
    chk.assumptions = [
        'nothing is claimed above the stated bounds (text length, segments per arrangement, operations per sequence)',
        'texts with a quote inside an unquoted item, text after a closing quote or an unclosed quote are unspecified: only "the compiler does not crash" is demanded',
        'lengths 7-8 are judged through qbee.utils.parse_data only; its agreement with the compiled path is measured on every compiled text (direct_agree / direct_disagree_*)',
        'RESTORE to a label that no DATA statement follows at all is left open by the statement: such labels are counted, not explored',
        'place: a path is not continued beyond its first divergence from the cursor model; while a ledger entry is open the sequences behind its divergences are therefore unexplored (diverged_transitions)',
        'place: closed_programs counts explorations whose frontier ran empty before the depth bound (then every longer operation sequence revisits an explored machine state)',
        'conv: a fractional numeral read into an integer variable may be rounded half to even or be a run-time error, never another value; numerals outside the target range, quoted items into numeric variables, radix numerals and numerals with blanks inside are unspecified',
        'per-line parse memo is byte-identical to re-parsing (checked by C20/C02)']
    chk.finish(
        rule=('tok: every text over the alphabet up to the bound is one case; non-trivial = specified text with '
              'more than one item, a quote or a statement-ending colon.  conv: item x type, non-trivial = specified '
              '(value or error demanded).  place: one case per (arrangement, driver position); every VX transition is '
              'one trace validated against the cursor model; non-trivial = number of (program, label) pairs whose '
              'RESTORE was explored.  distinct_outcomes = distinct (verdict class, item count / trap / output head) tuples'),
        extra_cov={'families': fams, 'distinct_outcomes': nout,
                   'direct_path': 'on' if direct is not None else 'off'})


# ---------------------------------------------------------------------------

def replay(rec):
    case = rec['case']
    fam = case['family']
    if fam == 'tok':
        text, cfg = case['text'], tuple(case['config'])
        tk = datatok.tokenize(text)
        print('--- program ---')
        print(single_source(text))
        print('reference:', tk['status'], tk['strings'], 'must_compile =', tk['must_compile'])
        r, got, out = run_single(text, cfg)
        print('compile  :', r.brief())
        fn = _direct_fn()
        d = None
        if fn is not None:
            try:
                d = direct_strings(fn, tk['statement'])
            except Exception as e:  # noqa
                d = 'raised ' + type(e).__name__
            print('direct   :', d)
        if out is not None:
            print('read back:', got, '| end =', out.end, out.trap)
        st = tok_stats()
        v = judge_single(text, cfg, tk, st, fn)
        for x in v:
            print('VIOLATES :', x[0]['divergence'], '| expected', x[2], '| observed', x[3])
        return 1 if v else 0
    if fam == 'tokdirect':
        text = case['text']
        tk = datatok.tokenize(text)
        fn = _direct_fn()
        try:
            d = direct_strings(fn, tk['statement'])
        except Exception as e:  # noqa
            d = 'raised ' + type(e).__name__
        print('text     :', repr(text))
        print('reference:', tk['status'], tk['strings'])
        print('direct   :', d)
        return 1 if (tk['status'] == 'spec' and d != tk['strings']) or (isinstance(d, str)) else 0
    if fam == 'tokpack':
        texts, cfg = case['texts'], tuple(case['config'])
        print(pack_source(texts))
        r, got = run_pack(texts, cfg)
        exp = [datatok.tokenize(t)['strings'] for t in texts]
        print('expected:', exp)
        print('observed:', got if got is not None else r.brief())
        return 1 if got != exp else 0
    if fam == 'conv':
        idx = case.get('index', 0)
        v, obs = conv_judge(case['text'], idx, case['sfx'], case['type'], tuple(case['config']))
        print('--- program ---')
        print(conv_source(case['text'], case['sfx'], idx))
        print('expected:', conv_expect(case['text'], case['type'], idx))
        print('observed:', obs)
        if rec['features'].get('divergence') == 'configurations-disagree':
            seen = [conv_judge(case['text'], idx, case['sfx'], case['type'], c)[1] for c in impl.CONFIGS]
            print('all configurations:', seen)
            return 1 if any(repr(o) != repr(seen[0]) for o in seen) else 0
        return 1 if v else 0
    if fam == 'placecompile':
        print('--- program ---')
        print(case['source'])
        r = impl.compile_text(case['source'], *case['config'])
        print('expected:', rec.get('expected'))
        print('observed:', r.brief())
        return 0 if r.ok else 1
    if fam == 'place':
        src, ops, cfg = case['source'], case['ops'], tuple(case['config'])
        print('--- program ---')
        print(src)
        print('operations (answers to INPUT k%):', ops)
        r = impl.compile_text(src, cfg[0], cfg[1])
        print('compile:', r.brief())
        if not r.ok:
            return 1
        # run prefix and whole sequence; the op under judgement is the last one
        env = impl.Env({'input': [str(o) for o in ops]})
        out, _ = impl.run_module(impl.load(r.binary), env, horizon=20000)
        # output of the last operation = prints after the last consumed input
        n_in = 0
        last = ''
        for e in out.events:
            if e[0] == 'input':
                n_in += 1
                last = ''
            elif e[0] == 'print':
                last += e[1]
        if out.end == 'exhausted' and last.endswith('? '):
            last = last[:-2]
        print('expected for the last operation:', repr(rec.get('expected')))
        print('observed: end=%s trap=%s output=%r' % (out.end, out.trap, last))
        exp = rec.get('expected')
        if rec['features'].get('divergence') == 'driver-did-not-start':
            return 0 if (out.end == 'exhausted' and last == '') else 1
        want_error = exp in ('run-time error', None)
        if out.end == 'trap':
            bad = (not want_error) or out.trap in impl.MACHINE_FAULTS
        elif out.end == 'exhausted':
            bad = want_error or last != exp
        else:
            bad = True
        return 1 if bad else 0
    print('unknown replay family', fam)
    return 2
