"""C15 - DATA items are read in source order and RESTORE repositions exactly.

Three families, all exhaustive inside their bounds:

tok    every DATA text over {a 1 blank , " :} up to a length bound is compiled
       by the real compiler as `DATA <text>` and read back as strings until
       the sentinel / the out-of-data error; oracle = qv.ref.datatok
       (three-valued).  Longer texts (thorough) go through the tokenizer
       function directly; conformance of the direct call with the compiled
       path is measured on the compiled set.
conv   READ of one item into each of the five types (typed observation of the
       value that reaches PRINT); oracle = the statement's conversion rules.
place  VX: every arrangement of <= n segments from {DATA, label, executed
       statement, SUB block containing a label, two labels, label followed by
       a statement} with the driver loop at every position; breadth-first
       over all sequences of {READ numeric, READ string, RESTORE, RESTORE Li};
       oracle = cursor over the concatenated item list.
"""
import itertools
import re

from .. import impl
from ..explore import VX
from ..ref import datatok

LEVEL = 'model_checking'

ALPHABET = 'a1 ,":'
TOK_CONFIGS = [(0, False), (2, True)]
PLACE_CONFIGS_Q = [(0, False)]
PLACE_CONFIGS_T = [(0, False), (2, True)]
PACK = 16
SENTINEL = '#'


def cfgname(c):
    return 'O%d%s' % (c[0], 'g' if c[1] else '')


def compile_(src, cfg):
    """compile; a timeout is retried once with a longer limit (the machine is
    shared, a stall must not be reported as a hang of the compiler)"""
    r = impl.compile_text(src, cfg[0], cfg[1], limit=30.0, want_listing=False)
    if r.kind == 'timeout':
        r = impl.compile_text(src, cfg[0], cfg[1], limit=90.0, want_listing=False)
    return r


# ---------------------------------------------------------------------------
# the tokenizer function, called directly (thorough: lengths 7..8)

def _direct_fn():
    try:
        from qbee.utils import parse_data
        return parse_data
    except Exception:
        return None


def direct_strings(fn, stmt):
    """what READ s$ would deliver for each item according to the direct call;
    None = the function rejects the text; raises if the function raises"""
    r = fn(stmt)
    if r is None:
        return None
    return [x if isinstance(x, str) else '' for x in r]


# ---------------------------------------------------------------------------
# family tok

READER = ['end', 'rd:', 'read s$', 'if s$ = "%s" then' % SENTINEL, 'print "|";',
          'return', 'end if', 'print "["; s$; "]";', 'goto rd']


def pack_source(texts):
    lines = ['restore l%d: gosub rd' % i for i in range(len(texts))]
    lines += READER
    for i, t in enumerate(texts):
        lines += ['l%d:' % i, 'data ' + t, 'data ' + SENTINEL]
    return '\n'.join(lines) + '\n'


def single_source(text):
    # no sentinel: reads until the out-of-data error
    return 'rd:\nread s$\nprint "["; s$; "]";\ngoto rd\ndata ' + text + '\n'


_ITEM_RE = re.compile(r'\[([^\]]*)\]')


def _printed(out):
    return ''.join(e[1] for e in out.events if e[0] == 'print')


def run_single(text, cfg):
    """-> (compile result, strings or None, outcome or None)"""
    r = compile_(single_source(text), cfg)
    if not r.ok:
        return r, None, None
    out, _ = impl.run_module(impl.load(r.binary), impl.Env({}), horizon=20000)
    return r, _ITEM_RE.findall(_printed(out)), out


def run_pack(texts, cfg):
    """-> (compile result, list of string lists or None)"""
    r = compile_(pack_source(texts), cfg)
    if not r.ok:
        return r, None
    out, _ = impl.run_module(impl.load(r.binary), impl.Env({}), horizon=200000)
    txt = _printed(out)
    segs = txt.split('|')
    if out.end != 'halt' or len(segs) != len(texts) + 1 or segs[-1] != '':
        return r, None
    return r, [_ITEM_RE.findall(s) for s in segs[:-1]]


def judge_single(text, cfg, tk, st, direct):
    """full judgement of one text in its own program; -> list of violations"""
    viol = []
    r, got, out = run_single(text, cfg)
    st['compiles'] += 1
    cls = datatok.classify(text)
    feat = {'family': 'tok', 'path': 'compiled', 'class': cls, 'config': cfgname(cfg)}
    case = {'family': 'tok', 'text': text, 'config': list(cfg)}

    def v(div, exp, obs):
        f = dict(feat)
        f['divergence'] = div
        viol.append((f, case, exp, obs, len(text)))

    if r.kind in ('crash', 'timeout'):
        v('compiler-crash', 'module or diagnostic', r.brief())
        st['outcomes'].add(('crash', cls))
        return viol
    if not r.ok:
        st['rejected'] += 1
        st['outcomes'].add((r.kind, cls))
        if tk['must_compile']:
            v('rejected', {'items': tk['strings']}, r.brief())
        return viol
    st['accepted'] += 1
    st['outcomes'].add(('ok', tk['status'], len(got)))
    if out.end != 'trap' or out.trap in impl.MACHINE_FAULTS:
        v('no-out-of-data-error', 'run-time error after the last item',
          {'end': out.end, 'trap': out.trap, 'exc': out.exc, 'printed': _printed(out)[:200]})
    else:
        st['exhaustion_traps'] += 1
        st['trapnames'].add(out.trap)
    if tk['status'] == 'spec':
        st['judged'] += 1
        if got != tk['strings']:
            v('items', tk['strings'], got)
    else:
        st['unspecified_ran'] += 1
    if direct is not None:
        try:
            d = direct_strings(direct, tk['statement'])
        except Exception as e:  # noqa
            d = 'raised ' + type(e).__name__
        if d == got:
            st['direct_agree'] += 1
        elif tk['status'] == 'spec':
            st['direct_disagree_spec'] += 1
            f = dict(feat)
            f['divergence'] = 'direct-call-differs'
            f['path'] = 'direct'
            viol.append((f, case, got, d, len(text)))
        else:
            st['direct_disagree_unspec'] += 1
    return viol


def tok_stats():
    return {'evaluations': 0, 'compiles': 0, 'accepted': 0, 'rejected': 0, 'judged': 0,
            'unspecified_ran': 0, 'packed': 0, 'exhaustion_traps': 0,
            'direct_agree': 0, 'direct_disagree_spec': 0, 'direct_disagree_unspec': 0,
            'outcomes': set(), 'trapnames': set(), 'nontrivial_tok': 0}


def tok_chunk(chunk, single_upto):
    impl.parse_cache(True)
    direct = _direct_fn()
    viol = []
    st = tok_stats()
    packable = []
    for text in chunk:
        tk = datatok.tokenize(text)
        st['evaluations'] += 1
        if tk['status'] == 'spec' and (len(tk['items']) > 1 or '"' in text or tk['remainder'] is not None):
            st['nontrivial_tok'] += 1
        if tk['must_compile'] and len(text) > single_upto:
            packable.append((text, tk))
        else:
            for cfg in TOK_CONFIGS:
                viol.extend(judge_single(text, cfg, tk, st, direct))
    for i in range(0, len(packable), PACK):
        grp = packable[i:i + PACK]
        for cfg in TOK_CONFIGS:
            r, got = run_pack([t for t, _ in grp], cfg)
            st['compiles'] += 1
            if got is None or any(g != tk['strings'] for g, (_, tk) in zip(got, grp)):
                # something in the pack is off: judge each member on its own
                # so that the report (and the replay) is self-contained
                before = len(viol)
                for text, tk in grp:
                    viol.extend(judge_single(text, cfg, tk, st, direct))
                if len(viol) == before:
                    viol.append(({'family': 'tok', 'divergence': 'pack-only', 'path': 'compiled',
                                  'config': cfgname(cfg)},
                                 {'family': 'tokpack', 'texts': [t for t, _ in grp], 'config': list(cfg)},
                                 [tk['strings'] for _, tk in grp], got if got is not None else r.brief(),
                                 sum(len(t) for t, _ in grp)))
                continue
            st['packed'] += len(grp)
            st['accepted'] += len(grp)
            st['judged'] += len(grp)
            for g, (text, tk) in zip(got, grp):
                st['outcomes'].add(('ok', 'spec', len(g)))
                if direct is not None:
                    try:
                        d = direct_strings(direct, tk['statement'])
                    except Exception as e:  # noqa
                        d = 'raised ' + type(e).__name__
                    if d == g:
                        st['direct_agree'] += 1
                    else:
                        st['direct_disagree_spec'] += 1
                        viol.append(({'family': 'tok', 'divergence': 'direct-call-differs', 'path': 'direct',
                                      'class': datatok.classify(text), 'config': cfgname(cfg)},
                                     {'family': 'tok', 'text': text, 'config': list(cfg)}, g, d, len(text)))
    return viol, st


def direct_chunk(chunk):
    """chunk of (prefix, total_length): all texts prefix + suffix judged through
    the direct call"""
    fn = _direct_fn()
    viol = []
    st = {'evaluations': 0, 'direct_evaluations': 0, 'direct_judged': 0, 'direct_unspecified': 0,
          'direct_outcomes': set(), 'nontrivial_tok': 0}
    for prefix, n in chunk:
        for suf in itertools.product(ALPHABET, repeat=n - len(prefix)):
            text = prefix + ''.join(suf)
            tk = datatok.tokenize(text)
            st['evaluations'] += 1
            st['direct_evaluations'] += 1
            try:
                d = direct_strings(fn, tk['statement'])
            except Exception as e:  # noqa
                viol.append(({'family': 'tok', 'divergence': 'tokenizer-raised', 'path': 'direct',
                              'class': datatok.classify(text)},
                             {'family': 'tokdirect', 'text': text}, 'a list of items or a rejection',
                             type(e).__name__ + ': ' + str(e)[:100], len(text)))
                continue
            if tk['status'] != 'spec':
                st['direct_unspecified'] += 1
                st['direct_outcomes'].add(('unspec', d is None))
                continue
            st['direct_judged'] += 1
            if len(tk['items']) > 1 or '"' in text or tk['remainder'] is not None:
                st['nontrivial_tok'] += 1
            st['direct_outcomes'].add(('spec', len(tk['items'])))
            if d != tk['strings']:
                viol.append(({'family': 'tok', 'divergence': 'items', 'path': 'direct',
                              'class': datatok.classify(text)},
                             {'family': 'tokdirect', 'text': text}, tk['strings'], d, len(text)))
    return viol, st


# ---------------------------------------------------------------------------
# family conv: one item read into each type

TYPES = [('%', 'INTEGER'), ('&', 'LONG'), ('!', 'SINGLE'), ('#', 'DOUBLE'), ('$', 'STRING')]
CONV_ITEMS = ['', '1', '-2', ' 7 ', '+5', '32767', '-32768', '32768', '-32769', '2147483647',
              '2147483648', '-2147483649', '1.5', '2.5', '.25', '1e3', '1E3', '1e39', '1e309',
              'x', '1x', 'a1', '1 2', '"3"', '"x"', '""', '&H10', '1_0', 'nan', 'inf', '1,2']
_INT_RE = re.compile(r'^[+-]?\d+$')
_DEC_RE = re.compile(r'^[+-]?(\d+\.?\d*|\.\d+)([eE][+-]?\d+)?$')
RANGES = {'INTEGER': (-32768, 32767), 'LONG': (-2 ** 31, 2 ** 31 - 1)}


def _f32(x):
    import struct
    return struct.unpack('>f', struct.pack('>f', x))[0]


def conv_expect(text, tname):
    """-> ('value', v) | ('error',) | ('unspec', why) for READ of the first
    item of `DATA <text>` into a variable of type tname"""
    tk = datatok.tokenize(text)
    if tk['status'] != 'spec':
        return ('unspec', tk['status'])
    kind, s = tk['items'][0]
    if tname == 'STRING':
        return ('value', s)
    if kind == 'e':
        return ('value', 0 if tname in RANGES else 0.0)
    if kind == 'q':
        return ('unspec', 'quoted item into a numeric variable')
    if _INT_RE.match(s):
        n = int(s)
        if tname in RANGES:
            lo, hi = RANGES[tname]
            if lo <= n <= hi:
                return ('value', n)
            return ('error-or-unspec', 'integer numeral outside the range of the type')
        return ('value', _f32(float(n)) if tname == 'SINGLE' else float(n))
    if _DEC_RE.match(s):
        x = float(s)
        if tname in RANGES:
            return ('unspec', 'fractional/exponent numeral into an integer type')
        if x in (float('inf'), float('-inf')):
            return ('unspec', 'numeral beyond the DOUBLE range')
        if tname == 'SINGLE':
            try:
                return ('value', _f32(x))
            except OverflowError:
                return ('error-or-unspec', 'numeral beyond the SINGLE range')
        return ('value', x)
    if re.match(r'^&[hHoO]', s):
        return ('unspec', 'BASIC radix numeral')
    return ('error',)       # text into a numeric variable


def conv_source(text, sfx):
    return 'read v%s\nprint v%s\ndata %s\n' % (sfx, sfx, text)


def conv_item_class(text):
    s = text.strip()
    if s in ('1_0', 'nan', 'inf'):
        return 'host-numeral'
    if _INT_RE.match(s):
        return 'integer'
    if _DEC_RE.match(s):
        return 'decimal'
    if s.startswith('"'):
        return 'quoted'
    if s == '':
        return 'empty'
    return 'text'


def conv_judge(text, sfx, tname, cfg):
    """-> (violation or None, observation)"""
    exp = conv_expect(text, tname)
    r = compile_(conv_source(text, sfx), cfg)
    feat = {'family': 'conv', 'type': tname, 'item_class': conv_item_class(text), 'config': cfgname(cfg)}
    case = {'family': 'conv', 'text': text, 'sfx': sfx, 'type': tname, 'config': list(cfg)}
    if not r.ok:
        obs = ('compile', r.brief())
        if r.kind in ('crash', 'timeout') or exp[0] in ('value', 'error', 'error-or-unspec'):
            feat['divergence'] = 'compiler-crash' if r.kind in ('crash', 'timeout') else 'rejected'
            return (feat, case, list(exp), r.brief(), len(text)), obs
        return None, obs
    out, _ = impl.run_module(impl.load(r.binary), impl.Env({}), horizon=5000, typed_prints=True)
    if out.end == 'trap':
        obs = ('trap', out.trap)
    elif out.end in ('halt', 'eoc') and out.prints and out.prints[0] and \
            isinstance(out.prints[0][0], tuple):
        obs = ('value', out.prints[0][0][0], out.prints[0][0][1])
    else:
        obs = (out.end, out.exc)
    div = None
    if obs[0] not in ('trap', 'value'):
        div = 'host-exception'
    elif obs[0] == 'trap' and obs[1] in impl.MACHINE_FAULTS:
        div = 'machine-fault'
    elif exp[0] == 'value':
        if obs[0] != 'value':
            div = 'error-instead-of-value'
        elif obs[1] != tname or type(obs[2]) is not type(exp[1]) or obs[2] != exp[1]:
            div = 'value'
    elif exp[0] == 'error':
        if obs[0] == 'value':
            div = 'text-read-as-number'
    elif exp[0] == 'error-or-unspec':
        # whatever happens, a delivered value must be of the variable's type
        if obs[0] == 'value':
            ok = obs[1] == tname
            if tname in RANGES:
                ok = ok and RANGES[tname][0] <= obs[2] <= RANGES[tname][1]
            if not ok:
                div = 'ill-typed-value'
    if obs[0] == 'value' and obs[1] != tname and div is None:
        div = 'ill-typed-value'
    if div is None:
        return None, obs
    feat['divergence'] = div
    return (feat, case, list(exp), list(obs), len(text)), obs


def conv_chunk(chunk):
    impl.parse_cache(True)
    viol = []
    st = {'evaluations': 0, 'conv_cases': 0, 'conv_judged': 0, 'conv_unspecified': 0,
          'conv_outcomes': set(), 'conv_inconsistent': 0}
    for text, sfx, tname in chunk:
        st['evaluations'] += 1
        st['conv_cases'] += 1
        exp = conv_expect(text, tname)
        if exp[0] == 'unspec':
            st['conv_unspecified'] += 1
        else:
            st['conv_judged'] += 1
        seen = []
        bydiv = {}
        for cfg in impl.CONFIGS:
            v, obs = conv_judge(text, sfx, tname, cfg)
            if v:
                bydiv.setdefault(v[0]['divergence'], []).append(v)
            seen.append(obs)
            st['conv_outcomes'].add((exp[0],) + tuple(obs[:2]))
        for div, vs in bydiv.items():
            f = dict(vs[0][0])
            f['config'] = 'all' if len(vs) == len(impl.CONFIGS) else ','.join(x[0]['config'] for x in vs)
            viol.append((f,) + tuple(vs[0][1:]))
        if any(repr(o) != repr(seen[0]) for o in seen):
            st['conv_inconsistent'] += 1
            viol.append(({'family': 'conv', 'divergence': 'configurations-disagree', 'type': tname,
                          'item_class': conv_item_class(text)},
                         {'family': 'conv', 'text': text, 'sfx': sfx, 'type': tname, 'config': [0, False]},
                         'the same observation in all six configurations',
                         [list(o) for o in seen], len(text)))
    return viol, st


# ---------------------------------------------------------------------------
# family place

KINDS = ['D', 'L', 'X', 'S', 'LL', 'LX']


def build(segs, pos):
    """-> dict(lines_before, lines_after, elements, items, labels, targets)
    for the arrangement `segs` (tuple of kinds) with the driver loop after the
    first `pos` segments"""
    elements = []          # in source order: ('data', [items]) ('label', name) ('stmt',) ('sublabel', name)
    seg_lines = []
    nd = nl = ns = 0
    for k in segs:
        ls = []
        if k == 'D':
            nd += 1
            its = ['%d1' % nd, 't%d' % nd] if nd % 2 else ['%d1' % nd]
            elements.append(('data', its))
            ls.append('data ' + ', '.join(its))
        elif k in ('L', 'LL', 'LX'):
            for _ in range(2 if k == 'LL' else 1):
                nl += 1
                elements.append(('label', 'l%d' % nl))
                ls.append('l%d:' % nl)
            if k == 'LX':
                elements.append(('stmt',))
                ls.append('c% = c% + 1')
        elif k == 'X':
            elements.append(('stmt',))
            ls.append('c% = c% + 1')
        elif k == 'S':
            ns += 1
            elements.append(('sublabel', 'm%d' % ns))
            ls += ['sub s%d' % ns, 'm%d:' % ns, 'end sub']
        seg_lines.append(ls)
    items = []
    starts = []            # element index -> item index where that DATA starts
    for e in elements:
        if e[0] == 'data':
            starts.append(len(items))
            items.extend(e[1])
        else:
            starts.append(None)
    labels = []
    targets = {}
    between = {}
    for i, e in enumerate(elements):
        if e[0] != 'label':
            continue
        labels.append(e[1])
        tgt = None
        inter = set()
        for j in range(i + 1, len(elements)):
            if elements[j][0] == 'data':
                tgt = starts[j]
                break
            inter.add(elements[j][0])
        targets[e[1]] = tgt
        between[e[1]] = sorted(inter)
    groups = 0
    last = object()
    cur = None
    for e in elements:
        if e[0] in ('label', 'sublabel'):
            cur = e[1]
        elif e[0] == 'data':
            if cur != last:
                groups += 1
                last = cur
    before = [l for ls in seg_lines[:pos] for l in ls]
    after = [l for ls in seg_lines[pos:] for l in ls]
    return {'before': before, 'after': after, 'elements': elements, 'items': items,
            'labels': labels, 'targets': targets, 'between': between, 'data_groups': groups,
            'n_data': nd}


def driver(labels):
    ls = ['do', 'input k%', 'select case k%', 'case 1', 'read n%', 'print n%',
          'case 2', 'read s$', 'print "["; s$; "]"', 'case 3', 'restore']
    for i, lab in enumerate(labels):
        ls += ['case %d' % (4 + i), 'restore ' + lab]
    ls += ['end select', 'loop']
    return ls


def place_source(b, labels):
    return '\n'.join(b['before'] + driver(labels) + b['after']) + '\n'


def model_step(b, labels, cursor, op):
    """-> (new cursor, expected output text or None for a run-time error)"""
    items = b['items']
    if op == 1 or op == 2:
        if cursor >= len(items):
            return cursor, None
        it = items[cursor]
        if op == 1:
            if not _INT_RE.match(it):
                return cursor, None
            n = int(it)
            return cursor + 1, ('-' if n < 0 else ' ') + str(abs(n)) + ' \r\n'
        return cursor + 1, '[' + it + ']\r\n'
    if op == 3:
        return 0, ''
    return b['targets'][labels[op - 4]], ''


def model_run(b, labels, ops):
    cur = 0
    outs = []
    for op in ops:
        cur, o = model_step(b, labels, cur, op)
        outs.append(o)
        if o is None:
            break
    return cur, outs


OPNAME = {1: 'read-numeric', 2: 'read-string', 3: 'restore'}


def _ops_of(path):
    return [int(a) for _, a in path]


def _last_output(events):
    out = ''
    for e in reversed(events):
        if e[0] == 'input':
            break
        if e[0] == 'print':
            out = e[1] + out
    return out


def explore_place(b, labels, module, depth, cfg, src, st):
    viol = []
    nops = 3 + len(labels)
    menu_all = [('input', str(k), 0) for k in range(1, nops + 1)]

    def menu(nd):
        return menu_all

    def feat_base(ops):
        last_rep = 'none'
        for o in ops[:-1]:
            if o == 3:
                last_rep = 'restore'
            elif o >= 4:
                last_rep = 'restore-label'
        op = ops[-1]
        f = {'family': 'place', 'op': OPNAME.get(op, 'restore-label'), 'after': last_rep,
             'data_groups': b['data_groups'], 'config': cfgname(cfg)}
        return f

    def check(ch, parent, choice):
        if parent is None:
            return []
        ops = _ops_of(ch.path)
        cur, outs = model_run(b, labels, ops)
        exp = outs[-1]
        st['traces'] += 1
        case = {'family': 'place', 'source': src, 'ops': ops, 'config': list(cfg),
                'labels': labels}
        vs = []

        def v(div, e, o):
            f = feat_base(ops)
            f['divergence'] = div
            vs.append((f, case, e, o, len(ops) * 100 + len(src.split('\n'))))

        if ch.halted:
            o = ch.outcome
            obs = {'end': o.end, 'trap': o.trap, 'exc': o.exc, 'output': _last_output(o.events)}
            st['place_outcomes'].add((o.end, o.trap))
            if o.end == 'hostexc':
                v('host-exception', exp, obs)
            elif o.end == 'trap' and o.trap in impl.MACHINE_FAULTS:
                v('machine-fault', exp, obs)
            elif exp is None:
                if o.end != 'trap':
                    v('missing-error', 'run-time error', obs)
                else:
                    st['error_leaves'] += 1
            else:
                v('unexpected-error', exp, obs)
        else:
            got = _last_output(ch.env.events)
            st['place_outcomes'].add(('out', got[:1]))
            if exp is None:
                v('missing-error', 'run-time error', {'output': got})
            elif got != exp:
                v('output', exp, got)
        return vs

    def key_extra(nd):
        return model_run(b, labels, _ops_of(nd.path))[0]

    vx = VX(module, menu, check=check, horizon=5000, max_depth=depth, key_extra=key_extra)
    vx.run()
    s = vx.stats()
    st['states'] += s['states']
    st['transitions'] += s['transitions']
    st['dedup_hits'] += s['dedup_hits']
    st['max_depth'] = max(st['max_depth'], s['max_depth'])
    st['horizon_hits'] += s['horizon_hits']
    viol.extend(vx.violations)
    return viol


def place_stats():
    return {'evaluations': 0, 'programs': 0, 'states': 0, 'transitions': 0, 'dedup_hits': 0,
            'max_depth': 0, 'horizon_hits': 0, 'traces': 0, 'error_leaves': 0,
            'restore_label_crash': 0, 'labels_without_data_after': 0,
            'labels_without_data_after_crash': 0, 'labels_explored': 0,
            'programs_with_restore_reaching_later_group': 0,
            'place_outcomes': set(), 'compile_fallbacks': 0}


def place_one(segs, pos, depth, cfgs, st):
    viol = []
    b = build(segs, pos)
    st['programs'] += 1
    st['evaluations'] += 1
    live = [l for l in b['labels'] if b['targets'][l] is not None]
    dead = [l for l in b['labels'] if b['targets'][l] is None]
    st['labels_without_data_after'] += len(dead)
    for cfg in cfgs:
        labels = list(live)
        src = place_source(b, labels)
        r = compile_(src, cfg)
        if not r.ok and labels:
            # find the labels whose RESTORE the compiler cannot take
            st['compile_fallbacks'] += 1
            good = []
            for lab in labels:
                r1 = compile_(place_source(b, [lab]), cfg)
                if r1.ok:
                    good.append(lab)
                else:
                    st['restore_label_crash'] += 1
                    inter = b['between'][lab]
                    viol.append(({'family': 'place', 'divergence': 'restore-label-not-compiled',
                                  'kind': r1.kind,
                                  'intervening_label': any(x in ('label', 'sublabel') for x in inter),
                                  'between': '+'.join(inter) or 'nothing', 'config': cfgname(cfg)},
                                 {'family': 'placecompile', 'source': place_source(b, [lab]),
                                  'config': list(cfg), 'label': lab},
                                 'RESTORE %s continues with item %d (%s)' % (lab, b['targets'][lab],
                                                                              b['items'][b['targets'][lab]]),
                                 r1.brief(), len(segs) * 10))
            labels = good
            src = place_source(b, labels)
            r = compile_(src, cfg)
        if not r.ok:
            viol.append(({'family': 'place', 'divergence': 'arrangement-not-compiled', 'kind': r.kind,
                          'config': cfgname(cfg)},
                         {'family': 'placecompile', 'source': src, 'config': list(cfg), 'label': None},
                         'a module', r.brief(), len(segs) * 10))
            continue
        st['labels_explored'] += len(labels)
        viol.extend(explore_place(b, labels, impl.load(r.binary), depth, cfg, src, st))
    # labels no DATA follows: the property says nothing; only count what the
    # compiler does with them (a crash there is C06's finding)
    for lab in dead:
        r1 = compile_(place_source(b, [lab]), (0, False))
        if r1.kind == 'crash':
            st['labels_without_data_after_crash'] += 1
    return viol


def place_chunk(chunk, depth, cfgs):
    impl.parse_cache(True)
    viol = []
    st = place_stats()
    for segs, pos in chunk:
        viol.extend(place_one(segs, pos, depth, cfgs, st))
    return viol, st


# ---------------------------------------------------------------------------

def all_texts(maxlen):
    for n in range(0, maxlen + 1):
        for t in itertools.product(ALPHABET, repeat=n):
            yield ''.join(t)


def arrangements(maxseg, kinds):
    out = []
    for n in range(1, maxseg + 1):
        for segs in itertools.product(kinds, repeat=n):
            for pos in range(0, n + 1):
                out.append((segs, pos))
    return out


def run(chk):
    quick = chk.tier == 'quick'
    only = chk.only
    fams = {}
    direct = _direct_fn()

    # ---- tok
    if not only or 'tok' in only:
        maxlen = 5 if quick else 6
        texts = list(all_texts(maxlen))
        for viol, st in chk.pmap(tok_chunk, texts, extra=(3,), chunk=160):
            chk.add_violations(viol)
            chk.merge_stats(st)
        fams['tok'] = {'alphabet': list(ALPHABET), 'max_len_compiled': maxlen, 'cases': len(texts),
                       'configs': [cfgname(c) for c in TOK_CONFIGS],
                       'pack_size': PACK, 'single_programs_up_to_len': 3}
        for t in (texts[7], texts[len(texts) // 2], texts[-1]):
            chk.sample({'family': 'tok', 'source': single_source(t)})
        if not quick:
            if direct is None:
                chk.cov['exhaustive'] = False
                fams['tok']['direct'] = 'off (qbee.utils.parse_data not importable)'
            else:
                pref = [''.join(p) for p in itertools.product(ALPHABET, repeat=3)]
                jobs = [(p, n) for n in (7, 8) for p in pref]
                for viol, st in chk.pmap(direct_chunk, jobs, chunk=4):
                    chk.add_violations(viol)
                    chk.merge_stats(st)
                fams['tok']['direct_lengths'] = [7, 8]
                fams['tok']['direct_cases'] = 6 ** 7 + 6 ** 8
    else:
        chk.cov['exhaustive'] = False

    # ---- conv
    if not only or 'conv' in only:
        cases = [(t, s, n) for t in CONV_ITEMS for s, n in TYPES]
        for viol, st in chk.pmap(conv_chunk, cases, chunk=5):
            chk.add_violations(viol)
            chk.merge_stats(st)
        fams['conv'] = {'items': CONV_ITEMS, 'types': [n for _, n in TYPES], 'cases': len(cases),
                        'configs': [cfgname(c) for c in impl.CONFIGS]}
        chk.sample({'family': 'conv', 'source': conv_source('2.5', '!')})
    else:
        chk.cov['exhaustive'] = False

    # ---- place
    if not only or 'place' in only:
        if quick:
            maxseg, depth, cfgs = 4, 4, PLACE_CONFIGS_Q
        else:
            maxseg, depth, cfgs = 5, 5, PLACE_CONFIGS_T
        arr = arrangements(maxseg, KINDS)
        # neighbours share their lines: keep product order, small chunks
        maxd = 0
        for viol, st in chk.pmap(place_chunk, arr, extra=(depth, cfgs), chunk=24):
            chk.add_violations(viol)
            maxd = max(maxd, st.pop('max_depth'))
            chk.merge_stats(st)
        chk.cov['max_depth'] = maxd
        fams['place'] = {'segment_kinds': KINDS, 'max_segments': maxseg, 'driver_positions': 'all',
                         'programs': len(arr), 'ops': ['READ n%', 'READ s$', 'RESTORE', 'RESTORE <each label that has DATA at or after it>'],
                         'max_ops': depth, 'configs': [cfgname(c) for c in cfgs]}
        for a in (arr[3], arr[len(arr) // 2], arr[-1]):
            b = build(*a)
            chk.sample({'family': 'place', 'segments': list(a[0]), 'driver_after': a[1],
                        'source': place_source(b, [l for l in b['labels'] if b['targets'][l] is not None])})
    else:
        chk.cov['exhaustive'] = False

    sets = chk.cov.get('_sets', {})
    nout = sum(len(sets.get(k, ())) for k in ('outcomes', 'direct_outcomes', 'conv_outcomes', 'place_outcomes'))
    chk.cov['distinct_nontrivial'] = chk.cov.get('nontrivial_tok', 0) + chk.cov.get('conv_judged', 0) + \
        chk.cov.get('labels_explored', 0)
    chk.cov['traces_validated_against_impl'] = chk.cov.get('traces', 0) + chk.cov.get('judged', 0) + \
        chk.cov.get('conv_judged', 0)
    chk.cov.setdefault('states', 0)
    chk.cov.setdefault('transitions', 0)
    chk.assumptions = [
        'nothing is claimed above the stated bounds (text length, segments per arrangement, operations per sequence)',
        'texts with a quote inside an unquoted item, text after a closing quote or an unclosed quote are unspecified: only "the compiler does not crash" is demanded',
        'lengths 7-8 are judged through qbee.utils.parse_data only; its agreement with the compiled path is measured on every compiled text (direct_agree / direct_disagree_*)',
        'RESTORE to a label that no DATA statement follows at all is left open by the statement: such labels are counted, not explored',
        'per-line parse memo is byte-identical to re-parsing (checked by C20/C02)']
    chk.finish(
        rule=('tok: every text over the alphabet up to the bound is one case; non-trivial = specified text with '
              'more than one item, a quote or a statement-ending colon.  conv: item x type, non-trivial = specified '
              '(value or error demanded).  place: one case per (arrangement, driver position); every VX transition is '
              'one trace validated against the cursor model; non-trivial = number of (program, label) pairs whose '
              'RESTORE was explored.  distinct_outcomes = distinct (verdict class, item count / trap / output head) tuples'),
        extra_cov={'families': fams, 'distinct_outcomes': nout,
                   'direct_path': 'on' if direct is not None else 'off'})


# ---------------------------------------------------------------------------

def replay(rec):
    case = rec['case']
    fam = case['family']
    if fam == 'tok':
        text, cfg = case['text'], tuple(case['config'])
        tk = datatok.tokenize(text)
        print('--- program ---')
        print(single_source(text))
        print('reference:', tk['status'], tk['strings'], 'must_compile =', tk['must_compile'])
        r, got, out = run_single(text, cfg)
        print('compile  :', r.brief())
        fn = _direct_fn()
        d = None
        if fn is not None:
            try:
                d = direct_strings(fn, tk['statement'])
            except Exception as e:  # noqa
                d = 'raised ' + type(e).__name__
            print('direct   :', d)
        if out is not None:
            print('read back:', got, '| end =', out.end, out.trap)
        st = tok_stats()
        v = judge_single(text, cfg, tk, st, fn)
        for x in v:
            print('VIOLATES :', x[0]['divergence'], '| expected', x[2], '| observed', x[3])
        return 1 if v else 0
    if fam == 'tokdirect':
        text = case['text']
        tk = datatok.tokenize(text)
        fn = _direct_fn()
        try:
            d = direct_strings(fn, tk['statement'])
        except Exception as e:  # noqa
            d = 'raised ' + type(e).__name__
        print('text     :', repr(text))
        print('reference:', tk['status'], tk['strings'])
        print('direct   :', d)
        return 1 if (tk['status'] == 'spec' and d != tk['strings']) or (isinstance(d, str)) else 0
    if fam == 'tokpack':
        texts, cfg = case['texts'], tuple(case['config'])
        print(pack_source(texts))
        r, got = run_pack(texts, cfg)
        exp = [datatok.tokenize(t)['strings'] for t in texts]
        print('expected:', exp)
        print('observed:', got if got is not None else r.brief())
        return 1 if got != exp else 0
    if fam == 'conv':
        v, obs = conv_judge(case['text'], case['sfx'], case['type'], tuple(case['config']))
        print('--- program ---')
        print(conv_source(case['text'], case['sfx']))
        print('expected:', conv_expect(case['text'], case['type']))
        print('observed:', obs)
        if rec['features'].get('divergence') == 'configurations-disagree':
            seen = [conv_judge(case['text'], case['sfx'], case['type'], c)[1] for c in impl.CONFIGS]
            print('all configurations:', seen)
            return 1 if any(repr(o) != repr(seen[0]) for o in seen) else 0
        return 1 if v else 0
    if fam == 'placecompile':
        print('--- program ---')
        print(case['source'])
        r = impl.compile_text(case['source'], *case['config'])
        print('expected:', rec.get('expected'))
        print('observed:', r.brief())
        return 0 if r.ok else 1
    if fam == 'place':
        src, ops, cfg = case['source'], case['ops'], tuple(case['config'])
        print('--- program ---')
        print(src)
        print('operations (answers to INPUT k%):', ops)
        r = impl.compile_text(src, cfg[0], cfg[1])
        print('compile:', r.brief())
        if not r.ok:
            return 1
        # run prefix and whole sequence; the op under judgement is the last one
        env = impl.Env({'input': [str(o) for o in ops]})
        out, _ = impl.run_module(impl.load(r.binary), env, horizon=20000)
        # output of the last operation = prints after the last consumed input
        n_in = 0
        last = ''
        for e in out.events:
            if e[0] == 'input':
                n_in += 1
                last = ''
            elif e[0] == 'print':
                last += e[1]
        if out.end == 'exhausted' and last.endswith('? '):
            last = last[:-2]
        print('expected for the last operation:', repr(rec.get('expected')))
        print('observed: end=%s trap=%s output=%r' % (out.end, out.trap, last))
        exp = rec.get('expected')
        want_error = exp in ('run-time error', None)
        if out.end == 'trap':
            bad = (not want_error) or out.trap in impl.MACHINE_FAULTS
        elif out.end == 'exhausted':
            bad = want_error or last != exp
        else:
            bad = True
        return 1 if bad else 0
    print('unknown replay family', fam)
    return 2
