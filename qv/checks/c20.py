"""C20 - compilation and execution are deterministic.

HX (history exploration).  Compile side: an alphabet of small programs, each
touching one piece of process-wide or per-compilation state, is compiled in
child processes (qv.c20_child) after every history of earlier compilations up
to a bound, under several PYTHONHASHSEED values and two working directories;
sections 1-4 of the module and the listing must equal those of the target
compiled first in a fresh process.  The repository's snippets are additional
targets (seed 0, forward order  vs  seed 1, reverse order, other chunking).
Run side: every module x script is executed twice in this process and once in
another process (other hash seed): same event trace, outcome, tick count;
RND / RANDOMIZE programs additionally on a peripherals object derived from the
shipped BasePeripheralsImpl.  Oracle: identity.  The debug section (5) is
excluded by the property."""
import base64
import difflib
import json
import os
import shutil
import subprocess
import sys
import tempfile

from .. import impl, corpus
from .. import c20_child as child

LEVEL = 'exploration'

ROOT = os.path.dirname(os.path.dirname(os.path.dirname(os.path.abspath(__file__))))

# --- history alphabet ------------------------------------------------------
PROGS = [
    ('deftype', 'DEFINT A-C\nDEFSTR S\na = 7\ns = "x"\nd = 1.5\nPRINT a; s; d\n'),
    ('const', 'CONST k = 3\nCONST m$ = "z"\nPRINT k * 2; m$\n'),
    ('type', 'TYPE pt\nx AS INTEGER\ny AS LONG\nEND TYPE\nDIM p AS pt\np.y = 5\nPRINT p.x; p.y\n'),
    ('labels-data', 'RESTORE two\nREAD a$, b\nPRINT a$; b\nGOTO fin\none: DATA "p", 1\ntwo: DATA q, 2\nfin: END\n'),
    ('for-select', 'FOR i% = 1 TO 2\nSELECT CASE i%\nCASE 1\nPRINT "a"\nCASE ELSE\nPRINT "b"\nEND SELECT\nNEXT\n'),
    ('sub-static', 'DECLARE SUB bump ()\nbump\nbump\nSUB bump\nSTATIC n%\nn% = n% + 1\nPRINT n%\nEND SUB\n'),
    ('erroneous', 'DEFSTR A-Z\nCONST k = 5\nTYPE pt\nx AS STRING * 4\nEND TYPE\nfin: d = "q"\nSUB bump\nEND SUB\nGOTO nowhere\n'),
    ('single-literal', 'x = 2.5\ny# = 0.1\nPRINT x * 3; y#; 7\n'),
    ('print-only', 'PRINT "hi"; 1\n'),
]
PROGS_T = PROGS + [
    ('syntax-error', 'DEFLNG A-Z\nSUB bump\nFOR i = 1 TO 3\nIF i THEN\nPRINT 1 +\n'),
]

# programs whose random numbers come from the shipped random source
RND_PROGS = [
    ('rnd-plain', 'PRINT RND; RND; INT(RND * 100)\n'),
    ('rnd-randomize', 'RANDOMIZE 7\nFOR i% = 1 TO 3\nPRINT RND\nNEXT\nPRINT RND(0); RND(-2); RND(1)\n'),
    ('rnd-timer', 'RANDOMIZE TIMER\nx = RND\nPRINT x; RND(0)\nRANDOMIZE 7\nPRINT RND\n'),
]


def cfgname(c):
    return 'O%d%s' % (c[0], 'g' if c[1] else '')


# --- children --------------------------------------------------------------

def spawn(job, seed, cwd):
    env = dict(os.environ)
    env['PYTHONHASHSEED'] = str(seed)
    env['PYTHONPATH'] = ROOT + ':' + impl.REPO
    env['QBEE_REPO'] = impl.REPO
    r = subprocess.run([sys.executable, '-m', 'qv.c20_child'], input=json.dumps(job),
                       capture_output=True, text=True, cwd=cwd, env=env)
    if r.returncode != 0:
        raise RuntimeError('c20 child failed rc=%s: %s' % (r.returncode, r.stderr[-1500:]))
    res = json.loads(r.stdout)
    if res['seed'] != str(seed):
        raise RuntimeError('child ran under hash seed %r, wanted %r' % (res['seed'], seed))
    return res['records']


def job_worker(chunk, cwds):
    """chunk of (tag, job, seed, cwdname) -> [(tag, seed, cwdname, records)]"""
    out = []
    for tag, job, seed, cw in chunk:
        out.append((tag, seed, cw, spawn(job, seed, cwds[cw])))
    return out


# --- the run side (in a pool worker of this process) -------------------------

def run_worker(chunk, cwds, child_seeds):
    impl.parse_cache(True)
    viol = []
    st = {'run_modules': 0, 'run_executions': 0, 'run_outcomes': set(),
          'run_with_events': 0, 'realrng_runs': 0}
    items = []
    local = {}
    for key, name, src, script, cfgs, kinds in chunk:
        for cfg in cfgs:
            r = impl.compile_text(src, cfg[0], cfg[1])
            if not r.ok:
                continue
            st['run_modules'] += 1
            for kind in kinds:
                k = '%s|%s|%s' % (key, cfgname(cfg), kind)
                d1 = child.run_digest(impl, child.run_one(impl, r.binary, script, kind))
                d2 = child.run_digest(impl, child.run_one(impl, r.binary, script, kind))
                st['run_executions'] += 2
                st['run_outcomes'].add(tuple(d1))
                if d1[4] > 0 and d1[5] != child._h('[]'):
                    st['run_with_events'] += 1
                if kind == 'realrng':
                    st['realrng_runs'] += 1
                case = {'mode': 'run', 'name': name, 'src': src, 'cfg': list(cfg),
                        'script': script, 'kind': kind, 'seed': 0}
                if d1 != d2:
                    viol.append(({'family': 'runs', 'divergence': _run_div(d1, d2),
                                  'where': 'same-process', 'kind': kind, 'program': name},
                                 case, d1, d2, len(src)))
                local[k] = (d1, case)
                items.append([k, base64.b64encode(r.binary).decode(), script, kind])
    for seed, cw in child_seeds:
        recs = spawn({'mode': 'run', 'items': items}, seed, cwds[cw])
        st['run_executions'] += len(recs)
        for k, d in recs:
            d1, case = local[k]
            if d != d1:
                c = dict(case, seed=seed, cwd=cw)
                viol.append(({'family': 'runs', 'divergence': _run_div(d1, d),
                              'where': 'other-process', 'kind': case['kind'],
                              'program': case['name']}, c, d1, d, len(case['src'])))
    return viol, st


def _run_div(a, b):
    if a[:3] != b[:3]:
        return 'outcome'
    if a[5] != b[5]:
        return 'trace'
    if a[4] != b[4]:
        return 'ticks'
    return 'trap-address'


# --- comparison of compile digests -------------------------------------------

def _cmp(ref, got):
    """-> None | (divergence, sections)"""
    if ref == got:
        return None
    if ref[0] != got[0] or ref[0] != 'ok':
        if ref[0] == got[0] and ref[0] in ('syntax', 'compile'):
            return ('diagnostic', '')
        return ('acceptance', '')
    secs = [str(i) for i in (1, 2, 3, 4) if ref[i] != got[i]]
    if secs:
        return ('sections', ','.join(secs))
    return ('listing', '')


def run(chk):
    quick = chk.tier == 'quick'
    progs = PROGS if quick else PROGS_T
    names = [n for n, _ in progs]
    srcs = [s for _, s in progs]
    np_ = len(progs)
    seeds = list(range(4)) if quick else list(range(16))
    tmpB = tempfile.mkdtemp(prefix='qv_c20_')
    cwds = {'A': ROOT, 'B': tmpB}
    allcfg = [list(c) for c in impl.CONFIGS]
    only = chk.only
    try:
        _run(chk, quick, progs, names, srcs, np_, seeds, cwds, allcfg, only)
    finally:
        shutil.rmtree(tmpB, ignore_errors=True)


def _run(chk, quick, progs, names, srcs, np_, seeds, cwds, allcfg, only):
    fam = {}
    jobs = []
    # --- tree jobs -------------------------------------------------------
    # seed 0 / cwd A: deepest histories, mixed configurations
    deep = 3 if quick else 4          # history + target
    shallow = 2 if quick else 3
    mixed = 1 if quick else 2
    if not only or 'history' in only:
        groups = [list(range(i, np_, 3)) for i in range(3)] if quick else [[i] for i in range(np_)]
        for c in allcfg:
            for gsel in groups:
                jobs.append(('tree', {'mode': 'tree', 'programs': srcs, 'maxlen': deep,
                                      'configs': [c], 'firsts': gsel, 'mixed_depth': mixed,
                                      'all_configs': allcfg}, 0, 'A'))
        for s in seeds:
            for cw in ('A', 'B'):
                if (s, cw) == (0, 'A'):
                    continue
                cgroups = [allcfg[:3], allcfg[3:]] if quick else [[c] for c in allcfg]
                for cg in cgroups:
                    jobs.append(('tree', {'mode': 'tree', 'programs': srcs, 'maxlen': shallow,
                                          'configs': cg, 'firsts': list(range(np_)),
                                          'mixed_depth': 0, 'all_configs': allcfg}, s, cw))
        # really fresh interpreter processes: one compilation each
        fresh_cfgs = [[0, False], [2, True]] if quick else allcfg
        fresh_where = [(0, 'A')] if quick else [(0, 'A'), (1, 'B'), (5, 'A')]
        for s, cw in fresh_where:
            for p in range(np_):
                for c in fresh_cfgs:
                    jobs.append(('fresh', {'mode': 'seq', 'items': [[[p, c], srcs[p], c[0], c[1]]]}, s, cw))
        fam['history'] = {
            'alphabet': names, 'max_history_seed0': deep - 1, 'max_history_other_seeds': shallow - 1,
            'mixed_config_history_len': mixed, 'hash_seeds': seeds, 'cwds': 2,
            'fresh_interpreter_compilations': len([j for j in jobs if j[0] == 'fresh'])}
    # --- corpus jobs -------------------------------------------------------
    cases = corpus.cases()
    ccfgs = [[0, False], [2, True]] if quick else allcfg
    if not only or 'corpus' in only:
        passes = [(0, 'A', False, 20), (1, 'A', True, 23)]
        if not quick:
            passes.append((2, 'B', False, 17))
        for pi, (s, cw, rev, csize) in enumerate(passes):
            idxs = list(range(len(cases)))
            if rev:
                idxs.reverse()
            for i in range(0, len(idxs), csize):
                items = []
                for ci in idxs[i:i + csize]:
                    for c in (reversed(ccfgs) if rev else ccfgs):
                        items.append([[ci, c], cases[ci]['src'], c[0], c[1]])
                jobs.append(('corpus%d' % pi, {'mode': 'seq', 'items': items}, s, cw))
        fam['corpus'] = {'programs': len(cases), 'configs': [cfgname(c) for c in ccfgs],
                         'passes': [{'seed': s, 'cwd': cw, 'reverse_order': rev, 'per_process': n}
                                    for s, cw, rev, n in passes]}
    # longest jobs first
    jobs.sort(key=lambda j: -(j[1].get('maxlen', 0) * 1000 + len(j[1].get('items', ()))))
    results = []
    for res in chk.pmap(job_worker, jobs, extra=(cwds,), chunk=1):
        results.extend(res)

    # --- judge compile records ---------------------------------------------
    ref = {}
    tree_recs = []
    fresh_recs = []
    corp = {}
    for tag, seed, cw, recs in results:
        if tag == 'tree':
            for hist, p, hc, tc, d in recs:
                tree_recs.append((seed, cw, tuple(hist), p, tuple(hc), tuple(tc), d))
                if not hist and seed == 0 and cw == 'A':
                    ref[(p, tuple(tc))] = d
        elif tag == 'fresh':
            for (p, c), d in recs:
                fresh_recs.append((seed, cw, p, tuple(c), d))
        else:
            for (ci, c), d in recs:
                corp.setdefault((ci, tuple(c)), []).append((tag, seed, cw, d))
    ev = 0
    nontriv = 0
    distinct = set()
    unstable_diag = 0
    hist_seen = set()
    pristine = {}
    for seed, cw, hist, p, hc, tc, d in tree_recs:
        if not hist:
            pristine[(seed, cw, p, tc)] = d
    for seed, cw, hist, p, hc, tc, d in tree_recs:
        ev += 1
        r = ref[(p, tc)]
        distinct.add((p, tc, tuple(d)))
        if d[0] == 'ok' and (hist or seed or cw != 'A'):
            nontriv += 1
        hist_seen.add((hist, hc != tc))
        diff = _cmp(r, d)
        if diff is None:
            continue
        if diff[0] == 'diagnostic':
            unstable_diag += 1
            continue
        pr = pristine.get((seed, cw, p, tc))
        cause = 'history' if hist and pr == r else 'seed-or-process'
        feat = {'family': 'history' if hist else 'fresh', 'divergence': diff[0], 'sections': diff[1],
                'target': names[p], 'after': names[hist[-1]] if hist else None,
                'config': cfgname(tc), 'mixed_config': hc != tc, 'cause': cause}
        case = {'mode': 'history', 'history': [srcs[i] for i in hist],
                'history_names': [names[i] for i in hist], 'history_cfg': list(hc),
                'target': srcs[p], 'target_name': names[p], 'cfg': list(tc),
                'seed': seed, 'cwd': cw}
        chk.add_violations([(feat, case, r[:6], d[:6], len(hist) * 1000 + seed * 10 + (cw == 'B'))])
    for seed, cw, p, tc, d in fresh_recs:
        ev += 1
        nontriv += d[0] == 'ok'
        r = ref.get((p, tc))
        if r is None:
            continue
        diff = _cmp(r, d)
        if diff is None:
            continue
        if diff[0] == 'diagnostic':
            unstable_diag += 1
            continue
        feat = {'family': 'fresh', 'divergence': diff[0], 'sections': diff[1], 'target': names[p],
                'after': None, 'config': cfgname(tc), 'mixed_config': False,
                'cause': 'seed-or-process'}
        case = {'mode': 'history', 'history': [], 'history_names': [], 'history_cfg': list(tc),
                'target': srcs[p], 'target_name': names[p], 'cfg': list(tc), 'seed': seed, 'cwd': cw}
        chk.add_violations([(feat, case, r[:6], d[:6], seed * 10 + (cw == 'B'))])
    corpus_ok = 0
    for (ci, c), obs in sorted(corp.items()):
        ev += len(obs)
        base = obs[0]
        if base[3][0] == 'ok':
            corpus_ok += 1
            nontriv += len(obs) - 1
        distinct.add(('corpus', ci, c, tuple(base[3])))
        for o in obs[1:]:
            diff = _cmp(base[3], o[3])
            if diff is None:
                continue
            if diff[0] == 'diagnostic':
                unstable_diag += 1
                continue
            cs = cases[ci]
            feat = {'family': 'corpus', 'divergence': diff[0], 'sections': diff[1],
                    'target': '%s#%d' % (cs['file'], cs['idx']), 'config': cfgname(c)}
            case = {'mode': 'corpus', 'target': cs['src'], 'cfg': list(c),
                    'a': {'pass': base[0], 'seed': base[1], 'cwd': base[2]},
                    'b': {'pass': o[0], 'seed': o[1], 'cwd': o[2]}}
            chk.add_violations([(feat, case, base[3][:6], o[3][:6], len(cs['src']))])
    if 'corpus' in fam:
        fam['corpus']['accepted_program_configs'] = corpus_ok
    if 'history' in fam:
        fam['history']['records'] = len(tree_recs)
        fam['history']['distinct_histories'] = len(hist_seen)
        fam['history']['reference_cells'] = len(ref)

    # --- run side ------------------------------------------------------------
    if not only or 'runs' in only:
        rcfgs = [(0, False), (2, True)] if quick else list(impl.CONFIGS)
        items = []
        for i, cs in enumerate(cases):
            if cs['expected'] in ('success', 'trap'):
                kinds = ['env']
                low = cs['src'].lower()
                if 'rnd' in low or 'randomize' in low:
                    kinds.append('realrng')
                items.append(('corpus%d' % i, '%s#%d' % (cs['file'], cs['idx']), cs['src'],
                              corpus.script_of(cs), rcfgs, kinds))
        for n, s in progs:
            items.append(('alpha-' + n, n, s, {}, list(impl.CONFIGS), ['env']))
        for n, s in RND_PROGS:
            items.append(('rnd-' + n, n, s, {'timer': [1234.5, 99.25]}, list(impl.CONFIGS),
                          ['env', 'realrng']))
        child_seeds = [(1, 'A')] if quick else [(1, 'A'), (7, 'B')]
        for viol, st in chk.pmap(run_worker, items, extra=(cwds, child_seeds), chunk=16):
            chk.add_violations(viol)
            chk.merge_stats(st)
        fam['runs'] = {'programs': len(items), 'configs': [cfgname(c) for c in rcfgs],
                       'in_process_repeats': 2, 'other_process': [{'seed': s, 'cwd': c} for s, c in child_seeds],
                       'rnd_programs_on_shipped_random_source': [n for n, _ in RND_PROGS]}
        ev += chk.cov.get('run_executions', 0)
        nontriv += chk.cov.get('run_with_events', 0)

    chk.cov['evaluations'] = ev
    chk.cov['distinct_nontrivial'] = nontriv
    chk.cov['distinct_compile_outcomes'] = len(distinct)
    chk.cov['unstable_diagnostics_not_judged'] = unstable_diag
    if tree_recs:
        chk.sample({'family': 'history', 'history': [names[i] for i in tree_recs[len(tree_recs) // 2][2]],
                    'target': names[tree_recs[len(tree_recs) // 2][3]],
                    'seed': tree_recs[len(tree_recs) // 2][0]})
        chk.sample({'family': 'history', 'program': progs[3][1]})
    chk.sample({'family': 'runs', 'program': RND_PROGS[1][1], 'peripherals': 'derived from BasePeripheralsImpl'})
    chk.assumptions = [
        'independence of the time of day is not enumerated (the compiler has no clock seam); runs happen at whatever time they happen',
        'a forked copy of a process that has imported qbee but compiled nothing counts as a fresh process; really fresh interpreter processes are used for the listed subset',
        'for rejected programs only acceptance is judged; a differing diagnostic (code / position) is counted in unstable_diagnostics_not_judged',
        'TIMER is a scripted device input on the run side (the shipped time source reads the wall clock)']
    chk.finish(
        rule=('a compile evaluation = one compilation of a target after a history of compilations in one process '
              '(or of a corpus snippet in a sequence) under a hash seed and working directory, compared by '
              'sections 1-4 and listing with the reference (empty history, seed 0); non-trivial = target accepted '
              'and the conditions differ from the reference (history, seed, cwd or process); a run evaluation = one '
              'execution of a module with its script; non-trivial = the run produced device events'),
        extra_cov={'families': fam, 'configs': [cfgname(c) for c in impl.CONFIGS]})


# --- replay -------------------------------------------------------------------

def _show_diff(a, b):
    for i in (1, 2, 3, 4):
        sa, sb = a[6]['sections'][str(i)], b[6]['sections'][str(i)]
        print('section %d: %s' % (i, 'identical' if sa == sb else 'DIFFERENT\n  ref: %s\n  got: %s' % (sa[:400], sb[:400])))
    if a[6]['listing'] != b[6]['listing']:
        print('listing differs:')
        for l in list(difflib.unified_diff(a[6]['listing'].split('\n'), b[6]['listing'].split('\n'),
                                           'reference', 'observed', lineterm=''))[:60]:
            print('  ' + l)
    else:
        print('listing identical')


def replay(rec):
    case = rec['case']
    tmpB = tempfile.mkdtemp(prefix='qv_c20_')
    cwds = {'A': ROOT, 'B': tmpB}
    try:
        if case['mode'] == 'history':
            hc = case['history_cfg']
            c = case['cfg']
            items = [['h%d' % i, s, hc[0], hc[1]] for i, s in enumerate(case['history'])]
            items.append(['target', case['target'], c[0], c[1]])
            print('--- target (%s) ---' % cfgname(c))
            print(case['target'])
            print('--- history (%s): %s ; seed %s cwd %s ---' % (cfgname(hc), case['history_names'], case['seed'], case['cwd']))
            ref = spawn({'mode': 'seq', 'full': True, 'items': items[-1:]}, 0, cwds['A'])[-1][1]
            got = spawn({'mode': 'seq', 'full': True, 'items': items}, case['seed'], cwds[case['cwd']])[-1][1]
        elif case['mode'] == 'corpus':
            c = case['cfg']
            print('--- target (%s) ---' % cfgname(c))
            print(case['target'])
            it = [['target', case['target'], c[0], c[1]]]
            ref = spawn({'mode': 'seq', 'full': True, 'items': it}, case['a']['seed'], cwds[case['a']['cwd']])[-1][1]
            got = spawn({'mode': 'seq', 'full': True, 'items': it}, case['b']['seed'], cwds[case['b']['cwd']])[-1][1]
            print('(replayed as first compilation of a fresh process under each seed; the sequence position is not replayed)')
        else:
            return _replay_run(case, cwds)
        print('reference:', ref[:6])
        print('observed :', got[:6])
        if ref[:6] == got[:6]:
            print('identical')
            return 0
        if ref[0] == 'ok' and got[0] == 'ok':
            _show_diff(ref, got)
        if _cmp(ref[:6], got[:6])[0] == 'diagnostic':
            print('only the diagnostic differs (not judged)')
            return 0
        print('NOT DETERMINISTIC')
        return 1
    finally:
        shutil.rmtree(tmpB, ignore_errors=True)


def _replay_run(case, cwds):
    print('--- program (%s, peripherals: %s) ---' % (cfgname(case['cfg']), case['kind']))
    print(case['src'])
    r = impl.compile_text(case['src'], case['cfg'][0], bool(case['cfg'][1]))
    if not r.ok:
        print('does not compile any more:', r.brief())
        return 0
    d = [child.run_digest(impl, child.run_one(impl, r.binary, case['script'], case['kind']), full=True)
         for _ in range(2)]
    item = [['x', base64.b64encode(r.binary).decode(), case['script'], case['kind']]]
    seed = case.get('seed', 0) or 1
    d.append(spawn({'mode': 'run', 'full': True, 'items': item}, seed, cwds[case.get('cwd', 'A')])[0][1])
    for tag, x in zip(('run 1 (this process)', 'run 2 (this process)', 'other process, seed %d' % seed), d):
        print(tag, x[:6])
        print('   events:', json.dumps(x[6])[:600])
    if d[0][:6] == d[1][:6] == d[2][:6]:
        print('identical')
        return 0
    print('NOT DETERMINISTIC')
    return 1
