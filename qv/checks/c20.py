"""C20 - compilation and execution are deterministic.

HX (history exploration).  Compile side: an alphabet of small programs, each
touching one piece of process-wide or per-compilation state (DEFtype, CONST,
TYPE, many labels + DATA, hidden locals + label counter, routines + STATIC, and
programs that are rejected by the parser, by block assembly, by pass 1, 2, 3
and by the code generator after having declared things), is compiled in child
processes (qv.c20_child, never with the parse cache) under several
PYTHONHASHSEED values and two working directories:

  fresh   every program (quick: in O0 and O2g, thorough: every configuration)
          as the only compilation of a fresh interpreter, seed 0, cwd A - the
          reference digests
  exact   (thorough) every history [h] in O2g and every [h1, h2] over five
          state-changing programs in O2g, then the target, each sequence in
          its own fresh interpreter
  mixed   chains (one fresh interpreter per 200 compilations) in which every
          ordered pair of (program, configuration) symbols occurs adjacently
          (de Bruijn order 2 over programs x configurations): -g on/off and
          the optimisation levels in the history of every target
  deep    de Bruijn chains of order 3 over the programs in O0 (thorough: and
          O2g), of order 3 (thorough: 4) over the state-changing programs in
          O2g: every history of length 2 (3) immediately before every target
  seeds   every symbol under every hash seed and both working directories

Every single compilation of every family is judged: sections 1-4 of the module
and the listing must equal the reference.  A chain makes the whole prefix
compiled so far in that process the history of each of its compilations; when
one differs, the parent looks for the shortest history that reproduces it in a
fresh interpreter (suffixes of length 0..3, then the full prefix reduced
greedily) and reports that.  The repository's snippets are additional targets
(seed 0 forward order vs seed 1 reverse order, other chunking).

Run side: every module x script is executed twice in this process and once in
another process (other hash seed, reverse order): same event trace, outcome,
tick count; RND / RANDOMIZE programs additionally on a peripherals object
derived from the shipped BasePeripheralsImpl.  Oracle: identity.  The debug
section (5) is excluded by the property."""
import base64
import difflib
import json
import os
import shutil
import subprocess
import sys
import tempfile

from .. import impl, corpus
from .. import c20_child as child

LEVEL = 'exploration'

ROOT = os.path.dirname(os.path.dirname(os.path.dirname(os.path.abspath(__file__))))

# --- history alphabet ------------------------------------------------------
# (name, source, kind expected on the unchanged tree, changes shared state?)
# the expected kind is only used to report whether the alphabet still does
# what it was designed for (coverage key alphabet_as_designed), never judged.
PROGS = [
    ('deftype', 'DEFINT A-C\nDEFSTR S\nDEFDBL X-Z\na = 7\ns = "x"\nd = 1.5\ny = 2\nPRINT a; s; d; y\n', 'ok'),
    ('const-lit', 'CONST k = 3\nCONST m$ = "z"\nx = 2.5\ny# = 0.1\nPRINT k * 2; m$; x * 3; y#; 7\n', 'ok'),
    ('type', 'TYPE pt\nx AS INTEGER\ny AS LONG\nn AS STRING\nEND TYPE\nDIM p AS pt\np.y = 5\np.n = "ab"\n'
             'PRINT p.x; p.y; p.n\n', 'ok'),
    ('labels', 'ON ERROR GOTO eh\nREAD a$, b\nRESTORE two\nREAD c$\nGOSUB s1\nIF b = 2 THEN GOTO l2\n'
               'l1: PRINT 1\nl2: PRINT 2\nl3: PRINT a$; c$\nGOTO fin\none: DATA "p", 2\ntwo: DATA q, 2\n'
               's1: RETURN\neh: RESUME NEXT\n100 PRINT "h"\nzz9: PRINT "z"\nfin: END\n', 'ok'),
    ('for-select', 'FOR i% = 1 TO 2\nSELECT CASE i%\nCASE 1\nPRINT "a"\nCASE ELSE\nPRINT "b"\nEND SELECT\nNEXT\n'
                   'DO\nj% = j% + 1\nLOOP UNTIL j% > 1\nIF j% THEN PRINT j% + 1 * 2\n', 'ok'),
    # the same names as in other programs with another meaning: pt, bump, k, y
    ('routines', 'DECLARE SUB bump (k%)\nDECLARE FUNCTION twice! (v!)\nTYPE pt\ny AS DOUBLE\nEND TYPE\n'
                 'DIM SHARED g AS pt\nbump 2\nbump 3\nPRINT twice(1.5); g.y\nSUB bump (k%)\nSTATIC n%\n'
                 'n% = n% + k%\ng.y = n%\nEND SUB\nFUNCTION twice! (v!)\ntwice! = v! * 2\nEND FUNCTION\n', 'ok'),
    ('print-only', 'PRINT "hi"; 1\n', 'ok'),
    # rejected by the line parser after DEFtype / SUB / FOR / IF were seen
    ('fail-syntax', 'DEFLNG A-Z\nSUB bump\nFOR i = 1 TO 3\nIF i THEN\nPRINT 1 +\n', 'syntax'),
    # rejected while assembling blocks (FOR closed by WEND)
    ('fail-block', 'DEFSTR A-Z\nTYPE pt\nx AS INTEGER\nEND TYPE\nlb: FOR i% = 1 TO 3\nPRINT i%\nWEND\n', 'syntax'),
    # pass 1: duplicate label, after DEFSTR / CONST / TYPE / SUB
    ('fail-pass1', 'DEFSTR A-Z\nCONST k = 5\nTYPE pt\nx AS STRING\nEND TYPE\nfin: d = "q"\nSUB bump\nEND SUB\n'
                   'fin: PRINT 1\n', 'compile'),
    # pass 2: undefined label, after DEFSTR / CONST / TYPE / DIM / STATIC
    ('fail-pass2', 'DEFSTR A-Z\nCONST k = 5\nTYPE pt\nx AS STRING\nEND TYPE\nDIM p AS pt\nfin: d = "q"\n'
                   'SUB bump\nSTATIC n%\nEND SUB\nGOTO nowhere\n', 'compile'),
    # pass 3: assignment to a function, after DEFDBL / DATA / FOR
    ('fail-pass3', 'DEFDBL A-Z\nDECLARE FUNCTION f% (a%)\none: DATA 1, 2\nFOR i% = 1 TO 2\nNEXT\nf% = 3\n'
                   'FUNCTION f% (a%)\nf% = a%\nEND FUNCTION\n', 'compile'),
    # code generator: a record as a condition, after labels were handed out for FOR / SELECT
    ('fail-codegen', 'DEFINT A-Z\nTYPE pt\nx AS INTEGER\nEND TYPE\nDIM p AS pt\ntwo: DATA 5\nFOR i = 1 TO 2\n'
                     'SELECT CASE i\nCASE 1\nPRINT "a"\nEND SELECT\nNEXT\nIF p THEN PRINT 1\n', 'compile'),
]
PROGS_T = PROGS + [
    ('arrays', 'DIM a(3) AS INTEGER, b$(1 TO 2, 2)\nDIM SHARED c&(2)\na(1) = 4\nb$(1, 0) = "s"\n'
               'c&(2) = a(1) * 2\nPRINT a(1); b$(1, 0); c&(2); UBOUND(a)\n', 'ok'),
    ('many-labels', ''.join('L%s%d: PRINT %d\n' % (chr(97 + i % 7), i * 37 % 101, i) for i in range(24))
                    + 'GOTO Lb37\nRESTORE Ld10\n', 'ok'),
    ('defsng-while', 'DEFINT A-Z\nDEFSNG A-B\na = 1.5\nc = 1.5\nWHILE c < 4\nc = c + 1\nWEND\nPRINT a; c; 1 / 2\n', 'ok'),
    # code generator inside a routine: an array used as a number
    ('fail-codegen-sub', 'DEFLNG A-Z\nDIM SHARED arr(3)\nSUB s (k%)\nSTATIC t%\nFOR i% = 1 TO k%\nNEXT\nx = arr + 1\n'
                         'END SUB\n', 'compile'),
]
# programs that declare things / fail midway: the alphabet of the longest histories
STATEFUL = ['deftype', 'type', 'labels', 'for-select', 'routines', 'fail-syntax', 'fail-pass2', 'fail-codegen']

# programs whose random numbers come from the shipped random source
RND_PROGS = [
    ('rnd-plain', 'PRINT RND; RND; INT(RND * 100)\n'),
    ('rnd-randomize', 'RANDOMIZE 7\nFOR i% = 1 TO 3\nPRINT RND\nNEXT\nPRINT RND(0); RND(-2); RND(1)\n'),
    ('rnd-timer', 'RANDOMIZE TIMER\nx = RND\nPRINT x; RND(0)\nRANDOMIZE 7\nPRINT RND\n'),
]

CFGS = [[o, g] for o, g in impl.CONFIGS]
MIN_GROUPS = 6          # groups of differing compilations that are minimised
SEG = 200               # compilations per chain process


def cfgname(c):
    return 'O%d%s' % (c[0], 'g' if c[1] else '')


def de_bruijn(k, n):
    """cyclic de Bruijn sequence B(k, n) (every n-tuple over range(k) once)"""
    a = [0] * (k * n + 1)
    seq = []

    def db(t, p):
        if t > n:
            if n % p == 0:
                seq.extend(a[1:p + 1])
        else:
            a[t] = a[t - p]
            db(t + 1, p)
            for j in range(a[t - p] + 1, k):
                a[t] = j
                db(t + 1, t)
    db(1, 1)
    return seq


def chain_segments(k, n, seg=SEG):
    """the linearised B(k, n) cut into overlapping pieces: every n-tuple is a
    window of exactly one piece"""
    cyc = de_bruijn(k, n)
    lin = cyc + cyc[:n - 1]
    return [lin[i:i + seg + n - 1] for i in range(0, len(cyc), seg)]


# --- children --------------------------------------------------------------

def spawn(job, seed, cwd):
    env = dict(os.environ)
    env['PYTHONHASHSEED'] = str(seed)
    env['PYTHONPATH'] = ROOT + ':' + impl.REPO
    env['QBEE_REPO'] = impl.REPO
    r = subprocess.run([sys.executable, '-m', 'qv.c20_child'], input=json.dumps(job),
                       capture_output=True, text=True, cwd=cwd, env=env)
    if r.returncode != 0:
        raise RuntimeError('c20 child failed rc=%s: %s' % (r.returncode, r.stderr[-1500:]))
    res = json.loads(r.stdout)
    if res['seed'] != str(seed):
        raise RuntimeError('child ran under hash seed %r, wanted %r' % (res['seed'], seed))
    return res['records']


def job_worker(chunk, cwds):
    """chunk of (tag, job, seed, cwdname) -> [(tag, seed, cwdname, job, records)]"""
    out = []
    for tag, job, seed, cw in chunk:
        recs = spawn(job, seed, cwds[cw])
        slim = {k: v for k, v in job.items() if k != 'programs'}
        out.append((tag, seed, cw, slim, recs))
    return out


# --- the run side (in a pool worker of this process) -------------------------

def run_worker(chunk, cwds, child_seeds):
    impl.parse_cache(False)
    viol = []
    st = {'run_modules': 0, 'run_executions': 0, 'run_outcomes': set(),
          'run_with_events': set(), 'realrng_runs': 0}
    items = []
    local = {}
    for key, name, src, script, cfgs, kinds in chunk:
        for cfg in cfgs:
            r = impl.compile_text(src, cfg[0], cfg[1])
            if not r.ok:
                continue
            st['run_modules'] += 1
            for kind in kinds:
                k = '%s|%s|%s' % (key, cfgname(cfg), kind)
                d1 = child.run_digest(impl, child.run_one(impl, r.binary, script, kind))
                d2 = child.run_digest(impl, child.run_one(impl, r.binary, script, kind))
                st['run_executions'] += 2
                st['run_outcomes'].add(tuple(d1))
                if d1[4] > 0 and d1[5] != child._h('[]'):
                    st['run_with_events'].add(k)
                if kind == 'realrng':
                    st['realrng_runs'] += 1
                case = {'mode': 'run', 'name': name, 'src': src, 'cfg': list(cfg),
                        'script': script, 'kind': kind, 'seed': 0}
                if d1 != d2:
                    viol.append(({'family': 'runs', 'divergence': _run_div(d1, d2),
                                  'where': 'same-process', 'kind': kind, 'program': name},
                                 case, d1, d2, len(src)))
                local[k] = (d1, case)
                items.append([k, base64.b64encode(r.binary).decode(), script, kind])
    for n, (seed, cw) in enumerate(child_seeds):
        its = list(reversed(items)) if n % 2 == 0 else items
        recs = spawn({'mode': 'run', 'items': its}, seed, cwds[cw])
        st['run_executions'] += len(recs)
        for k, d in recs:
            d1, case = local[k]
            if d != d1:
                c = dict(case, seed=seed, cwd=cw)
                viol.append(({'family': 'runs', 'divergence': _run_div(d1, d),
                              'where': 'other-process', 'kind': case['kind'],
                              'program': case['name']}, c, d1, d, len(case['src'])))
    return viol, st


def _run_div(a, b):
    if a[:3] != b[:3]:
        return 'outcome'
    if a[5] != b[5]:
        return 'trace'
    if a[4] != b[4]:
        return 'ticks'
    return 'trap-address'


# --- comparison of compile digests -------------------------------------------

def _cmp(ref, got):
    """-> None | (divergence, sections)"""
    ref, got = list(ref[:6]), list(got[:6])
    if ref == got:
        return None
    if ref[0] != got[0] or ref[0] != 'ok':
        if ref[0] == got[0] and ref[0] in ('syntax', 'compile'):
            return ('diagnostic', '')
        return ('acceptance', '')
    secs = [str(i) for i in (1, 2, 3, 4) if ref[i] != got[i]]
    if secs:
        return ('sections', ','.join(secs))
    return ('listing', '')


def _judged(diff):
    """a differing diagnostic of a program rejected both times is outside the
    statement (it speaks about the module and the listing)"""
    return diff is not None and diff[0] != 'diagnostic'


def tree_hash():
    """hash of the implementation's sources: children import them at different
    times, so a commit landing in the repository during the run looks like
    nondeterminism (seen once: 8 fix commits during a thorough run)"""
    import glob
    import hashlib
    h = hashlib.sha1()
    for fn in sorted(glob.glob(os.path.join(impl.REPO, 'qbee', '*.py')) + glob.glob(os.path.join(impl.REPO, 'qvm', '*.py'))):
        with open(fn, 'rb') as f:
            h.update(fn.encode() + b'\0' + f.read())
    return h.hexdigest()


def run(chk):
    quick = chk.tier == 'quick'
    progs = PROGS if quick else PROGS_T
    tmpB = tempfile.mkdtemp(prefix='qv_c20_')
    cwds = {'A': ROOT, 'B': tmpB}
    chk.tree0 = tree_hash()
    try:
        _run(chk, quick, progs, cwds)
    finally:
        shutil.rmtree(tmpB, ignore_errors=True)


QCFG_MIXED = [[0, False], [0, True], [1, True], [2, False]]
ECFG = [[2, True]]


def _compile_jobs(quick, progs):
    """-> (jobs, family description).  job = (family, child job, seed, cwd);
    one job = one fresh interpreter compiling one sequence"""
    names = [p[0] for p in progs]
    srcs = [p[1] for p in progs]
    n = len(progs)
    seeds = [0, 1, 2, 3] if quick else list(range(16)) + [123456789, 4294967295]
    where = [(s, c) for c in 'AB' for s in seeds]
    st = [names.index(x) for x in STATEFUL]
    jobs = []

    def seqjob(fam, seq, seed, cw):
        jobs.append((fam, {'mode': 'seqs', 'programs': srcs, 'seqs': [seq]}, seed, cw))

    syms = [[p, o, g] for p in range(n) for o, g in CFGS]
    # fresh interpreters compiling one symbol (the references): seed 0, cwd A
    fcfg = [[0, False], [2, True]] if quick else CFGS
    for p in range(n):
        for c in fcfg:
            seqjob('fresh', [[p] + c], 0, 'A')
    # exact histories from the pristine state (thorough)
    ex = []
    if not quick:
        ex += [[[h] + c, [t] + c] for c in ECFG for h in range(n) for t in range(n)]
        st5 = st[:5]
        ex += [[[a] + c, [b] + c, [t] + c] for c in ([2, True],)
               for a in st5 for b in st5 for t in st5]
    for i, seq in enumerate(ex):
        s, cw = where[(i * 5 + i // len(where)) % len(where)]
        seqjob('exact', seq, s, cw)
    # mixed-configuration chains: all ordered pairs of symbols
    mcfg = QCFG_MIXED if quick else CFGS
    msyms = [[p] + c for p in range(n) for c in mcfg]
    for i, seg in enumerate(chain_segments(len(msyms), 2)):
        s, cw = where[i % len(where)]
        seqjob('mixed', [msyms[j] for j in seg], s, cw)
    # deep chains: all triples of programs in one configuration
    dcfg = [[0, False]] if quick else [[0, False], [2, True]]
    for ci, c in enumerate(dcfg):
        for i, seg in enumerate(chain_segments(n, 3)):
            s, cw = where[(i + ci + 1) % len(where)]
            seqjob('deep', [[p] + c for p in seg], s, cw)
    # the state-changing programs: triples in O2g (quick) / quadruples in O0, O2g (thorough)
    for ci, c in enumerate([[2, True]]):
        for i, seg in enumerate(chain_segments(len(st), 3 if quick else 4)):
            s, cw = where[(i + ci + 3) % len(where)]
            seqjob('deep-stateful', [[st[p]] + c for p in seg], s, cw)
    # every symbol under every seed and working directory
    for i, (s, cw) in enumerate(where):
        r = (i * 11) % len(syms)
        seqjob('seeds', syms[r:] + syms[:r], s, cw)
    fam = {'alphabet': names, 'symbols': len(syms), 'hash_seeds': seeds, 'cwds': 2,
           'exact': ('none beyond the first two compilations of every chain process' if quick else
                     'every [h, t] in O2g, every [h1, h2, t] over ' + ','.join(STATEFUL[:5])
                     + ' in O2g: each in its own fresh interpreter'),
           'mixed_chain': 'de Bruijn order 2 over programs x (%s): all ordered pairs of symbols adjacent'
                          % ','.join(cfgname(c) for c in mcfg),
           'deep_chain': 'de Bruijn order 3 over the programs in each of ' + ','.join(cfgname(c) for c in dcfg),
           'deep_stateful_chain': ('order 3 in O2g' if quick else 'order 4 in O2g') + ' over ' + ','.join(STATEFUL),
           'chain_segment': SEG,
           'fresh_interpreter_single_compilations': len([j for j in jobs if j[0] == 'fresh'])}
    return jobs, fam


def _cost(j):
    job = j[1]
    if job['mode'] == 'seqs':
        return sum(len(s) for s in job['seqs'])
    return 1


def _minimise(srcs, ref, seq, pos, seed, cw, cwds):
    """shortest history found that reproduces the difference in a fresh
    interpreter under the same seed and cwd -> (history, digest, cause)"""
    target = seq[pos]
    prefix = [list(x) for x in seq[:pos]]
    r = ref[tuple(target)]

    def attempt(hist):
        d = spawn({'mode': 'seqs', 'programs': srcs, 'seqs': [hist + [target]]}, seed, cwds[cw])[0][-1]
        return d if _judged(_cmp(r, d)) else None

    def drop_single(hist, d, budget):
        i = 0
        while i < len(hist) and len(hist) > 1 and budget > 0:
            cand = hist[:i] + hist[i + 1:]
            budget -= 1
            d2 = attempt(cand)
            if d2:
                hist, d = cand, d2
            else:
                i += 1
        return hist, d

    for L in range(0, min(len(prefix), 3) + 1):
        hist = prefix[len(prefix) - L:]
        d = attempt(hist)
        if d:
            if L >= 2:
                hist, d = drop_single(hist, d, 3)
            return hist, d, ('seed-or-process' if L == 0 else 'history')
    if len(prefix) <= 3:
        return prefix, None, 'not-reproduced'
    d = attempt(prefix)
    if d is None:
        return prefix, None, 'not-reproduced'
    hist = prefix
    while len(hist) > 4:
        d2 = attempt(hist[len(hist) // 2:])
        if not d2:
            break
        hist, d = hist[len(hist) // 2:], d2
    hist, d = drop_single(hist, d, 40)
    return hist, d, 'history'


def _run(chk, quick, progs, cwds):
    only = chk.only
    fam = {}
    names = [p[0] for p in progs]
    srcs = [p[1] for p in progs]
    jobs = []
    SUB = {'fresh', 'exact', 'mixed', 'deep', 'deep-stateful', 'seeds'}
    if not only or 'history' in only or only & SUB:
        jobs, fam['history'] = _compile_jobs(quick, progs)
        if only and only & SUB:      # development aid: some compile families only
            jobs = [j for j in jobs if j[0] in only]
    # --- corpus jobs -------------------------------------------------------
    cases = corpus.cases()
    ccfgs = [[0, False], [2, True]] if quick else CFGS
    if not only or 'corpus' in only:
        passes = [(0, 'A', False, 40), (1, 'B', True, 47)]
        if not quick:
            passes.append((2, 'A', False, 33))
        for pi, (s, cw, rev, csize) in enumerate(passes):
            idxs = list(range(len(cases)))
            if rev:
                idxs.reverse()
            for i in range(0, len(idxs), csize):
                part = idxs[i:i + csize]
                seq = [[k] + c for k in range(len(part)) for c in (list(reversed(ccfgs)) if rev else ccfgs)]
                jobs.append(('corpus%d' % pi, {'mode': 'seqs', 'programs': [cases[ci]['src'] for ci in part],
                                               'seqs': [seq], 'cis': part}, s, cw))
        fam['corpus'] = {'programs': len(cases), 'configs': [cfgname(c) for c in ccfgs],
                         'passes': [{'seed': s, 'cwd': cw, 'reverse_order': rev, 'per_process': n}
                                    for s, cw, rev, n in passes]}
    jobs.sort(key=lambda j: -_cost(j))
    results = []
    for res in chk.pmap(job_worker, jobs, extra=(cwds,), chunk=1):
        results.extend(res)

    # --- judge compile records ---------------------------------------------
    recs = []          # (family, seed, cw, seq, pos, digest)
    corp = {}
    for tag, seed, cw, job, out in results:
        if tag.startswith('corpus'):
            seq = job['seqs'][0]
            cis = job['cis']
            chain = [[cis[k], o, g] for k, o, g in seq]
            for pos, d in enumerate(out[0]):
                ci, o, g = chain[pos]
                corp.setdefault((ci, o, g), []).append((tag, seed, cw, chain, pos, d))
            continue
        for seq, ds in zip(job['seqs'], out):
            for pos, d in enumerate(ds):
                recs.append((tag, seed, cw, seq, pos, d))
    # reference of a symbol: its most pristine record (first compilation of a
    # process, seed 0, cwd A where there is one).  Identity is transitive, so
    # the choice only matters for attribution, not for detection.
    ref = {}
    refq = {}
    for tag, seed, cw, seq, pos, d in recs:
        t = tuple(seq[pos])
        q = (pos != 0, seed != 0, cw != 'A', pos, str(seed), tag)
        if t not in refq or q < refq[t]:
            refq[t] = q
            ref[t] = d
    pristine = set(t for t, q in refq.items() if q[:3] == (False, False, False))
    ev = 0
    distinct_cases = set()
    distinct = set()
    unstable_diag = 0
    pairs = set()
    triples = set()
    hist_lens = {}
    per_family = {}
    differing = set()
    for tag, seed, cw, seq, pos, d in recs:
        ev += 1
        per_family[tag] = per_family.get(tag, 0) + 1
        t = tuple(seq[pos])
        distinct.add((t, tuple(d)))
        if d[0] == 'ok' and (pos or seed or cw != 'A' or tag != 'fresh'):
            distinct_cases.add((tuple(tuple(x) for x in seq[:pos + 1]), seed, cw))
        if pos >= 1:
            pairs.add((tuple(seq[pos - 1]), t))
        if pos >= 2:
            triples.add((tuple(seq[pos - 2]), tuple(seq[pos - 1]), t))
        if pos <= 2:
            hist_lens[pos] = hist_lens.get(pos, 0) + 1
        if _cmp(ref[t], d) is not None:
            differing.add(t)
    # a symbol with differences whose reference is not pristine gets a pristine one now
    for t in sorted(differing - pristine):
        ref[t] = spawn({'mode': 'seqs', 'programs': srcs, 'seqs': [[list(t)]]}, 0, cwds['A'])[0][0]
    raw = []
    for tag, seed, cw, seq, pos, d in recs:
        t = tuple(seq[pos])
        if t not in differing:
            continue
        diff = _cmp(ref[t], d)
        if diff is None:
            continue
        if diff[0] == 'diagnostic':
            unstable_diag += 1
            continue
        raw.append((tag, seed, cw, None, seq, pos, d, diff))
    # group, minimise, report
    groups = {}
    for v in raw:
        tag, seed, cw, _f, seq, pos, d, diff = v
        groups.setdefault((tuple(seq[pos]), diff), []).append(v)
    for vs in groups.values():
        vs.sort(key=lambda x: (x[5], x[1] != 0, x[2] != 'A', str(x[1])))
    order = sorted(groups.items(), key=lambda kv: (kv[1][0][5], str(kv[0])))
    nmin = 0
    for gk, vs in order:
        tag, seed, cw, _f, seq, pos, d, diff = vs[0]
        t = seq[pos]
        if pos == 0:
            hist, dm, cause = [], d, 'seed-or-process'
        elif nmin < MIN_GROUPS:
            nmin += 1
            hist, dm, cause = _minimise(srcs, ref, seq, pos, seed, cw, cwds)
        else:
            hist, dm, cause = [list(x) for x in seq[:pos]], d, 'not-minimised'
        if dm is not None:
            diff = _cmp(ref[tuple(t)], dm)
        feat = {'family': 'history', 'divergence': diff[0], 'sections': diff[1],
                'target': names[t[0]], 'config': cfgname(t[1:]), 'cause': cause,
                'after': ([names[h[0]] + '/' + cfgname(h[1:]) for h in hist]
                          if cause in ('history', 'seed-or-process') else None),
                'hash_seed_0': all(x[1] == 0 for x in vs) if cause == 'not-minimised' else seed == 0}
        case = {'mode': 'history', 'history': [[srcs[h[0]], h[1], h[2]] for h in hist],
                'history_names': [names[h[0]] + '/' + cfgname(h[1:]) for h in hist],
                'target': [srcs[t[0]], t[1], t[2]], 'target_name': names[t[0]],
                'seed': seed, 'cwd': cw, 'found_in': tag, 'chain_position': pos,
                'other_instances': len(vs) - 1}
        size = len(hist) * 1000 + (seed != 0) * 10 + (cw == 'B')
        for _ in vs:
            chk.add_violations([(feat, case, ref[tuple(t)][:6], (dm or d)[:6], size)])
    # --- corpus ------------------------------------------------------------
    corpus_ok = 0
    for key, obs in sorted(corp.items()):
        ci, o, g = key
        obs.sort(key=lambda x: x[0])
        ev += len(obs)
        base = obs[0]
        if base[5][0] == 'ok':
            corpus_ok += 1
            for x in obs[1:]:
                distinct_cases.add(('corpus', key, x[0]))
        distinct.add(('corpus', key, tuple(base[5])))
        for x in obs[1:]:
            diff = _cmp(base[5], x[5])
            if diff is None:
                continue
            if diff[0] == 'diagnostic':
                unstable_diag += 1
                continue
            cs = cases[ci]
            feat = {'family': 'corpus', 'divergence': diff[0], 'sections': diff[1],
                    'target': '%s#%d' % (cs['file'], cs['idx']), 'config': cfgname([o, g])}
            case = {'mode': 'corpus', 'target': cs['src'], 'cfg': [o, g],
                    'a': {'pass': base[0], 'seed': base[1], 'cwd': base[2], 'chain': base[3][:base[4] + 1]},
                    'b': {'pass': x[0], 'seed': x[1], 'cwd': x[2], 'chain': x[3][:x[4] + 1]}}
            chk.add_violations([(feat, case, base[5][:6], x[5][:6], len(cs['src']))])
    if 'corpus' in fam:
        fam['corpus']['accepted_program_configs'] = corpus_ok
    if 'history' in fam:
        h = fam['history']
        h['compilations_per_family'] = per_family
        h['reference_cells'] = len(ref)
        h['pristine_references'] = len(pristine)
        mc = set(tuple(c) for c in (QCFG_MIXED if quick else CFGS))
        mp = set(x for x in pairs if x[0][1:] in mc and x[1][1:] in mc)
        h['adjacent_symbol_pairs_covered'] = len(mp)
        h['adjacent_symbol_pairs_wanted'] = (len(progs) * len(mc)) ** 2
        h['adjacent_symbol_pairs_any_config'] = len(pairs)
        nprog = len(progs)
        ptr = set((a[0], b[0], c[0]) for a, b, c in triples if a[1:] == b[1:] == c[1:] == (0, False))
        h['program_triples_covered_O0'] = len(ptr)
        h['program_triples_possible'] = nprog ** 3
        h['records_with_exact_history_of_length'] = {str(k): v for k, v in sorted(hist_lens.items())}
        kinds = {names[p]: ref[(p, 0, False)][0] for p in range(nprog) if (p, 0, False) in ref}
        h['alphabet_kinds'] = kinds
        h['alphabet_as_designed'] = all(kinds.get(p[0]) == p[2] for p in progs)
        h['programs_with_config_dependent_code'] = sum(
            1 for p in range(nprog) if len(set(tuple(ref[(p, o, g)][1:5]) for o, g in impl.CONFIGS
                                               if (p, o, g) in ref and ref[(p, o, g)][0] == 'ok')) > 1)
        if len(mp) != h['adjacent_symbol_pairs_wanted'] or len(ptr) != nprog ** 3:
            chk.cov['exhaustive'] = False

    # --- run side ------------------------------------------------------------
    if not only or 'runs' in only:
        rcfgs = [(0, False), (2, True)] if quick else list(impl.CONFIGS)
        items = []
        for i, cs in enumerate(cases):
            if cs['expected'] in ('success', 'trap'):
                kinds = ['env']
                low = cs['src'].lower()
                if 'rnd' in low or 'randomize' in low:
                    kinds.append('realrng')
                items.append(('corpus%d' % i, '%s#%d' % (cs['file'], cs['idx']), cs['src'],
                              corpus.script_of(cs), rcfgs, kinds))
        for p in progs:
            items.append(('alpha-' + p[0], p[0], p[1], {}, list(impl.CONFIGS), ['env']))
        for n, s in RND_PROGS:
            items.append(('rnd-' + n, n, s, {'timer': [1234.5, 99.25]}, list(impl.CONFIGS),
                          ['env', 'realrng']))
        child_seeds = [(1, 'B')] if quick else [(1, 'B'), (7, 'A')]
        for viol, st in chk.pmap(run_worker, items, extra=(cwds, child_seeds), chunk=20):
            chk.add_violations(viol)
            chk.merge_stats(st)
        fam['runs'] = {'programs': len(items), 'configs': [cfgname(c) for c in rcfgs],
                       'in_process_repeats': 2,
                       'other_process': [{'seed': s, 'cwd': c, 'order': 'same' if i % 2 else 'reverse'}
                                         for i, (s, c) in enumerate(child_seeds)],
                       'rnd_programs_on_shipped_random_source': [n for n, _ in RND_PROGS]}
        ev += chk.cov.get('run_executions', 0)
        nwe = len(chk.cov.get('_sets', {}).get('run_with_events', ()))
    else:
        nwe = 0

    if tree_hash() != chk.tree0:
        chk.close()
        print('HARNESS-ERROR property=C20 the sources under %s changed during the run '
              '(%d differences seen); the verdict is void, run again' % (impl.REPO, len(chk.violations)), flush=True)
        sys.exit(2)
    chk.cov['evaluations'] = ev
    chk.cov['distinct_nontrivial'] = len(distinct_cases) + nwe
    chk.cov['distinct_compile_outcomes'] = len(distinct)
    chk.cov['unstable_diagnostics_not_judged'] = unstable_diag
    chk.cov['compile_differences_before_grouping'] = len(raw)
    if only:
        chk.cov['exhaustive'] = False
    if recs:
        mid = [r for r in recs if r[0] == 'mixed']
        if mid:
            tag, seed, cw, seq, pos, d = mid[len(mid) // 2]
            chk.sample({'family': 'mixed chain', 'seed': seed, 'cwd': cw, 'position': pos,
                        'history (last 3)': [names[h[0]] + '/' + cfgname(h[1:]) for h in seq[max(0, pos - 3):pos]],
                        'target': names[seq[pos][0]] + '/' + cfgname(seq[pos][1:]), 'digest': d})
        ex = [r for r in recs if r[0] in ('exact', 'deep') and r[4] == 1]
        if ex:
            tag, seed, cw, seq, pos, d = ex[len(ex) // 3]
            chk.sample({'family': tag + ' (second compilation of a process)', 'seed': seed, 'cwd': cw,
                        'history': [names[h[0]] + '/' + cfgname(h[1:]) for h in seq[:pos]],
                        'target': names[seq[pos][0]] + '/' + cfgname(seq[pos][1:]), 'digest': d})
        chk.sample({'family': 'history', 'program': dict((p[0], p[1]) for p in progs)['fail-codegen']})
    chk.sample({'family': 'runs', 'program': RND_PROGS[1][1], 'peripherals': 'derived from BasePeripheralsImpl'})
    chk.assumptions = [
        'independence of the time of day is not enumerated (the compiler has no clock seam); runs happen at whatever time they happen',
        'the reference of a (program, configuration) is its compilation as the only one of a fresh interpreter (seed 0, cwd A) where the tier has one (coverage key pristine_references), else its first-in-process / earliest record; identity being transitive, every pair of records of a symbol is compared through it',
        'histories of length 2 (thorough: 3) are covered as the immediate predecessors of a target inside longer chains, not from the pristine state; exact histories from the pristine state go up to exact_history_max',
        'for rejected programs only acceptance is judged; a differing diagnostic (code / position) is counted in unstable_diagnostics_not_judged',
        'TIMER is a scripted device input on the run side (the shipped time source reads the wall clock)',
        'forking a Python process that has imported qbee costs 0.3-5 CPU s on this machine (copy-on-write faults), spawning one about 1.2 s: chains plus post-hoc minimisation replace the fork tree of DESIGN section 4']
    chk.finish(
        rule=('a compile evaluation = one compilation of a target after a history of compilations in one process '
              '(or of a corpus snippet in a sequence) under a hash seed and working directory, compared by '
              'sections 1-4 and listing with the reference (pristine process, seed 0, cwd A); distinct non-trivial = '
              'distinct (whole in-process history, target, seed, cwd, process kind) with the target accepted and '
              'conditions differing from the reference; a run evaluation = one execution of a module with its script; '
              'distinct non-trivial = distinct (module, script, peripherals kind) whose run produced device events'),
        extra_cov={'families': fam, 'configs': [cfgname(c) for c in impl.CONFIGS]})


# --- replay -------------------------------------------------------------------

def _show_diff(a, b):
    for i in (1, 2, 3, 4):
        sa, sb = a[6]['sections'][str(i)], b[6]['sections'][str(i)]
        print('section %d: %s' % (i, 'identical' if sa == sb else 'DIFFERENT\n  ref: %s\n  got: %s' % (sa[:400], sb[:400])))
    if a[6]['listing'] != b[6]['listing']:
        print('listing differs:')
        for l in list(difflib.unified_diff(a[6]['listing'].split('\n'), b[6]['listing'].split('\n'),
                                           'reference', 'observed', lineterm=''))[:60]:
            print('  ' + l)
    else:
        print('listing identical')


def _verdict(ref, got):
    print('reference:', ref[:6])
    print('observed :', got[:6])
    diff = _cmp(ref, got)
    if diff is None:
        print('identical')
        return 0
    if ref[0] == 'ok' and got[0] == 'ok':
        _show_diff(ref, got)
    if diff[0] == 'diagnostic':
        print('only the diagnostic differs (not judged)')
        return 0
    print('NOT DETERMINISTIC')
    return 1


def replay(rec):
    case = rec['case']
    tmpB = tempfile.mkdtemp(prefix='qv_c20_')
    cwds = {'A': ROOT, 'B': tmpB}
    try:
        if case['mode'] == 'history':
            items = [list(x) for x in case['history']] + [list(case['target'])]
            srcs = [x[0] for x in items]
            seq = [[i, x[1], x[2]] for i, x in enumerate(items)]
            print('--- target (%s) ---' % cfgname(case['target'][1:]))
            print(case['target'][0])
            print('--- compiled before it in the same process: %s ; hash seed %s, cwd %s ---'
                  % (case['history_names'], case['seed'], case['cwd']))
            for x in case['history']:
                print('[%s]' % cfgname(x[1:]))
                print(x[0])
            ref = spawn({'mode': 'seqs', 'programs': srcs, 'seqs': [seq[-1:]], 'full': True},
                        0, cwds['A'])[0][-1]
            got = spawn({'mode': 'seqs', 'programs': srcs, 'seqs': [seq], 'full': True},
                        case['seed'], cwds[case['cwd']])[0][-1]
            print('reference = first compilation of a fresh interpreter, seed 0, cwd A')
            return _verdict(ref, got)
        elif case['mode'] == 'corpus':
            c = case['cfg']
            print('--- target (%s) ---' % cfgname(c))
            print(case['target'])
            cs = corpus.cases()
            out = []
            for side in ('a', 'b'):
                ch = case[side]['chain']
                srcs = [cs[ci]['src'] for ci, o, g in ch]
                if srcs[-1] != case['target']:
                    print('(the corpus changed; replaying the target alone)')
                    srcs, ch = [case['target']], [[0, c[0], c[1]]]
                seq = [[i, x[1], x[2]] for i, x in enumerate(ch)]
                print('%s: %d earlier compilations, seed %s, cwd %s' % (side, len(seq) - 1, case[side]['seed'], case[side]['cwd']))
                out.append(spawn({'mode': 'seqs', 'programs': srcs, 'seqs': [seq], 'full': True},
                                 case[side]['seed'], cwds[case[side]['cwd']])[0][-1])
            return _verdict(out[0], out[1])
        else:
            return _replay_run(case, cwds)
    finally:
        shutil.rmtree(tmpB, ignore_errors=True)


def _replay_run(case, cwds):
    print('--- program (%s, peripherals: %s) ---' % (cfgname(case['cfg']), case['kind']))
    print(case['src'])
    r = impl.compile_text(case['src'], case['cfg'][0], bool(case['cfg'][1]))
    if not r.ok:
        print('does not compile any more:', r.brief())
        return 0
    d = [child.run_digest(impl, child.run_one(impl, r.binary, case['script'], case['kind']), full=True)
         for _ in range(2)]
    item = [['x', base64.b64encode(r.binary).decode(), case['script'], case['kind']]]
    seed = case.get('seed', 0) or 1
    d.append(spawn({'mode': 'run', 'full': True, 'items': item}, seed, cwds[case.get('cwd', 'A')])[0][1])
    for tag, x in zip(('run 1 (this process)', 'run 2 (this process)', 'other process, seed %d' % seed), d):
        print(tag, x[:6])
        print('   events:', json.dumps(x[6])[:600])
    if d[0][:6] == d[1][:6] == d[2][:6]:
        print('identical')
        return 0
    print('NOT DETERMINISTIC')
    return 1
