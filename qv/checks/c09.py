"""C09 - binary module, loader, disassembler and assembly listing agree.

For every program of the bounded families (repository corpus, generated
statement programs, cp437 content, DATA layouts, size boundaries) and every
compiler configuration, four views of the same compilation are compared with
an independent model (qv.c09_model): the bytes, QModule.parse, the
disassembler's text and the listing.  See docs/notes/C09.md."""
import hashlib
import sys
import time

from .. import impl, corpus
from .. import c09_model as M
from .. import c09_gen as G

LEVEL = 'exploration'

CFG_NAMES = ['O%d%s' % (o, 'g' if g else '') for o, g in impl.CONFIGS]
SRC_INLINE_MAX = 6000      # larger sources are regenerated from the spec on replay


# ---------------------------------------------------------------------------
# comparison of the views of one compilation

class Div:
    """one disagreement: divergence class + input-side features + detail"""
    __slots__ = ('div', 'feat', 'expected', 'observed')

    def __init__(self, div, expected, observed, **feat):
        self.div = div
        self.feat = feat
        self.expected = expected
        self.observed = observed

    def key(self):
        return (self.div, tuple(sorted(self.feat.items())))


def _short(x, n=160):
    s = repr(x)
    return s if len(s) <= n else s[:n] + '...'


def _first_diff(a, b):
    for i, (x, y) in enumerate(zip(a, b)):
        if x != y:
            return i
    if len(a) != len(b):
        return min(len(a), len(b))
    return None


def compare_views(src, meta, binary, listing, st, run=True):
    """-> list of Div.  st: statistics dict (updated in place)"""
    divs = []
    nparams = M.routine_params(src)
    # ---- B
    try:
        secs, order = M.split_sections(binary)
        for sid in (1, 2, 3, 4):
            if sid not in secs:
                raise M.FormatError(f'section {sid} missing')
        b_lits = M.parse_literals(secs[1])
        b_data = M.parse_data(secs[2])
        b_glob = M.parse_globals(secs[3])
        b_code_bytes = secs[4]
    except M.FormatError as e:
        return [Div('module-format', 'sections as described in docs/ISA.md', str(e))]
    # ---- M
    try:
        mod = impl.load(binary)
    except ValueError as e:
        return [Div('loader-rejects', 'QModule.parse accepts the module', str(e)[:200])]
    except Exception as e:   # noqa
        return [Div('loader-exception', 'QModule.parse accepts the module',
                    f'{type(e).__name__}: {e}'[:200])]
    # ---- L  (absent for the patched modules of the synth family)
    lst = layout = None
    if listing is not None:
        lst = M.parse_listing(listing)
        layout = M.Layout(lst, nparams)

    # (1) literal table
    m_lits = list(mod.literals)
    if m_lits != b_lits:
        i = _first_diff(m_lits, b_lits)
        divs.append(Div('literals-loader-vs-bytes', _short(b_lits[i:i + 2]), _short(m_lits[i:i + 2]), index=i))
    if lst is not None and lst.literals != b_lits:
        i = _first_diff(lst.literals, b_lits)
        divs.append(Div('literals-listing-vs-bytes', _short(lst.literals[i:i + 2]), _short(b_lits[i:i + 2])))
    st['literals'] += len(b_lits)
    must = list(meta.get('must_literals', ()))
    if meta.get('_opt') == 0:
        must += list(meta.get('must_literals_O0', ()))
    for t in must:
        if '\t' in t:
            continue        # tab expansion by the parser is not this property's business
        if t not in m_lits:
            divs.append(Div('source-literal-missing', _short(t), _short(m_lits[:3])))
    # DATA
    m_data = [[x if isinstance(x, str) else M.EMPTY for x in part] for part in mod.data]
    if m_data != b_data:
        divs.append(Div('data-loader-vs-bytes', _short(b_data, 120), _short(m_data, 120)))
    s_items = meta.get('_src_data')
    flat = [x for part in m_data for x in part]
    if s_items is None:
        st['data_unspecified'] += 1
    else:
        st['data_items'] += len(s_items)
        if flat != s_items:
            i = _first_diff(flat, s_items)
            divs.append(Div('data-items-vs-source', f'{len(s_items)} items, at {i}: ' + _short(s_items[i:i + 3], 80),
                            f'{len(flat)} items, at {i}: ' + _short(flat[i:i + 3], 80)))
    if lst is not None and len(lst.data_labels) != len(m_data):
        divs.append(Div('data-parts-listing-vs-loader', len(lst.data_labels), len(m_data)))
    # globals
    want_glob = layout.n_global_cells if layout is not None else meta.get('n_global_cells', b_glob)
    if not (mod.n_global_cells == b_glob == want_glob):
        divs.append(Div('global-cells', f'layout model {want_glob}',
                        f'loader {mod.n_global_cells}, bytes {b_glob}'))
    if bytes(mod.code) != b_code_bytes:
        divs.append(Div('code-loader-vs-bytes', len(b_code_bytes), len(mod.code)))

    # (2) instruction sequences
    b_code, err = M.decode_code(b_code_bytes)
    if err:
        divs.append(Div('code-undecodable', 'whole code section decodes', err))
    if lst is not None:
        l_code, problems = M.resolve_listing(lst, layout)
    else:
        l_code, problems = [(a, mn, tuple(ops[i] if k != 'S' else (b_lits[ops[i]] if ops[i] < len(b_lits) else None)
                                          for i, k in enumerate(M.ISA[mn][1])), None)
                            for a, mn, ops in b_code], []
    for kind, det in problems[:5]:
        divs.append(Div(kind, 'every symbol of the listing resolves', det))
    st['instructions'] += len(b_code)
    for _, mn, ops in b_code:
        st['_mn'].add(mn)
        if mn == 'io':
            st['_io'].add(ops)
    l_mn = [x[1] for x in l_code]
    b_mn = [x[1] for x in b_code]
    seq_ok = l_mn == b_mn
    if not seq_ok:
        i = _first_diff(l_mn, b_mn)
        divs.append(Div('mnemonics-listing-vs-bytes', f'at instruction {i}: ' + _short(l_mn[i:i + 4]),
                        _short(b_mn[i:i + 4])))
    else:
        seen = set()
        for (la, mn, lops, routine), (ba, _, bops) in zip(l_code, b_code):
            if la != ba:
                raise M.HarnessOutOfDate('address bookkeeping of the harness is broken')
            ks = M.ISA[mn][1]
            fr = layout.frames.get(routine) if routine else None
            if mn == 'frame':
                st['frames'] += 1
                if fr is None:
                    st['frames_unspecified'] += 1
                else:
                    if bops[0] != fr['p']:
                        k = ('frame-params', fr['record_param'])
                        if k not in seen:
                            seen.add(k)
                            divs.append(Div('frame-operand', f"frame {fr['p']}, {fr['l']} (routine {routine})",
                                            f'frame {bops[0]}, {bops[1]}', which='params',
                                            record_param=fr['record_param']))
                    if bops[1] != fr['l']:
                        k = ('frame-locals', fr['record_param'])
                        if k not in seen:
                            seen.add(k)
                            divs.append(Div('frame-operand', f"frame {fr['p']}, {fr['l']} (routine {routine})",
                                            f'frame {bops[0]}, {bops[1]}', which='locals',
                                            record_param=fr['record_param']))
            for oi, (k, lo, bo) in enumerate(zip(ks, lops, bops)):
                if k == 'S':
                    st['literal_operands'] += 1
                    got = b_lits[bo] if 0 <= bo < len(b_lits) else None
                    if got != lo:
                        kk = ('lit',)
                        if kk not in seen:
                            seen.add(kk)
                            divs.append(Div('literal-operand', f'0x{la:x}: push$ ' + _short(lo, 60),
                                            f'index {bo} -> ' + _short(got, 60)))
                    continue
                if k == 'V':
                    st['variable_operands'] += 1
                elif k == 'A':
                    st['label_operands'] += 1
                if M.same_operand(lo, bo):
                    continue
                if isinstance(lo, tuple) and lo[0] == '?':
                    continue            # already reported as a listing problem
                if k == 'V':
                    after = False
                    if fr and mn.rstrip('%&!#$@')[-1] == 'l':
                        after = _after_record_param(lst, layout, routine, lo)
                    kk = ('slot', mn, after)
                    if kk not in seen:
                        seen.add(kk)
                        divs.append(Div('slot-operand', f'0x{la:x}: {mn} slot {lo} (routine {routine})',
                                        f'slot {bo}', mnemonic=mn, after_record_param=after))
                elif k == 'A':
                    kk = ('label', mn)
                    if kk not in seen:
                        seen.add(kk)
                        divs.append(Div('label-operand', f'0x{la:x}: {mn} 0x{lo:x}' if isinstance(lo, int) else _short(lo),
                                        f'0x{bo:x}', mnemonic=mn))
                else:
                    kk = ('op', mn, oi)
                    if kk not in seen:
                        seen.add(kk)
                        divs.append(Div('operand-listing-vs-bytes', f'0x{la:x}: {mn} operand {oi} = {lo!r}',
                                        repr(bo), mnemonic=mn))

    # D
    dis = None
    try:
        with impl.quiet():
            old = sys.stderr
            sys.stderr = impl.DEVNULL
            try:
                dis = mod.disassemble()
            finally:
                sys.stderr = old
    except SystemExit:
        divs.append(Div('disassembler-exit', 'disassemble() returns the whole code section', 'SystemExit'))
    except Exception as e:   # noqa
        divs.append(Div('disassembler-exception', 'disassemble() returns the whole code section',
                        f'{type(e).__name__}: {e}'[:200]))
    if dis is not None:
        d_code = M.parse_disassembly(dis)
        d_mn = [x[1] for x in d_code]
        if d_mn != b_mn:
            i = _first_diff(d_mn, b_mn)
            divs.append(Div('mnemonics-disasm-vs-bytes', f'at instruction {i}: ' + _short(b_mn[i:i + 4]),
                            _short(d_mn[i:i + 4])))
        else:
            seen = set()
            for (da, mn, dops, comment), (ba, _, bops) in zip(d_code, b_code):
                if da != ba and 'addr' not in seen:
                    seen.add('addr')
                    divs.append(Div('address-disasm-vs-bytes', f'0x{ba:x}: {mn}', f'0x{da:x}'))
                if len(dops) != len(bops) or not all(M.same_operand(x, y) for x, y in zip(dops, bops)):
                    if ('op', mn) not in seen:
                        seen.add(('op', mn))
                        divs.append(Div('operand-disasm-vs-bytes', f'0x{ba:x}: {mn} {bops!r}', repr(dops),
                                        mnemonic=mn))
                if mn == 'push$' and comment is not None:
                    want = b_lits[bops[0]] if 0 <= bops[0] < len(b_lits) else None
                    if comment != want and 'cmt' not in seen:
                        seen.add('cmt')
                        divs.append(Div('literal-disasm-vs-bytes', f'0x{ba:x}: push$ -> ' + _short(want, 60),
                                        _short(comment, 60)))
        st['disassembled'] += 1

    # (3) targets and ranges, on the bytes alone
    if not err:
        starts = set(a for a, _, _ in b_code)
        frame_size = None
        seen = set()
        for a, mn, ops in b_code:
            ks = M.ISA[mn][1]
            if mn == 'frame':
                frame_size = ops[0] + ops[1]
            if ks and ks[0] == 'A':
                t = ops[0]
                if not (mn == 'errhand' and t in (0, 1)) and t not in starts and ('t', mn) not in seen:
                    seen.add(('t', mn))
                    divs.append(Div('jump-target', f'0x{a:x}: {mn} targets an instruction start', f'0x{t:x}',
                                    mnemonic=mn))
            if ks and ks[0] == 'V':
                glob = mn.rstrip('%&!#$@')[-1] == 'g'
                top = ops[0]
                if len(ks) > 1 and ks[1] == 'O':
                    top += ops[1]
                elif mn.startswith('initarr'):
                    top += 2 + 2 * ops[1]
                limit = b_glob if glob else frame_size
                if limit is None:
                    if ('nf', mn) not in seen:
                        seen.add(('nf', mn))
                        divs.append(Div('variable-outside-routine', 'a frame instruction before any local operand',
                                        f'0x{a:x}: {mn} {ops}', mnemonic=mn))
                elif top >= limit and ('r', mn) not in seen:
                    seen.add(('r', mn))
                    divs.append(Div('variable-range', f'0x{a:x}: {mn} {ops} inside {"globals" if glob else "frame"} of {limit} cells',
                                    f'cell {top}', mnemonic=mn, scope='g' if glob else 'l'))

    # VM view of the literal indices
    if run and 'expect_print' in meta and '\t' not in meta['expect_print'] and \
            not (meta.get('expect_print_if_data') and s_items is None):
        out, _ = impl.run_module(mod, impl.Env({}), horizon=5000000)
        got = ''.join(e[1] for e in out.events if e[0] == 'print')
        st['runs'] += 1
        if out.end not in ('halt', 'eoc') or got != meta['expect_print']:
            i = _first_diff(got, meta['expect_print'])
            divs.append(Div('vm-output', f'prints {len(meta["expect_print"])} chars, at {i}: ' +
                            _short(meta['expect_print'][i:i + 24] if i is not None else ''),
                            f'end={out.end} trap={out.trap} exc={out.exc}, {len(got)} chars, at {i}: ' +
                            _short(got[i:i + 24] if i is not None else '')))
    st['_codes'].add(hashlib.sha1(b_code_bytes).hexdigest()[:12])
    return divs


def _after_record_param(lst, layout, routine, model_slot):
    """is the variable at `model_slot` declared after a record-typed
    parameter of its routine?  (input-side feature for the ledger)"""
    fr = layout.frames.get(routine)
    if not fr:
        return False
    ents = lst.routines[routine]
    for i, (t, n) in enumerate(ents[:fr['p']]):
        if M.is_record(t, lst.types) and M.type_size(t, lst.types) != 1:
            return fr['slot'][n][0] < model_slot
    return False


# ---------------------------------------------------------------------------

def new_stats():
    return {'evaluations': 0, 'programs': 0, 'accepted_compilations': 0, 'rejected_compilations': 0,
            'compile_stage_crashes_left_to_C06': 0,
            'literals': 0, 'data_items': 0, 'data_unspecified': 0, 'instructions': 0, 'frames': 0,
            'frames_unspecified': 0, 'literal_operands': 0, 'variable_operands': 0,
            'label_operands': 0, 'disassembled': 0, 'runs': 0, 'o0_o2_code_differs': 0,
            'history_children': 0, 'history_programs_judged': 0,
            '_mn': set(), '_io': set(), '_codes': set(), '_nontrivial': set(), '_hist': set()}


def eval_one(src, meta, patch, fam, ci, st, limit=600.0):
    """one compilation + comparison of its views -> (list of Div, sha1 of
    the code section or None when nothing was compared)"""
    o, g = impl.CONFIGS[ci]
    st['evaluations'] += 1
    r = impl.compile_text(src, o, g, limit=limit)
    if r.rejected:
        st['rejected_compilations'] += 1
        return [], None
    if r.kind in ('crash', 'timeout'):
        if r.stage == 'compile' and not fam.startswith('sizes') and r.kind == 'crash':
            st['compile_stage_crashes_left_to_C06'] += 1
            return [], None
        return [Div('compiler-exception', 'bytes(code) and str(code) are produced for an accepted program',
                    r.brief()[:240], stage=str(r.stage), exc=str(r.exc or r.kind))], None
    st['accepted_compilations'] += 1
    meta['_opt'] = o
    if patch is None:
        divs = compare_views(src, meta, r.binary, r.listing, st)
    else:
        divs = compare_views(src, meta, M.patch_module(r.binary, **patch), None, st)
    return divs, hashlib.sha1(_sections14(r.binary)[3] or b'').digest()


def judge(spec, cfg_idx, st, limit=600.0):
    """evaluate one program in the given configurations -> violation tuples"""
    if spec[0] == 'history':
        return judge_history(spec, cfg_idx, st, limit)
    src, meta = G.build(spec)
    fam = spec[0] if spec[0] not in ('sizes', 'synth') else spec[0] + '-' + spec[1]
    meta = dict(meta)
    patch = meta.pop('patch', None)
    meta['_src_data'] = M.source_data(src) if patch is None else meta.get('data_items')
    per = {}      # Div.key -> [Div, [config names]]
    ok_any = False
    codes = {}
    for ci in cfg_idx:
        o, g = impl.CONFIGS[ci]
        divs, code_sha = eval_one(src, meta, patch, fam, ci, st, limit)
        if code_sha is not None:
            ok_any = True
            codes[(o, g)] = code_sha
        for d in divs:
            ent = per.setdefault(d.key(), [d, []])
            ent[1].append(CFG_NAMES[ci])
    st['programs'] += 1
    if (0, False) in codes and (2, False) in codes and codes[(0, False)] != codes[(2, False)]:
        st['o0_o2_code_differs'] += 1
    if ok_any:
        st['_nontrivial'].add(hashlib.sha1(src.encode('utf8', 'replace')).hexdigest()[:16])
    viol = []
    for d, cfgs in per.values():
        feat = {'family': fam, 'divergence': d.div,
                'limits': ','.join(meta.get('limits', ())),
                'configs': 'all' if len(cfgs) == len(cfg_idx) and len(cfg_idx) > 1 else ','.join(cfgs)}
        feat.update(d.feat)
        case = {'spec': spec, 'configs': cfgs, 'src': src if len(src) <= SRC_INLINE_MAX else None,
                'info': {k: v for k, v in meta.items() if k in ('template', 'context', 'corpus')}}
        viol.append((feat, case, d.expected, d.observed, len(src)))
    return viol


# ---------------------------------------------------------------------------
# history family: sequences of programs compiled one after the other in ONE
# process.  Every (sequence, configuration) runs in a child forked from a
# process that has parsed but never compiled anything, so a history starts from
# the pristine state of the compiler and nothing is carried into other cases.

def _in_child(fn):
    """run fn() in a forked child; -> its (picklable) result"""
    import os
    import pickle
    rfd, wfd = os.pipe()
    pid = os.fork()
    if pid == 0:
        code = 0
        try:
            os.close(rfd)
            try:
                blob = pickle.dumps(('ok', fn()))
            except BaseException as e:   # noqa
                import traceback
                blob = pickle.dumps(('err', ''.join(traceback.format_exception(type(e), e, e.__traceback__))[-2000:]))
                code = 1
            with os.fdopen(wfd, 'wb') as f:
                f.write(blob)
        finally:
            os._exit(code)
    os.close(wfd)
    with os.fdopen(rfd, 'rb') as f:
        blob = f.read()
    os.waitpid(pid, 0)
    if not blob:
        raise RuntimeError('history child died without an answer')
    kind, val = pickle.loads(blob)
    if kind == 'err':
        raise RuntimeError('history child failed:\n' + val)
    return val


def _history_run(progs, ci, limit):
    """(in the child) compile and judge the programs in order"""
    st = new_stats()
    out = []
    for pos, (vid, src, meta) in enumerate(progs):
        meta = dict(meta)
        meta['_src_data'] = M.source_data(src)
        divs, sha = eval_one(src, meta, None, 'history', ci, st, limit)
        out.append((pos, vid, divs, sha))
    return out, st


def _merge_into(st, other):
    for k, v in other.items():
        if isinstance(v, set):
            st[k] |= v
        else:
            st[k] += v


def judge_history(spec, cfg_idx, st, limit=600.0):
    theme, vids = spec[1], spec[2]
    progs = G.history_programs(spec)
    per = {}
    for ci in cfg_idx:
        out, cst = _in_child(lambda: _history_run(progs, ci, limit))
        _merge_into(st, cst)
        st['history_children'] += 1
        for pos, vid, divs, sha in out:
            st['history_programs_judged'] += 1
            if sha is not None:
                st['_nontrivial'].add('history/%s/%s' % (theme, vid))
                st['_hist'].add((theme, vid, CFG_NAMES[ci], sha))
            for d in divs:
                ent = per.setdefault((pos,) + d.key(), [pos, d, []])
                ent[2].append(CFG_NAMES[ci])
    st['programs'] += len(progs)
    viol = []
    for pos, d, cfgs in per.values():
        feat = {'family': 'history', 'divergence': d.div, 'theme': theme, 'limits': '',
                'position': pos, 'after_other_programs': pos > 0,
                'configs': 'all' if len(cfgs) == len(cfg_idx) and len(cfg_idx) > 1 else ','.join(cfgs)}
        feat.update(d.feat)
        case = {'spec': spec, 'configs': cfgs, 'src': None,
                'info': {'sequence': vids, 'failing_program': progs[pos][0],
                         'sources': [p[1] for p in progs[:pos + 1]]}}
        viol.append((feat, case, d.expected, d.observed, sum(len(p[1]) for p in progs[:pos + 1])))
    return viol


# The history family is ON by default (QV_C09_HISTORY=0 switches it off): it
# was run to completion, silent, on the unchanged tree (pairs; 58 sequences).
# The fork-per-program isolation of the other families is OFF by default
# (QV_C09_ISOLATE=1): it was written at the end of a session on a machine at
# load average 140 and could not be run to completion there (see
# docs/notes/C09.md, "History family").
import os as _os
HISTORY_ENABLED = _os.environ.get('QV_C09_HISTORY', '1') != '0'
ISOLATE = _os.environ.get('QV_C09_ISOLATE') == '1'


def _preparse(src):
    """fill the per-line parse memo of this process (a parse is not a
    compilation: no compiler state is touched)"""
    import qbee.parser as qp
    proxy = qp.line_rule
    cache = getattr(proxy, 'cache', None)
    for line in src.split('\n'):
        if cache is not None and line in cache:
            continue
        try:
            proxy.parse_string(line, parse_all=True)
        except Exception:   # noqa
            pass


def _judge_child(spec, cfg_idx):
    st = new_stats()
    return judge(spec, cfg_idx, st), st


def worker(chunk):
    """This process parses but never compiles: every program is compiled (in
    its configurations) in a forked child, so no compilation can influence the
    verdict on another program whatever the chunk order is.  Carry-over between
    compilations is enumerated on purpose in the history family only."""
    impl.parse_cache(True)
    st = new_stats()
    viol = []
    for spec, cfg_idx in chunk:
        if spec[0] == 'history':
            for _vid, src, _meta in G.history_programs(spec):
                _preparse(src)
            viol.extend(judge_history(spec, cfg_idx, st))
            continue
        if not ISOLATE:
            viol.extend(judge(spec, cfg_idx, st))
            continue
        _preparse(G.build(spec)[0])
        v, cst = _in_child(lambda: _judge_child(spec, cfg_idx))
        viol.extend(v)
        _merge_into(st, cst)
    return viol, st


def warm_worker(chunk):
    """parse long lines once; the pickled parse results are handed to the
    parent, which installs them in the cache every later worker inherits"""
    impl.parse_cache(True)
    import qbee.parser as qp
    proxy = qp.line_rule
    out = []
    for line in chunk:
        try:
            proxy.parse_string(line, parse_all=True)
        except Exception:   # noqa
            pass
        ent = proxy.cache.get(line)
        if ent is not None:
            out.append((line, ent))
    return out


def _sections14(binary):
    """sections 1-4 of a module (section 5 is a gzip stream whose header
    carries the wall-clock time, so two compilations never agree on it)"""
    if binary is None:
        return None
    try:
        secs, _ = M.split_sections(binary)
    except M.FormatError:
        return binary
    return tuple(secs.get(i) for i in (1, 2, 3, 4))


def conformance_worker(chunk):
    """cached and uncached parse must give the same bytes and listing"""
    bad = []
    n = 0
    for spec in chunk:
        src, _ = G.build(spec)
        for o, g in ((0, False), (2, True)):
            impl.parse_cache(True)
            a = impl.compile_text(src, o, g)
            impl.parse_cache(False)
            b = impl.compile_text(src, o, g)
            n += 1
            if (a.kind, a.listing) != (b.kind, b.listing) or _sections14(a.binary) != _sections14(b.binary):
                bad.append(spec)
    impl.parse_cache(True)
    return bad, n


ALL6 = list(range(6))


def space(tier):
    fams = []
    cs = corpus.cases()
    if HISTORY_ENABLED:
      fams.append(('history', [(s, ALL6) for s in G.history_specs() if tier == 'thorough' or len(s[2]) == 2],
                 {'what': 'ordered pairs and triples of programs that reuse names with different meanings, compiled '
                          'one after the other in one process (a forked child per sequence and configuration); every '
                          'program of the sequence is judged with the cross-view + layout oracle',
                  'themes': {t: [v[0] for v in vs] for t, vs in G.HISTORY.items()},
                  'sequence_lengths': [2, 3] if tier == 'thorough' else [2], 'chunk': 3}))
    fams.append(('corpus', [(['corpus', i], ALL6) for i in range(len(cs))
                            if cs[i]['expected'] in ('success', 'trap')],
                 {'source': 'tests/test_cases/*.test, cases expected to compile', 'chunk': 6}))
    fams.append(('stmts', [(s, ALL6) for s in G.stmts_specs()],
                 {'contexts': G.CONTEXTS, 'templates': len(G.TEMPLATES_L) + len(G.TEMPLATES_T) + len(G.TEMPLATES_0),
                  'int_lvalues': G.LV_SUB, 'string_lvalues': G.TV_SUB, 'chunk': 24}))
    if tier == 'thorough':
        fams.append(('pairs', [(s, ALL6) for s in G.pairs_specs()],
                     {'what': 'all ordered pairs of statement templates in main and in a SUB', 'chunk': 60}))
    fams.append(('cp437', [(s, ALL6) for s in G.cp437_specs()],
                 {'bytes': '0..255 except 0x22', 'positions': G.CP437_POS, 'chunk': 32}))
    dl = 3 if tier == 'quick' else 4
    fams.append(('datalayout', [(s, ALL6) for s in G.datalayout_specs(dl)],
                 {'item_alphabet': G.DATA_ITEMS, 'max_items': dl,
                  'splits': 'one statement; two statements; two parts; followed by other statements', 'chunk': 50}))
    fams.append(('synth', [(s, [0, 5]) for s in G.synth_specs()],
                 {'what': 'compiled one-statement modules whose literal table / DATA section / globals section is '
                          'rewritten by the harness to boundary sizes; loader, disassembler and VM against the bytes',
                  'n': G.SYNTH_N, 'configs': 'O0 and O2g (the rewritten sections do not depend on the configuration)',
                  'chunk': 2}))
    fams.append(('sizes', [(s, ALL6) for s in G.sizes_specs(tier)] + [(['sizes', 'codesize', 9000], [0, 2, 4])],
                 {'n': [0, 1, 255, 256, 257], 'kinds': 'literals, DATA items, DATA parts, labels, routines, '
                  'literal length, DATA item length, locals, parameters; frame/global cells up to 65536',
                  'n_16bit': G.BIG_N, 'kinds_16bit': 'DATA items in one part / in parts of 4096, literal length, '
                  'DATA item length (quoted, bare); code section of 72 KB (labels, routine and jump targets above '
                  '65535; O0/O1/O2 without -g in quick, all six in thorough)',
                  'chunk': 1}))
    if tier == 'thorough':
        big = []
        for s in G.big_specs():
            for ci in ALL6:
                if impl.CONFIGS[ci][1] and G.many_statements(s):
                    continue
                big.append((s, [ci]))
        fams.append(('big', big, {'programs_list': [repr(x) for x in G.big_specs()], 'one_configuration_per_work_item': True,
                                  'g_configurations_skipped_above_statements': G.G_STATEMENT_CAP, 'chunk': 1}))
    return fams


def _warm_lines(items):
    lines = set()
    for spec, _ in items:
        src, _m = G.build(spec)
        for ln in src.split('\n'):
            lines.add(ln)
    return sorted(lines, key=lambda s: (-len(s), s))


def run(chk):
    diffs = M.selfcheck_isa()
    if diffs:
        print('HARNESS-ERROR property=C09 harness out of date (instruction / device table):')
        for d in diffs[:20]:
            print('  ' + d)
        sys.exit(2)
    corpus.cases()      # load once, before the workers are forked
    fams = space(chk.tier)
    desc = {}
    for name, items, d in fams:
        if chk.only and name not in chk.only:
            chk.cov['exhaustive'] = False
            continue
        d = dict(d)
        chunk = d.pop('chunk')
        d['cases'] = len(items)
        d['programs'] = len(set(repr(s) for s, _ in items))
        desc[name] = d
        if name == 'big':
            # parse every distinct line once, in parallel, then fork fresh
            # workers that inherit the warmed cache
            lines = _warm_lines(items)
            impl.parse_cache(True)
            import qbee.parser as qp
            heavy = [ln for ln in lines if len(ln) > 200]
            light = [ln for ln in lines if len(ln) <= 200]
            n = 0
            for res in chk.pmap(warm_worker, heavy, chunk=1):
                for line, ent in res:
                    qp.line_rule.cache[line] = ent
                    n += 1
            for res in chk.pmap(warm_worker, light, chunk=512):
                for line, ent in res:
                    qp.line_rule.cache[line] = ent
                    n += 1
            d['lines_parsed_ahead'] = n
            chk.close()
            # largest programs first
            items = sorted(items, key=lambda it: -(it[0][2]))
        t_fam = time.time()
        for viol, st in chk.pmap(worker, items, chunk=chunk):
            chk.add_violations(viol)
            chk.merge_stats(st)
        d['wall_s'] = round(time.time() - t_fam, 1)
        for it in (items[0], items[len(items) // 2], items[-1]):
            if name == 'history':
                chk.sample({'family': name, 'spec': it[0],
                            'source': '\n-----\n'.join(p[1] for p in G.history_programs(it[0]))[:600]})
                continue
            src, _m = G.build(it[0])
            chk.sample({'family': name, 'spec': it[0], 'source': src[:400]})
    # parse-cache conformance slice
    if not chk.only:
        byname = {n: it for n, it, _d in fams}
        slice_ = [s for s, _ in byname['stmts'][::40]] + [s for s, _ in byname['corpus'][::8]]
        nbad = 0
        for bad, n in chk.pmap(conformance_worker, slice_, chunk=8):
            chk.cov['parse_cache_conformance_compiles'] = chk.cov.get('parse_cache_conformance_compiles', 0) + n
            nbad += len(bad)
        if nbad:
            print(f'HARNESS-ERROR property=C09 parse cache changes the compiler output on {nbad} programs')
            sys.exit(2)
    sets = chk.cov.get('_sets', {})
    hist = {}
    for theme, vid, cfg, sha in sets.pop('_hist', ()):
        hist.setdefault((theme, vid, cfg), set()).add(sha)
    if hist:
        # information only (the property does not demand it): does the code
        # section of a program depend on what was compiled before it?
        chk.cov['history_program_configs'] = len(hist)
        chk.cov['history_dependent_code_sections'] = sorted('/'.join(k) for k, v in hist.items() if len(v) > 1)[:20]
    chk.cov['distinct_nontrivial'] = len(sets.get('_nontrivial', ()))
    chk.cov['opcodes_seen'] = sorted(sets.get('_mn', ()))
    chk.cov['opcodes_never_seen'] = sorted(set(M.ISA) - set(sets.get('_mn', ())))
    chk.cov['io_operations_seen'] = len(sets.get('_io', ()))
    chk.cov['distinct_outcomes'] = len(sets.get('_codes', ()))
    for k in ('_mn', '_io', '_codes', '_nontrivial', '_hist'):
        sets.pop(k, None)
    chk.assumptions = [
        'the model of the module format, instruction encoding, device table and storage layout is docs/ISA.md '
        '(frozen in qv/c09_model.py, compared with qvm.instrs at start-up)',
        'the number of parameters of a routine is read off its SUB/FUNCTION line in the source; each parameter is one reference cell',
        'DATA texts with a quote inside an unquoted item, text after a closing quote or an unterminated quote are unspecified and skipped',
        'the per-line parse memo is byte-identical to re-parsing (conformance slice in this run)',
        'history family: every (sequence, configuration) is compiled in a child forked from a process that has parsed '
        'but never compiled, so carry-over between compilations exists only inside a sequence; all other families '
        'judge each compilation on its own (process-wide state leaking between their programs would be seen, in a '
        'deterministic chunk order, but is not what they enumerate)',
        'nothing is claimed above the listed bounds',
    ]
    chk.finish(
        rule=('every program of each family is compiled in the listed configurations; for each accepted compilation '
              'bytes(code), QModule.parse, disassemble() and str(code) are compared through an independent decoder / '
              'listing resolver / layout model / DATA tokenizer; evaluations = compilations attempted; non-trivial = '
              'distinct program texts accepted in at least one configuration and compared in all four views; '
              'distinct_outcomes = distinct code sections'),
        extra_cov={'families': desc, 'configs': CFG_NAMES})


def replay(rec):
    case = rec['case']
    spec = case['spec']
    if spec[0] == 'history':
        progs = G.history_programs(spec)
        rec_srcs = case.get('info', {}).get('sources')
        if rec_srcs and rec_srcs != [p[1] for p in progs[:len(rec_srcs)]]:
            print('note: the generator no longer produces the recorded texts; using the recorded texts')
            fixed = [(spec[2][i], s, {}) for i, s in enumerate(rec_srcs)]
            G.history_programs = lambda s: fixed
            progs = fixed
        print('--- spec ---')
        print(spec)
        print('each configuration: the programs below are compiled in this order in one fresh process')
        for i, (vid, s, _m) in enumerate(progs):
            print(f'--- program {i} ({vid}) ---')
            print(s)
    else:
        src, meta = G.build(spec)
        if case.get('src') is not None and case['src'] != src:
            print('note: the generator no longer produces the recorded text; using the recorded text')
            src = case['src']
            G.build = lambda s: (src, meta)
        print('--- spec ---')
        print(spec)
        print('--- source (first 1500 chars of %d) ---' % len(src))
        print(src[:1500])
    want = rec['features']['divergence']
    rc = 0
    cfgs = [CFG_NAMES.index(c) for c in case['configs']]
    st = new_stats()
    viol = judge(spec, cfgs, st)
    for feat, _case, exp, obs, _size in viol:
        print(f"--- {feat['divergence']} [{feat['configs']}] {({k: v for k, v in feat.items() if k not in ('family', 'divergence', 'configs')})}")
        print('expected:', exp)
        print('observed:', obs)
        if feat['divergence'] == want:
            rc = 1
    if not viol:
        print('all views agree')
    elif rc == 0:
        print(f'(the recorded divergence {want!r} no longer occurs)')
    return rc
