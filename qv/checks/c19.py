"""C19 - PRINT USING fields keep their width, rounding and overflow mark.

Every format string over the alphabet {# . , + - & ! _ a blank} up to a length
bound, with every value of a boundary value set (1 value per field, 1..4 fields
per statement, values typed LONG / DOUBLE / SINGLE / STRING), with and without
a trailing separator, is executed as a real PRINT USING statement on the real
VM: one compiled looping program serves all cases, the format string and the
values reach it through the environment (the format string as the answer of
INKEY$, so blanks and commas survive; the values through INPUT).  The text handed to `terminal_print` is judged by the
three-valued model `qv.ref.using` (must / unspecified).

Families
  loop      all formats <= 4 (quick and thorough) through the compiled program
  direct    thorough: all formats of length 5 and 6 through the formatter class
            the VM itself calls; licensed by `loop`, where every case is also
            run directly and must give the same text (divergence
            direct-vs-compiled)
  literal   the format as a string literal and the values as numeric literals
            in straight-line programs, in all six compiler configurations
"""
import itertools

from .. import impl, textdrv
from ..ref import using as U

LEVEL = 'exploration'

ALPHABET = U.ALPHABET
# boundary values (ints are delivered as LONG and as DOUBLE, the others as DOUBLE)
INTS = [0, 1, -1, 12, -12, 999, 1000, 1234567]
FRACS = [2.5, 9.995, 0.5, 0.05, -0.004, 99.95, -0.5, 999.5, -99.95]
SINGLES = [1.0, 2.5, -12.0]            # exactly representable: also delivered as SINGLE
STRINGS = ['', 'a', 'abc']
PAIR_SECOND = [1, -12, 2.5, 1000.0]    # second value of two-field statements (first runs over all)

NV = {'D': 4, 'L': 2, 'X': 1, 'S': 4}


def _catalogue():
    st = [('', ())]
    for t in 'DLXS':
        for e in ('', ';', ','):
            st.append((t, (e,)))
    for t in ('DD', 'LL', 'DL', 'LD', 'DS', 'SD', 'SS', 'LS', 'SL', 'XD'):
        st.append((t, (';', '')))
    for t in ('DD', 'SS', 'SD', 'DS', 'LL'):
        st.append((t, (',', '')))
        st.append((t, (';', ';')))
        st.append((t, (',', ',')))
    for n in (3, 4):
        for t in itertools.product('DS', repeat=n):
            st.append((''.join(t), (';',) * (n - 1) + ('',)))
    return st


STMTS = _catalogue()
STMT_INDEX = {s: i for i, s in enumerate(STMTS)}
SUFFIX = {'D': '#', 'L': '&', 'X': '!', 'S': '$'}
VARNAME = {'D': 'dv', 'L': 'lv', 'X': 'xv', 'S': 'sv'}


def _vars(types):
    cnt = {}
    out = []
    for t in types:
        cnt[t] = cnt.get(t, 0) + 1
        out.append('%s%d%s' % (VARNAME[t], cnt[t], SUFFIX[t]))
    return out


def stmt_text(k, fmt_expr='f$'):
    types, seps = STMTS[k]
    s = 'PRINT USING %s;' % fmt_expr
    for v, sep in zip(_vars(types), seps):
        s += ' ' + v + sep
    return s


def all_vars():
    out = []
    for t in 'DLXS':
        out += ['%s%d%s' % (VARNAME[t], i + 1, SUFFIX[t]) for i in range(NV[t])]
    return out


def driver_source():
    lines = ['DO', 'BEEP',
             'f$ = INKEY$',
             'INPUT "", kk%, ' + ', '.join(all_vars()),
             'PRINT "["; f$; "]"',
             'hh% = kk% \\ 8',
             'mm% = kk% MOD 8',
             'SELECT CASE hh%']
    for h in range((len(STMTS) + 7) // 8):
        lines.append('CASE %d' % h)
        lines.append('SELECT CASE mm%')
        for m in range(8):
            k = h * 8 + m
            if k < len(STMTS):
                lines.append('CASE %d' % m)
                lines.append(stmt_text(k))
        lines.append('END SELECT')
    lines += ['END SELECT', 'PRINT "|"', 'LOOP']
    return '\n'.join(lines) + '\n'


class UsingEnv(textdrv.LoopEnv):
    """LoopEnv whose INKEY$ answers the format string of the running iteration
    (any character survives, unlike INPUT which splits on commas and trims blanks)"""

    def terminal_inkey(self):
        if self.cur is None:
            raise impl.Exhausted('inkey before the first iteration')
        return self.iters[self.pos]['inkey']


def _drive(module, its):
    # textdrv.drive builds its own LoopEnv: substitute the subclass for the duration of the call
    saved = textdrv.LoopEnv
    textdrv.LoopEnv = UsingEnv
    try:
        return textdrv.drive(module, its, tick_budget=4000, max_inputs=3)
    finally:
        textdrv.LoopEnv = saved


_MODULE = {}


def driver_module(cfg=(0, False)):
    if cfg not in _MODULE:
        r = impl.compile_text(driver_source(), cfg[0], cfg[1], want_listing=False, limit=900.0)
        if not r.ok:
            raise RuntimeError('C19 driver program rejected: ' + r.brief())
        _MODULE[cfg] = impl.load(r.binary)
    return _MODULE[cfg]


def _text_of(t, v):
    if t == 'S':
        return v
    if t == 'L':
        return str(int(v))
    return repr(float(v))


def iteration(fmt, k, values):
    types, _ = STMTS[k]
    slots = {t: [] for t in 'DLXS'}
    for t, v in zip(types, values):
        slots[t].append(_text_of(t, v))
    fields = [str(k)]
    for t in 'DLXS':
        fields += slots[t] + (['0'] if t != 'S' else ['']) * (NV[t] - len(slots[t]))
    return {'inkey': fmt, 'inputs': [','.join(fields)], 'fallback': '0'}


def typed_values(types, values):
    """the python values the VM holds for the statement"""
    return [v if t == 'S' else int(v) if t == 'L' else float(v) for t, v in zip(types, values)]


# ---------------------------------------------------------------------------
# observation

def _end_name(end):
    if end is None:
        return 'completed'
    if end[0] == 'trap':
        return 'trap:%s' % end[1]
    if end[0] == 'hostexc':
        return 'hostexc:%s' % end[1]
    return str(end[0])


def observe_loop(cases, cfg=(0, False)):
    """cases: list of (fmt, k, values) -> list of dict(end, echo, text)
    text = what the PRINT USING statement printed (None if it did not complete)"""
    its = [iteration(f, k, vs) for f, k, vs in cases]
    recs, info = _drive(driver_module(cfg), its)
    out = []
    for (fmt, k, vs), r in zip(cases, recs):
        o = {'end': None, 'echo': None, 'text': None, 'where': None}
        out.append(o)
        if r is None:
            o['end'] = 'not-run:%s' % (info.get('aborted'),)
            continue
        o['end'] = _end_name(r['end'])
        if r['end'] is not None and r['end'][0] == 'hostexc':
            o['where'] = r['end'][2]
        if r['extra'] or len(r['seg']) != 2:
            o['end'] = 'input-rejected' if r['end'] is None else o['end']
            continue
        body = r['seg'][1]
        head = '[' + fmt + ']' + U.CRLF
        if not body.startswith(head):
            o['echo'] = body[:len(head) + 8]
            continue
        o['echo'] = True
        body = body[len(head):]
        if r['end'] is None:
            tail = '|' + U.CRLF
            if body.endswith(tail):
                o['text'] = body[:-len(tail)]
            else:
                o['end'] = 'no-end-marker'
                o['text'] = body
        else:
            o['partial'] = body
    return out, info


_FORMATTER = []


def formatter_class():
    if not _FORMATTER:
        try:
            import qvm.using as m
            _FORMATTER.append(getattr(m, 'PrintUsingFormatter'))
        except Exception:       # noqa
            _FORMATTER.append(None)
    return _FORMATTER[0]


def observe_direct(fmt, values):
    """the formatter as the VM calls it -> ('text', s) | ('exc', type name)"""
    cls = formatter_class()
    try:
        return ('text', cls(fmt).format(list(values)))
    except Exception as e:        # noqa
        return ('exc', type(e).__name__)


# ---------------------------------------------------------------------------
# the space

def formats(maxlen, minlen=0):
    for n in range(minlen, maxlen + 1):
        for t in itertools.product(ALPHABET, repeat=n):
            yield ''.join(t)


def num_variants(v):
    """(type letter, value) variants a numeric value is delivered as"""
    if isinstance(v, int):
        return [('L', v), ('D', float(v))]
    return [('D', v)]


def cases_for(fmt):
    """all statements (k, values) for one format string, smallest first"""
    kinds = U.field_kinds(fmt)
    nf = len(kinds)
    out = []
    K = STMT_INDEX

    def add(types, seps, values):
        out.append((K[(types, seps)], tuple(values)))

    add('', (), ())
    if nf == 0:
        add('D', ('',), (1.0,))
        add('S', ('',), ('abc',))
        return out
    if nf == 1:
        if kinds == 'N':
            for v in INTS + FRACS:
                for t, tv in num_variants(v):
                    add(t, ('',), (tv,))
            for v in SINGLES:
                add('X', ('',), (v,))
            for e in (';', ','):
                add('D', (e,), (-12.0,))
                add('L', (e,), (1,))
                add('X', (e,), (2.5,))
            add('S', ('',), ('abc',))            # type mismatch
            add('DD', (';', ''), (1.0, 2.5))     # one value too many
        else:
            for s in STRINGS:
                add('S', ('',), (s,))
            for e in (';', ','):
                add('S', (e,), ('abc',))
            add('D', ('',), (1.0,))              # type mismatch
            add('SS', (';', ''), ('a', 'abc'))   # one value too many
        return out
    if nf == 2:
        add('D', ('',), (1.0,))                  # one value too few
        add('S', ('',), ('abc',))
        pools = []
        for kd in kinds:
            pools.append((INTS + FRACS) if kd == 'N' else STRINGS)
        seconds = PAIR_SECOND if kinds[1] == 'N' else STRINGS
        firsts = PAIR_SECOND if kinds[0] == 'N' else STRINGS
        pairs = [(a, b) for a in pools[0] for b in seconds]
        have = set(pairs)
        pairs += [(a, b) for a in firsts for b in pools[1] if (a, b) not in have]
        seen = set()
        for a, b in pairs:
            va = num_variants(a) if kinds[0] == 'N' else [('S', a)]
            vb = num_variants(b) if kinds[1] == 'N' else [('S', b)]
            for (ta, xa), (tb, xb) in itertools.product(va, vb):
                types = ta + tb
                if (types, (';', '')) not in K:
                    continue
                key = (types, repr(xa), repr(xb))
                if key in seen:
                    continue
                seen.add(key)
                add(types, (';', ''), (xa, xb))
        base = ''.join('D' if kd == 'N' else 'S' for kd in kinds)
        vals = tuple(-12.0 if kd == 'N' else 'abc' for kd in kinds)
        for seps in ((',', ''), (';', ';'), (',', ',')):
            if (base, seps) in K:
                add(base, seps, vals)
        if kinds == 'NN':
            add('XD', (';', ''), (2.5, 1.0))
            add('LL', (',', ','), (1, -12))
        add('DDD', (';', ';', ''), (1.0, 2.5, -12.0))       # one value too many
        return out
    if nf in (3, 4):
        base = ''.join('D' if kd == 'N' else 'S' for kd in kinds)
        seps = (';',) * (nf - 1) + ('',)
        dpool = [1.0, -12.0, 2.5, 1000.0]
        spool = ['abc', 'a', '', 'abc']
        for rot in range(4):
            vals = tuple((dpool[(i + rot) % 4] if kd == 'N' else spool[(i + rot) % 4])
                         for i, kd in enumerate(kinds))
            add(base, seps, vals)
        add('DD', (';', ''), (1.0, 2.5))         # too few
    return out


def direct_cases_for(fmt):
    """value lists for one format string (formatter called directly); <= 2 fields"""
    kinds = U.field_kinds(fmt)
    nf = len(kinds)
    if nf == 0:
        return [(), (1.0,)]
    if nf == 1:
        if kinds == 'N':
            out = []
            for v in INTS + FRACS:
                out += [(tv,) for _, tv in num_variants(v)]
            return out + [('abc',)]
        return [(s,) for s in STRINGS] + [(1.0,)]
    if nf == 2:
        pa = (INTS + FRACS) if kinds[0] == 'N' else STRINGS
        pb = [1, -12, 2.5] if kinds[1] == 'N' else ['abc']
        out = [(a, b) for a in pa for b in pb]
        qa = [1, 2.5] if kinds[0] == 'N' else ['abc']
        qb = (INTS + FRACS) if kinds[1] == 'N' else STRINGS
        out += [(a, b) for a in qa for b in qb if (a, b) not in set(out)]
        return out + [(1.0,)]
    dpool = [1.0, -12, 2.5, 1000, 0.5, -1]
    spool = ['abc', 'a', '', 'abc', 'a', 'abc']
    return [tuple((dpool[i] if kd == 'N' else spool[i]) for i, kd in enumerate(kinds)),
            tuple((dpool[(i + 3) % 6] if kd == 'N' else spool[(i + 1) % 6]) for i, kd in enumerate(kinds))]


# ---------------------------------------------------------------------------
# judging

def _raw_extents(fmt, segs):
    """(start, end) of every segment of scan(fmt) in the format text"""
    out = []
    i = 0
    for s in segs:
        if s[0] == 'lit':
            start = i
            for _ in s[1]:
                i += 2 if fmt[i] == '_' else 1
            out.append((start, i))
        elif s[0] == 'num':
            out.append((i, i + len(s[1].text)))
            i += len(s[1].text)
        else:
            out.append((i, i + 1))
            i += 1
    return out


def shape_features(fmt):
    """input-side features of the whole format: which junctions between segments it has"""
    segs, _ = U.scan(fmt)
    ext = _raw_extents(fmt, segs)
    adjacent = False
    comma_after = False
    for i, s in enumerate(segs):
        if s[0] != 'num':
            continue
        if i + 1 < len(segs) and segs[i + 1][0] == 'num':
            adjacent = True
        if s[1].point and fmt[ext[i][1]:ext[i][1] + 1] == ',':
            comma_after = True
    return {'adjacent_numeric_fields': adjacent, 'comma_after_decimals': comma_after,
            'fields': U.field_kinds(fmt)}


def _vtype(v):
    return 'S' if isinstance(v, str) else 'L' if isinstance(v, int) else 'D'


def field_text(seg):
    return seg[1].text if seg[0] == 'num' else '&' if seg[0] == 'amp' else '!'


def field_features(fam, seg, alts, v, info, piece):
    feat = {'family': fam, 'divergence': 'field', 'seg': seg[0]}
    feat.update(U.value_class(v))
    if seg[0] == 'num':
        feat.update(seg[1].features())
        feat['room'] = 'overflow' if info['overflow'] else 'tie-overflow' if info['may_overflow'] else 'fits'
        feat['tie'] = info['tie']
        feat['differs'] = U.differs(alts, piece) if piece is not None else 'died'
    return feat


def attribute(fam, fmt, res, body, piece_of):
    """Explain a wrong statement text.  Every field of the statement is also
    observed alone (`piece_of(field text, value)` -> text or None); if the
    statement text is the concatenation of those pieces and the literals, the
    violation belongs to the fields whose own text is wrong (one violation per
    field, with the features of a single-field statement); otherwise the fields
    interact: divergence 'composition'.
    -> list of (features, expected, observed, extra case info)"""
    parts = res[2]
    pieces = []
    for seg, alts, v, info in parts:
        if seg[0] == 'lit':
            pieces.append(seg[1])
        elif len(parts) == 1:
            pieces.append(body)
        else:
            pieces.append(piece_of(field_text(seg), v))
    out = []
    if all(p is not None for p in pieces) and ''.join(pieces) == body:
        for (seg, alts, v, info), piece in zip(parts, pieces):
            if seg[0] != 'lit' and piece not in alts:
                out.append((field_features(fam, seg, alts, v, info, piece), sorted(alts)[:6], piece,
                            {'field': field_text(seg), 'field_value': v}))
        if out:
            return out
    feat = {'family': fam, 'divergence': 'composition'}
    feat.update(shape_features(fmt))
    feat['pieces_wrong'] = sum(1 for (seg, alts, v, info), piece in zip(parts, pieces)
                               if seg[0] != 'lit' and piece not in alts)
    return [(feat, sorted(res[1])[:6], body, {'fields_alone': pieces})]


_PIECES = {}


def piece_via_loop(ftext, v):
    key = (ftext, _vtype(v), repr(v))
    if key not in _PIECES:
        t = _vtype(v)
        obs, _ = observe_loop([(ftext, STMT_INDEX[(t, (';',))], (v,))])
        _PIECES[key] = obs[0]['text']
    return _PIECES[key]


def piece_direct(ftext, v):
    d = observe_direct(ftext, [v])
    return d[1] if d[0] == 'text' else None


def _size(fmt, values):
    return len(fmt) * 1000 + len(values) * 100 + sum(len(repr(v)) for v in values)


def _count_must(res, st):
    st['must'] += 1
    if len(res[1]) > 1:
        st['must_with_alternatives'] += 1
    for p in res[2]:
        if p[3] is not None:
            if p[3]['tie']:
                st['ties'] += 1
            if p[3]['overflow']:
                st['overflow_fields'] += 1


def judge_loop(fmt, k, values, o, st, direct=True, cfg=(0, False)):
    """-> list of violation tuples for one observed statement"""
    types, seps = STMTS[k]
    tv = typed_values(types, values)
    ending = seps[-1] if seps else ';'
    res = U.statement(fmt, tv, ending) if types else ('unspecified', 'no-values')
    viol = []
    case = {'path': 'loop', 'format': fmt, 'stmt': k, 'statement': stmt_text(k), 'types': types,
            'values': list(tv), 'config': list(cfg)}
    st['evaluations'] += 1
    size = _size(fmt, values)
    if o['echo'] is not True:
        if o['end'] in ('completed',) or o['echo'] is not None:
            viol.append(({'family': 'loop', 'divergence': 'format-delivery'}, case,
                         'the driver echoes the format string it was given', impl.jsonable(o), size))
        else:
            viol.append(({'family': 'loop', 'divergence': 'driver-died', 'end': o['end']}, case,
                         'the driver reaches the PRINT USING statement', impl.jsonable(o), size))
        return viol
    if res[0] == 'unspecified':
        st['unspecified'][res[1]] = st['unspecified'].get(res[1], 0) + 1
        e = o['end'].split(':')[0]
        st['unspecified_ends'][e] = st['unspecified_ends'].get(e, 0) + 1
        if e == 'hostexc':
            feat = {'family': 'loop', 'divergence': 'host-exception', 'reason': res[1], 'end': o['end'],
                    'types': types}
            feat.update(shape_features(fmt))
            viol.append((feat, case, 'an unspecified statement prints something or ends in a reported run-time '
                         'error (trap)', {'end': o['end'], 'where': o['where']}, size))
    else:
        _count_must(res, st)
        if o['text'] is None:
            feat = {'family': 'loop', 'divergence': 'outcome', 'end': o['end'], 'types': types}
            feat.update(shape_features(fmt))
            viol.append((feat, case, sorted(res[1])[:4], {'end': o['end'], 'where': o['where']}, size))
        elif o['text'] not in res[1]:
            exp_nl = not ending
            got_nl = o['text'].endswith(U.CRLF)
            body = o['text'][:-2] if got_nl else o['text']
            bodies = set(t[:-2] if exp_nl else t for t in res[1])
            if body in bodies or got_nl != exp_nl:
                viol.append(({'family': 'loop', 'divergence': 'linebreak', 'ending': ending or 'none',
                              'fields': U.field_kinds(fmt), 'types': types}, case,
                             'line break' if exp_nl else 'no line break', o['text'], size))
            if body not in bodies:
                for feat, exp, got, extra in attribute('loop', fmt, res, body, piece_via_loop):
                    viol.append((feat, dict(case, **extra), exp, got, size))
        else:
            st['texts'].add(o['text'])
            st['agree'] += 1
    if direct and types and formatter_class() is not None:
        d = observe_direct(fmt, tv)
        st['direct_compared'] += 1
        if d[0] == 'text':
            same = o['text'] is not None and (o['text'][:-2] if not ending else o['text']) == d[1]
        else:
            # the formatter refuses the values: the statement must end in a reported
            # run-time error (any trap), not print, and not die with a host exception
            same = o['text'] is None and o['end'].startswith('trap:')
            st['refused_by_both'] += 1 if same else 0
        if not same:
            viol.append(({'family': 'loop', 'divergence': 'direct-vs-compiled', 'fields': U.field_kinds(fmt),
                          'types': types}, case, {'direct': list(d)},
                         {'compiled': o['text'], 'end': o['end']}, size))
    return viol


def judge_direct(fmt, values, st):
    res = U.statement(fmt, list(values), ';') if values else ('unspecified', 'no-values')
    d = observe_direct(fmt, values)
    st['evaluations'] += 1
    if res[0] == 'unspecified':
        st['unspecified'][res[1]] = st['unspecified'].get(res[1], 0) + 1
        e = 'hostexc' if d[0] == 'exc' else 'completed'
        st['unspecified_ends'][e] = st['unspecified_ends'].get(e, 0) + 1
        return []
    _count_must(res, st)
    types = ''.join(_vtype(v) for v in values)
    case = {'path': 'direct', 'format': fmt, 'values': list(values), 'types': types}
    size = _size(fmt, values)
    if d[0] == 'exc':
        feat = {'family': 'direct', 'divergence': 'outcome', 'end': 'hostexc:' + d[1], 'types': types}
        feat.update(shape_features(fmt))
        return [(feat, case, sorted(res[1])[:4], {'end': 'hostexc:' + d[1]}, size)]
    if d[1] not in res[1]:
        return [(feat, dict(case, **extra), exp, got, size)
                for feat, exp, got, extra in attribute('direct', fmt, res, d[1], piece_direct)]
    st['agree'] += 1
    st['texts'].add(hash(d[1]) & 0xfffff)      # bucketed: a lower bound on the distinct texts of this family
    return []


def _dedupe(viol, st):
    """one representative (the smallest) per feature record and chunk; the number of
    violating evaluations is kept in the statistics"""
    import json
    st['violating_evaluations'] = st.get('violating_evaluations', 0) + len(viol)
    best = {}
    for v in viol:
        key = json.dumps(v[0], sort_keys=True, default=str)
        if key not in best or v[4] < best[key][4]:
            best[key] = v
    return list(best.values())


def _new_stats():
    return {'evaluations': 0, 'must': 0, 'agree': 0, 'must_with_alternatives': 0, 'ties': 0,
            'overflow_fields': 0, 'unspecified': {}, 'unspecified_ends': {}, 'texts': set(),
            'direct_compared': 0, 'refused_by_both': 0, 'machines': 0, 'formats': 0}


def loop_chunk(chunk):
    impl.parse_cache(True)
    st = _new_stats()
    viol = []
    cases = []
    for fmt in chunk:
        st['formats'] += 1
        for k, vals in cases_for(fmt):
            cases.append((fmt, k, vals))
    for i in range(0, len(cases), 2000):
        part = cases[i:i + 2000]
        obs, info = observe_loop(part)
        st['machines'] += info['machines']
        for (fmt, k, vals), o in zip(part, obs):
            viol.extend(judge_loop(fmt, k, vals, o, st))
    return _dedupe(viol, st), st


def direct_chunk(chunk):
    st = _new_stats()
    viol = []
    for prefix in chunk:
        for tail in itertools.product(ALPHABET, repeat=DIRECT_TAIL):
            fmt = prefix + ''.join(tail)
            st['formats'] += 1
            for vals in direct_cases_for(fmt):
                viol.extend(judge_direct(fmt, vals, st))
        if len(viol) > 5000:
            n = len(viol)
            viol = _dedupe(viol, st)
            st['violating_evaluations'] -= len(viol)       # the representatives are counted again below
    return _dedupe(viol, st), st


DIRECT_TAIL = 3


# ---------------------------------------------------------------------------
# family literal: format and values as literals, six configurations

LIT_VALUES = [('1', 1), ('-12', -12), ('2.5', 2.5), ('1000', 1000), ('9.995#', 9.995), ('-.5', -0.5)]
LIT_EXTRA = ['###.##', '+#,###.#', '#,###.##-', '##.##+', '& = ###', '!_#a#.#']


DIED = '\x00died:'


def literal_statements(tier):
    out = []
    fmts = [f for f in formats(2 if tier == 'quick' else 3) if len(U.field_kinds(f)) == 1] + LIT_EXTRA
    for f in fmts:
        kinds = U.field_kinds(f)
        if kinds == 'N':
            for txt, v in LIT_VALUES:
                out.append((f, [(txt, v)], ''))
            out.append((f, [('1', 1)], ';'))
        elif kinds == 'S':
            out.append((f, [('"abc"', 'abc')], ''))
            out.append((f, [('"a"', 'a')], ','))
        elif kinds == 'SN':
            out.append((f, [('"abc"', 'abc'), ('2.5', 2.5)], ''))
        elif kinds == 'SNN':
            out.append((f, [('"abc"', 'abc'), ('2.5', 2.5), ('-12', -12)], ';'))
    return out


def literal_source(stmts):
    lines = []
    for f, vals, ending in stmts:
        lines.append('BEEP')
        lines.append('PRINT USING "%s"; %s%s' % (f, '; '.join(t for t, _ in vals), ending))
    lines += ['BEEP', 'END']
    return '\n'.join(lines) + '\n'


def observe_literal(src, n, cfg):
    r = impl.compile_text(src, cfg[0], cfg[1], want_listing=False)
    if not r.ok:
        return 'compile:' + r.brief()[:120], []
    mod = impl.load(r.binary)
    out, _ = impl.run_module(mod, impl.Env({}), horizon=200 * n + 2000)
    texts = []
    cur = None
    for ev in out.events:
        if ev[0] == 'dev' and ev[1:3] == ('pcspkr', 'beep'):
            if cur is not None:
                texts.append(cur)
            cur = ''
        elif ev[0] == 'print' and cur is not None:
            cur += ev[1]
    status = 'ok' if out.end in ('halt', 'eoc') and len(texts) == n else \
        'run:%s/%s' % (out.end, out.trap or out.exc)
    return status, texts


def cfgname(cfg):
    return 'O%d%s' % (cfg[0], 'g' if cfg[1] else '')


def literal_chunk(chunk):
    impl.parse_cache(True)
    st = _new_stats()
    st['programs'] = 0
    viol = []
    for stmts in chunk:
        src = literal_source(stmts)
        per_cfg = {}
        for cfg in impl.CONFIGS:
            st['programs'] += 1
            status, texts = observe_literal(src, len(stmts), cfg)
            if status != 'ok':
                # one dying statement hides the rest: run them one per program
                texts = []
                for s in stmts:
                    s1, t1 = observe_literal(literal_source([s]), 1, cfg)
                    texts.append(t1[0] if s1 == 'ok' else (DIED + s1))
            per_cfg[cfg] = texts
        for i, (f, vals, ending) in enumerate(stmts):
            tv = [v for _, v in vals]
            res = U.statement(f, tv, ending)
            got = {cfg: per_cfg[cfg][i] for cfg in impl.CONFIGS}
            st['evaluations'] += len(impl.CONFIGS)
            case = {'path': 'literal', 'format': f, 'values': tv, 'source': literal_source([(f, vals, ending)]),
                    'ending': ending}
            base = got[impl.CONFIGS[0]]
            odd = [cfgname(c) for c in impl.CONFIGS if got[c] != base]
            size = _size(f, tv)
            if odd:
                viol.append(({'family': 'literal', 'divergence': 'config', 'configs': odd,
                              'fields': U.field_kinds(f)}, dict(case, config=odd[0]),
                             {cfgname(impl.CONFIGS[0]): base}, {c: got[c] for c in impl.CONFIGS if got[c] != base}, size))
            if res[0] == 'must':
                st['must'] += len(impl.CONFIGS)
                c0 = dict(case, config=cfgname(impl.CONFIGS[0]))
                if base.startswith(DIED):
                    feat = {'family': 'literal', 'divergence': 'outcome', 'end': base[len(DIED):].split('/')[0],
                            'types': ''.join(_vtype(v) for v in tv)}
                    feat.update(shape_features(f))
                    viol.append((feat, c0, sorted(res[1])[:6], base, size))
                elif base not in res[1]:
                    got_nl = base.endswith(U.CRLF)
                    body = base[:-2] if got_nl else base
                    if got_nl != (not ending):
                        viol.append(({'family': 'literal', 'divergence': 'linebreak', 'ending': ending or 'none',
                                      'fields': U.field_kinds(f), 'types': ''.join(_vtype(v) for v in tv)}, c0,
                                     'no line break' if ending else 'line break', base, size))
                    if body not in set(t[:-2] if not ending else t for t in res[1]):
                        for feat, exp, obs, extra in attribute('literal', f, res, body, piece_via_loop):
                            viol.append((feat, dict(c0, **extra), exp, obs, size))
                else:
                    st['agree'] += len(impl.CONFIGS)
                    st['texts'].add(base)
            else:
                st['unspecified'][res[1]] = st['unspecified'].get(res[1], 0) + len(impl.CONFIGS)
    return _dedupe(viol, st), st


# ---------------------------------------------------------------------------

def _chunks(lst, n):
    return [lst[i:i + n] for i in range(0, len(lst), n)]


def run(chk):
    bad = U.calibrate()
    if bad:
        raise RuntimeError('C19 model fails its calibration examples: %r' % (bad,))
    maxlen = 4
    fams = {}
    driver_module()        # compiled once, before the pool forks: the workers inherit it
    want = lambda name: not chk.only or name in chk.only      # noqa
    if want('loop'):
        fl = list(formats(maxlen))
        fams['loop'] = {'alphabet': list(ALPHABET), 'max_format_len': maxlen, 'formats': len(fl),
                        'statement_shapes': len(STMTS), 'int_values': INTS, 'fractional_values': FRACS,
                        'single_values': SINGLES, 'strings': STRINGS, 'second_values_of_pairs': PAIR_SECOND,
                        'fields_per_statement': '0..4 (3 and 4: four value rotations)',
                        'endings': ['', ';', ','], 'config': 'O0',
                        'also': 'every case is repeated on the formatter class directly (direct == compiled)'}
        for viol, st in chk.pmap(loop_chunk, fl, chunk=25):
            chk.add_violations(viol)
            chk.merge_stats(st)
    else:
        chk.cov['exhaustive'] = False
    if want('literal'):
        stmts = literal_statements(chk.tier)
        fams['literal'] = {'statements': len(stmts), 'configs': [cfgname(c) for c in impl.CONFIGS],
                           'formats': 'all one-field formats of length <= %d plus %r' % (
                               2 if chk.tier == 'quick' else 3, LIT_EXTRA),
                           'values': [t for t, _ in LIT_VALUES]}
        for viol, st in chk.pmap(literal_chunk, _chunks(stmts, 40), chunk=1):
            chk.add_violations(viol)
            chk.merge_stats(st)
    else:
        chk.cov['exhaustive'] = False
    if chk.tier == 'thorough' and want('direct'):
        if formatter_class() is None:
            chk.cov['exhaustive'] = False
            chk.notes.append('qvm.using.PrintUsingFormatter not importable: family direct skipped')
        else:
            global DIRECT_TAIL
            n = 0
            for length in (5, 6):
                prefixes = [''.join(t) for t in itertools.product(ALPHABET, repeat=length - DIRECT_TAIL)]
                n += len(prefixes) * len(ALPHABET) ** DIRECT_TAIL
                for viol, st in chk.pmap(direct_chunk, prefixes, chunk=2 if length == 5 else 10):
                    chk.add_violations(viol)
                    chk.merge_stats(st)
            fams['direct'] = {'format_lengths': [5, 6], 'formats': n, 'path': 'PrintUsingFormatter(fmt).format(values)',
                              'values': 'the same value sets, 1..2 fields: first x {1,-12,2.5} and {1,2.5} x second; '
                                        '3+ fields: two fixed value tuples', 'line_end': 'not observable on this path'}
    elif chk.tier == 'thorough':
        chk.cov['exhaustive'] = False
    for fmt, k, vals in (('##.#', STMT_INDEX[('D', ('',))], (9.995,)), ('#,###-', STMT_INDEX[('L', (';',))], (-1234567,)),
                         ('& !', STMT_INDEX[('SS', (';', ''))], ('abc', 'abc'))):
        obs, _ = observe_loop([(fmt, k, vals)])
        types, seps = STMTS[k]
        res = U.statement(fmt, typed_values(types, vals), seps[-1])
        chk.sample({'format': fmt, 'statement': stmt_text(k), 'values': list(vals), 'observed': obs[0]['text'],
                    'model': sorted(res[1]) if res[0] == 'must' else list(res)})
    chk.cov['distinct_nontrivial'] = len(chk.cov.get('_sets', {}).get('texts', ()))
    chk.assumptions = [
        'formats over the 10-symbol alphabet only (no \\ \\, $$, **, ^^^^ fields); at most 4 values per statement',
        'the value a DOUBLE/SINGLE variable holds after INPUT of repr(x) is x (C16 owns text to number)',
        'field grammar and the open points of the statement as documented in qv/ref/using.py; '
        'unspecified statements are only counted (their host exceptions are C07\'s business)',
        'the formatter does not depend on the compiler configuration: the loop runs at O0, the literal family '
        'covers the six configurations']
    chk.finish(
        rule=('an evaluation = one PRINT USING statement (format, values, ending) executed and compared with the '
              'model; must = the model defines the text (a set when the statement leaves a tie or a zero sign '
              'open); distinct_nontrivial = distinct texts that agreed with the model'),
        extra_cov={'families': fams, 'distinct_outcomes': chk.cov['distinct_nontrivial']})


def replay(rec):
    c = rec['case']
    fmt = c['format']
    if c['path'] == 'direct':
        vals = c['values']
        res = U.statement(fmt, vals, ';')
        d = observe_direct(fmt, vals)
        print('PrintUsingFormatter(%r).format(%r)' % (fmt, vals))
        print('model    :', sorted(res[1]) if res[0] == 'must' else res)
        print('observed :', d)
        bad = res[0] == 'must' and (d[0] != 'text' or d[1] not in res[1])
        print('VIOLATES' if bad else 'agrees with the model')
        return 1 if bad else 0
    if c['path'] == 'literal':
        print('--- source ---')
        print(c['source'])
        res = U.statement(fmt, c['values'], c['ending'])
        print('model    :', sorted(res[1]) if res[0] == 'must' else res)
        bad = False
        seen = set()
        for cfg in impl.CONFIGS:
            s, t = observe_literal(c['source'], 1, cfg)
            got = t[0] if s == 'ok' else DIED + s
            seen.add(got)
            print('%-4s     : %r' % (cfgname(cfg), got))
            if res[0] == 'must' and got not in res[1]:
                bad = True
        if len(seen) > 1:
            bad = True
        print('VIOLATES' if bad else 'agrees with the model')
        return 1 if bad else 0
    k = c['stmt']
    types, seps = STMTS[k]
    vals = c['values']
    print('--- driver program (format and values arrive through INPUT) ---')
    print('statement:', stmt_text(k).replace('f$', repr(fmt)))
    print('values   :', vals)
    st = _new_stats()
    obs, _ = observe_loop([(fmt, k, vals)], tuple(c.get('config', (0, False))))
    viol = judge_loop(fmt, k, vals, obs[0], st)
    res = U.statement(fmt, typed_values(types, vals), seps[-1] if seps else ';') if types else ('unspecified', 'no-values')
    print('model    :', sorted(res[1]) if res[0] == 'must' else res)
    print('observed :', repr(obs[0]['text']), obs[0]['end'], obs[0]['where'] or '')
    if formatter_class() is not None:
        print('direct   :', observe_direct(fmt, typed_values(types, vals)))
    want = rec['features'].get('divergence')
    hit = [v for v in viol if v[0].get('divergence') == want]
    print('VIOLATES (%s)' % want if hit else 'no longer violates')
    return 1 if hit else 0
