"""C16 - numbers survive conversion to text and back.

Every value of the bounded sets (all 65 536 INTEGERs; complete structured sets
of LONG, SINGLE and DOUBLE values, see qv/c16_values.py) goes through one
compiled looping program per type on the real VM: the value enters through the
environment (INPUT of an exact text, or the RND device answer for SINGLE), the
program PRINTs it, PRINTs STR$ of it, reads the printed text back through INPUT
and through VAL, and PRINTs what it got.  A second compiled program READs the
printed texts from DATA.  What is printed is observed twice: as text (what the
terminal device receives) and as the typed operand of the PRINT instruction
(the exact machine value), so the value that came back is known exactly without
trusting the formatter under test.  The texts and the values read back are
judged by the exact-rational predicates of qv/ref/numtext.py."""
import math
from .. import impl
from .. import c16_drv as drv
from .. import c16_values as V
from ..ref import numtext

LEVEL = 'exploration'

SUFFIX = {'INTEGER': '%', 'LONG': '&', 'SINGLE': '!', 'DOUBLE': '#'}
READERS = ('INPUT', 'VAL', 'READ')


def loop_source(typ):
    t = SUFFIX[typ]
    entry = 'x! = RND(1)' if typ == 'SINGLE' else 'INPUT "", x' + t
    lines = ['DO', 'BEEP', entry,
             'PRINT x' + t,                 # typed[0]: the value; its text is "the PRINT text"
             'PRINT STR$(x%s)' % t,         # typed[1]: the STR$ string
             'INPUT "", z' + t,             # answered with the PRINT text
             'PRINT z' + t,                 # typed[2]: what INPUT made of it
             'y%s = VAL(STR$(x%s))' % (t, t),
             'PRINT y' + t,                 # typed[3]: what VAL made of it, at the type
             'LOOP']
    return '\n'.join(lines) + '\n'


def read_source(typ, texts, per_line=40):
    """READ every text at the type.  A READ that fails is a run-time error; the
    handler steps over the item (reads it as a string), says so and resumes, so
    one item that cannot be read does not hide the following ones.  RESUME NEXT
    needs a build with debug information."""
    t = SUFFIX[typ]
    lines = ['ON ERROR GOTO 100', 'DO', 'BEEP', 'READ r' + t, 'PRINT r' + t, 'LOOP',
             '100 READ d$', 'PRINT "E"; ERR', 'RESUME NEXT']
    for i in range(0, len(texts), per_line):
        lines.append('DATA ' + ', '.join(texts[i:i + per_line]))
    return '\n'.join(lines) + '\n'


_MODULES = {}


def loop_module(typ, cfg=(0, False)):
    key = (typ, cfg)
    if key not in _MODULES:
        r = impl.compile_text(loop_source(typ), cfg[0], cfg[1], limit=600.0, want_listing=False)
        if not r.ok:
            raise RuntimeError('C16 loop program rejected: ' + r.brief())
        _MODULES[key] = impl.load(r.binary)
    return _MODULES[key]


def entry_text(typ, x):
    return repr(x) if typ == 'DOUBLE' else str(x)


def _readback_answer(rec):
    # what a user would type: the text PRINT showed for the value
    prev = rec['seg'][-2]
    return prev.split('\r\n')[0]


def _typed_number(rec, k, typ):
    """the single numeric operand of the k-th PRINT of the iteration -> value | None"""
    ty = rec.get('typed') or []
    if k >= len(ty) or not ty[k]:
        return None
    it = ty[k][0]
    if isinstance(it, tuple) and it[0] == typ:
        return it[1]
    return ('wrong-type',) + tuple(it) if isinstance(it, tuple) else None


def observe(typ, values, cfg=(0, False)):
    """-> (list of observation dicts, driver info).  Per value:
    entered (exact value the program holds), print / str (texts),
    INPUT / VAL = ('ok', value) | ('rejected',) | ('died', end) | ('not-reached',)"""
    its = []
    for x in values:
        if typ == 'SINGLE':
            its.append({'rnd': [x], 'inputs': [_readback_answer], 'fallback': '0'})
        else:
            its.append({'inputs': [entry_text(typ, x), _readback_answer], 'fallback': '0'})
    recs, info = drv.drive(loop_module(typ, cfg), its, tick_budget=5000)
    out = []
    for x, r in zip(values, recs):
        o = {'value': x, 'entered': None, 'print': None, 'str': None,
             'INPUT': ('not-reached',), 'VAL': ('not-reached',),
             'end': None, 'entry_rejected': False}
        out.append(o)
        if r is None:
            o['end'] = ('not-run', info.get('aborted'))
            continue
        o['end'] = r['end']
        segs = r['seg']
        k = 0 if typ == 'SINGLE' else 1          # segment holding PRINT x / PRINT STR$
        if len(segs) <= k:
            continue
        first = segs[k].split('\r\n')
        # an entry INPUT that was rejected shows up as 'Redo from start' before the prints
        if typ != 'SINGLE' and first and first[0].startswith('Redo'):
            o['entry_rejected'] = True
            continue
        o['entered'] = _typed_number(r, 0, typ)
        if len(first) > 1:
            o['print'] = first[0]
        if len(first) >= 3:
            o['str'] = first[1]
        if len(segs) <= k + 1:
            continue
        rejected = r['extra'] > 0
        z = _typed_number(r, 2, typ)
        y = _typed_number(r, 3, typ)
        if rejected:
            o['INPUT'] = ('rejected',)
        elif z is not None:
            o['INPUT'] = ('ok', z)
        elif r['end'] is not None:
            o['INPUT'] = ('died', r['end'])
        if y is not None:
            o['VAL'] = ('ok', y)
        elif r['end'] is not None and (z is not None or rejected):
            o['VAL'] = ('died', r['end'])
    return out, info


_DATA_OK = set('0123456789.+-EeDd ')


def _trap_name(n):
    try:
        return impl.TrapCode(n).name
    except Exception:
        return 'ERR%r' % (n,)


def observe_read(typ, obs, cfg=(0, True)):
    """READ the printed texts back from DATA; fills o['READ']"""
    idx = [i for i, o in enumerate(obs) if o['print'] is not None and o['print'].strip()
           and set(o['print']) <= _DATA_OK]
    for o in obs:
        o['READ'] = ('not-reached',)
    if not idx:
        return {'machines': 0}
    total = {'machines': 0, 'ticks': 0}
    deaths = 0
    while idx:
        done, info = _read_batch(typ, obs, idx, cfg)
        total['machines'] += info.get('machines', 0)
        total['ticks'] += info.get('ticks', 0)
        # a machine that died (not a handled run-time error) lost its DATA position:
        # the items after it go to a fresh program
        idx = idx[done:]
        deaths += 1
        if deaths > 25:
            break
    return total


def _read_batch(typ, obs, idx, cfg):
    """-> (number of items of idx that are settled, driver info)"""
    texts = [obs[i]['print'].strip() for i in idx]
    r = impl.compile_text(read_source(typ, texts), cfg[0], True, limit=600.0, want_listing=False)
    if r.kind == 'timeout':
        raise RuntimeError('C16 READ program: compile timed out (overloaded machine?)')
    if not r.ok:
        for i in idx:
            obs[i]['READ'] = ('died', ('compile', r.brief()[:120]))
        return len(idx), {'machines': 0}
    mod = impl.load(r.binary)
    recs, info = drv.drive(mod, [{} for _ in idx], tick_budget=5000)
    for k, (i, rec) in enumerate(zip(idx, recs)):
        if rec is None:
            obs[i]['READ'] = ('died', ('not-run', info.get('aborted')))
            return k + 1, info
        ty = rec.get('typed') or []
        first = ty[0] if ty else None
        if first and first[0] == ('STRING', 'E'):
            # the error handler ran: the READ of this item was a run-time error
            code = first[2][1] if len(first) > 2 and isinstance(first[2], tuple) else None
            obs[i]['READ'] = ('died', ('trap', _trap_name(code)))
            if rec['end'] is not None:
                return k + 1, info
        elif rec['end'] is not None:
            obs[i]['READ'] = ('died', rec['end'])
            return k + 1, info
        else:
            v = _typed_number(rec, 0, typ)
            obs[i]['READ'] = ('ok', v) if v is not None else ('died', ('no-print',))
    return len(idx), info


def _outcome(end):
    if end is None:
        return 'none'
    if end[0] == 'trap':
        return 'trap:%s' % end[1]
    if end[0] == 'hostexc':
        return 'hostexc:%s' % end[1]
    return str(end[0])


def magnitude_class(typ, x):
    """input-side class of the magnitude (for the feature record)"""
    a = abs(x)
    if typ in ('INTEGER', 'LONG'):
        return 'int'
    if a == 0:
        return 'zero'
    if a < 1e-4:
        return '<1e-4'
    if a < 1:
        return '<1'
    if a < 1e7:
        return '<1e7'
    if a < 1e9:
        return '<1e9'
    if a < 1e16:
        return '<1e16'
    return '>=1e16'


def is_pow2(typ, x):
    """the magnitude is an exact power of two (the values of the type are spaced
    unevenly around it: half as far below as above)"""
    if typ in ('INTEGER', 'LONG') or x == 0:
        return False
    return math.frexp(abs(x))[0] == 0.5


def _same_value(a, b):
    if isinstance(a, float) and isinstance(b, float):
        return a == b and math.copysign(1, a) == math.copysign(1, b)
    return type(a) is type(b) and a == b


def judge(typ, o, partner):
    """-> (list of (divergence, reader, outcome, expected, observed, notation), Numeral|None)"""
    x = o['value']
    bad = []
    if o['entry_rejected']:
        # the value is handed over as INPUT of its plain decimal text (for INTEGER / LONG the very
        # text PRINT shows, blanks aside): INPUT must take it
        bad.append(('entry-rejected', 'INPUT', 'rejected',
                    'INPUT x%s takes the line %r' % (SUFFIX[typ], entry_text(typ, x)), 'Redo from start', 'none'))
        return bad, None
    if o['print'] is None or o['str'] is None:
        bad.append(('no-text', '-', _outcome(o['end']) if not o['entry_rejected'] else 'entry-rejected',
                    'PRINT and STR$ text', impl.jsonable(o['end']), 'none'))
        return bad, None
    if not _same_value(o['entered'], x):
        # the program does not hold the value the harness meant to give it
        bad.append(('entry-differs', 'ENTRY', 'differs', repr(x), repr(o['entered']), 'none'))
        return bad, None
    ptxt, stxt = o['print'], o['str']
    notation = 'none'
    num = None
    if typ in ('INTEGER', 'LONG'):
        exp = numtext.int_text(x)
        notation = 'plain-int'
        if stxt != exp:
            bad.append(('int-text', 'STR$', 'differs', exp, stxt, notation))
        if ptxt.rstrip(' ') != exp:        # the blank PRINT puts after a number belongs to C17
            bad.append(('int-text', 'PRINT', 'differs', exp, ptxt, notation))
    else:
        clauses, num, info = numtext.judge_float_text(stxt, x, typ)
        notation = num.notation if num else 'none'
        o['strict_ok'] = info.get('strict_half_unit', True)
        o['sig'] = info.get('sig_digits')
        for c in clauses:
            bad.append((c, 'STR$', 'differs',
                        'decimal numeral, <= %d significant digits, within half a unit of the last shown digit of %r'
                        % (numtext.MAXDIGITS[typ], x), stxt, notation))
        # PRINT and STR$ show the same digits (and the same sign); blanks belong to C17
        if not numtext.same_digits(ptxt, stxt) or (ptxt.strip().startswith('-') != stxt.strip().startswith('-')):
            bad.append(('print-str-differ', 'PRINT', 'differs', stxt, ptxt, notation))
    o['notation'] = notation
    # a number and its negation show the same digits: judged once per pair, at the non-negative member
    if partner is not None and partner['str'] is not None and not str(x).startswith('-'):
        if not numtext.same_digits(stxt, partner['str']):
            bad.append(('negation-differs', 'STR$', 'differs', stxt.strip(), partner['str'], notation))
    for rd in READERS:
        res = o.get(rd, ('not-reached',))
        if res[0] == 'ok':
            y = res[1]
            if isinstance(y, tuple):
                bad.append(('readback', rd, 'wrong-type', typ, list(y[1:]), notation))
            elif typ in ('INTEGER', 'LONG'):
                if not _same_value(y, x):
                    bad.append(('readback', rd, 'unequal', repr(x), repr(y), notation))
                else:
                    o.setdefault('exact', []).append(rd)
            else:
                if y == x:
                    o.setdefault('exact', []).append(rd)
                elif num is not None and numtext.reproduces(num, y, typ):
                    o.setdefault('to_precision', []).append(rd)
                else:
                    bad.append(('readback', rd, 'unequal',
                                '%r, or a value within half a unit of the last shown digit of %s'
                                % (x, stxt.strip()), repr(y), notation))
        elif res[0] == 'rejected':
            bad.append(('readback', rd, 'rejected', 'text accepted and value reproduced', 'Redo from start', notation))
        elif res[0] == 'died':
            bad.append(('readback', rd, _outcome(res[1]), 'value reproduced', impl.jsonable(res[1]), notation))
        else:
            o['unjudged'] = o.get('unjudged', 0) + 1      # an earlier step of the iteration died
    return bad, num


def signed_values(typ, mags):
    """each magnitude with its negation next to it; -> list of (value, partner index or None)"""
    out = []
    top = {'INTEGER': 32768, 'LONG': 2 ** 31}.get(typ)
    for m in mags:
        if typ in ('INTEGER', 'LONG'):
            if m == 0:
                out.append((0, None))
            elif m == top:
                out.append((-m, None))
            else:
                out.append((m, len(out) + 1))
                out.append((-m, len(out) - 1))
        else:
            out.append((m, len(out) + 1))
            out.append((-m, len(out) - 1))
    return out


def new_stats():
    return {'evaluations': 0, 'nontrivial': 0, 'texts': set(), 'notations': {}, 'strict_reading_fails': 0,
            'readbacks_exact': {}, 'readbacks_to_precision': {}, 'machines': 0, 'readers_not_reached': 0,
            'by_class': {}, 'sig_digits': {}}


def _bump(d, k, n=1):
    d[k] = d.get(k, 0) + n


def eval_values(typ, mags, cfg=(0, False), fam=None, st=None):
    sv = signed_values(typ, mags)
    values = [v for v, _ in sv]
    obs, info = observe(typ, values, cfg)
    rinfo = observe_read(typ, obs, cfg)
    viol = []
    for i, o in enumerate(obs):
        partner = obs[sv[i][1]] if sv[i][1] is not None else None
        bad, num = judge(typ, o, partner)
        if st is not None:
            st['evaluations'] += 1
            if o['print'] is not None:
                st['texts'].add(o['print'])
                st['nontrivial'] += 1
            _bump(st['notations'], typ + '/' + o.get('notation', 'none'))
            if o.get('sig') is not None:
                _bump(st['sig_digits'], '%s/%02d' % (typ, o['sig']))
            if o.get('strict_ok') is False:
                st['strict_reading_fails'] += 1
            st['readers_not_reached'] += o.get('unjudged', 0)
            for rd in o.get('exact', ()):
                _bump(st['readbacks_exact'], rd)
            for rd in o.get('to_precision', ()):
                _bump(st['readbacks_to_precision'], rd)
        x = o['value']
        for div, reader, outcome, exp, got, notation in bad:
            feat = {'family': typ, 'divergence': div, 'reader': reader, 'outcome': outcome,
                    'notation': notation, 'magnitude': magnitude_class(typ, x)}
            if div == 'inaccurate':
                feat['pow2'] = is_pow2(typ, x)
            case = {'type': typ, 'value': entry_text(typ, x) if typ != 'SINGLE' else repr(x),
                    'hex': x.hex() if isinstance(x, float) else None,
                    'config': list(cfg), 'class': fam, 'print': o['print'], 'str': o['str']}
            viol.append((feat, case, exp, got, len(repr(abs(x)))))
    if st is not None:
        st['machines'] += info['machines'] + rinfo.get('machines', 0)
    return viol


def eval_chunk(chunk):
    impl.parse_cache(True)
    st = new_stats()
    viol = []
    for block in chunk:
        typ = block[0]
        mags = V.expand(block)
        key = typ + '/' + block[1]
        for i in range(0, len(mags), 500):
            part = mags[i:i + 500]
            before = st['evaluations']
            viol.extend(eval_values(typ, part, fam=block[1], st=st))
            st['by_class'][key] = st['by_class'].get(key, 0) + st['evaluations'] - before
    return viol, st


def space(tier):
    fams = {}
    fams['INTEGER'] = (V.int_blocks('INTEGER', tier), {'values': 'all 65536'})
    B = 4 if tier == 'quick' else 8
    fams['LONG'] = (V.int_blocks('LONG', tier),
                    {'classes': 'pow2 and pow10 with +-1, <=%d significant bits at every shift, '
                                '<=%d-digit decimals at every decimal exponent, limits' % (B, 3 if tier == 'quick' else 4)})
    for typ in ('SINGLE', 'DOUBLE'):
        dd = {'SINGLE': {'quick': '<=3 digits at every exponent', 'thorough': '<=3 digits at every exponent, 4 digits for 1e-5..1e8 (cut from 4 everywhere)'},
              'DOUBLE': {'quick': '1 digit at every exponent, <=2 digits for 1e-40..1e40, <=3 digits for 1e-8..1e18 (cut from 3 everywhere)',
                         'thorough': '<=2 digits at every exponent, <=3 digits for 1e-40..1e40, 4 digits for 1e-2..1e7 (cut from 4 everywhere)'}}
        fams[typ] = (V.float_blocks(typ, tier),
                     {'classes': {'special': 'zero, largest, smallest normal, subnormals, 1, 0.5, 0.1 with neighbours',
                                  'pow2': '2^k for every k, +-1 ulp',
                                  'pow10': 'nearest to 10^k for every k, +-1 ulp, 10^k +- one unit of the 9th digit',
                                  'mantissa': 'every value with <=%d significant mantissa bits at every exponent' % V.mantissa_bits(typ, tier),
                                  'decimal': dd[typ][tier],
                                  'boundary': '%s-digit patterns 10..0, 9..9, 9..95, 49..9, 50..01, 1234.. and the '
                                              'half-way points next to them at every decimal exponent: the values of the '
                                              'type just below and above' % '/'.join(map(str, V.BOUNDARY_DIGITS[typ]))},
                      'negation': 'every magnitude also negated'})
    return fams


def run(chk):
    fams = space(chk.tier)
    desc = {}
    for name, (blocks, d) in fams.items():
        if chk.only and name not in chk.only:
            chk.cov['exhaustive'] = False
            continue
        d = dict(d)
        d['blocks'] = len(blocks)
        desc[name] = d
        for viol, st in chk.pmap(eval_chunk, blocks, chunk=1):
            chk.add_violations(viol)
            chk.merge_stats(st)
    for typ, x in (('INTEGER', -32768), ('SINGLE', 1e-10), ('DOUBLE', 0.1), ('LONG', 2 ** 31 - 1)):
        if chk.only and typ not in chk.only:
            continue
        if typ == 'SINGLE':
            x = V.nearest(V.Fraction(1, 10 ** 10), 'SINGLE')
        obs, _ = observe(typ, [x])
        observe_read(typ, obs)
        chk.sample({'type': typ, 'value': repr(x), 'print': obs[0]['print'], 'str': obs[0]['str'],
                    'INPUT': impl.jsonable(obs[0]['INPUT']), 'VAL': impl.jsonable(obs[0]['VAL']),
                    'READ': impl.jsonable(obs[0]['READ'])})
    chk.cov['distinct_nontrivial'] = len(chk.cov.get('_sets', {}).get('texts', ()))
    chk.cov.pop('nontrivial', None)
    chk.assumptions = [
        'value sets are the structured sets listed per family (no random bit patterns); nothing is claimed outside them',
        'SINGLE values enter through the RND device answer, LONG/DOUBLE through INPUT of str()/repr() of the value; '
        'the typed operand of the first PRINT must be exactly the intended value (else: entry-differs)',
        'values read back are observed as the typed operand of the PRINT instruction (operand stack), not as text',
        'for a plain numeral without fraction, trailing zeros are read as place holders (lenient reading); '
        'the number of cases where the strict reading would fail is reported as strict_reading_fails',
        '"reproduces the value to that precision": the value read back is the original, or the shown numeral lies '
        'within half a unit of its last shown digit of the value read back as well',
        'one configuration (O0, no debug info): the conversions are run-time library code']
    chk.finish(
        rule=('every value of every block (and its negation) is one evaluation: PRINT, STR$, INPUT/VAL/READ of the '
              'printed text on the real VM, judged by exact-rational predicates; distinct_nontrivial = number of '
              'distinct printed texts (each value that produced a text reached number formatting)'),
        extra_cov={'families': desc, 'distinct_outcomes': chk.cov['distinct_nontrivial']})


def replay(rec):
    c = rec['case']
    typ = c['type']
    x = float.fromhex(c['hex']) if c.get('hex') else int(c['value'])
    cfg = tuple(c.get('config', (0, False)))
    print('--- program ---')
    print(loop_source(typ))
    mags = [abs(x)]
    viol = eval_values(typ, mags, cfg)
    want = rec['features']
    hit = 0
    sv = signed_values(typ, mags)
    obs, _ = observe(typ, [v for v, _ in sv], cfg)
    observe_read(typ, obs, cfg)
    for o in obs:
        print('value %r: PRINT %r STR$ %r INPUT %r VAL %r READ %r' % (
            o['value'], o['print'], o['str'], o['INPUT'], o['VAL'], o['READ']))
    for feat, case, exp, got, size in viol:
        if all(feat.get(k) == v for k, v in want.items()) and case['value'] == c['value']:
            print('expected:', exp)
            print('observed:', got)
            hit = 1
    print('VIOLATES' if hit else 'no longer violates')
    return hit
