"""C16 - numbers survive conversion to text and back.

Every value of the bounded sets (all 65 536 INTEGERs; complete structured sets
of LONG, SINGLE and DOUBLE values, see qv/c16_values.py) goes through one
compiled looping program per type: the value enters through the environment
(INPUT of an exact text, or the RND device answer for SINGLE), the program
PRINTs it, PRINTs STR$ of it, reads the printed text back through INPUT and
through VAL, and PRINTs what it got.  A second program READs the printed texts
from DATA.  The texts are judged by the exact-rational predicates of
qv/ref/numtext.py."""
from .. import impl, textdrv
from .. import c16_values as V
from ..ref import numtext

LEVEL = 'exploration'

SUFFIX = {'INTEGER': '%', 'LONG': '&', 'SINGLE': '!', 'DOUBLE': '#'}
READERS = ('INPUT', 'VAL', 'READ')


def loop_source(typ):
    t = SUFFIX[typ]
    entry = 'x! = RND(1)' if typ == 'SINGLE' else 'INPUT "", x' + t
    lines = ['DO', 'BEEP', entry,
             'PRINT x' + t,
             'PRINT STR$(x%s)' % t,
             'INPUT "", z' + t,
             'PRINT z' + t,
             'IF z%s = x%s THEN PRINT "=" ELSE PRINT "<>"' % (t, t),
             's$ = STR$(x%s)' % t,
             'v# = VAL(s$)',
             'y%s = v#' % t,
             'PRINT y' + t,
             'IF y%s = x%s THEN PRINT "=" ELSE PRINT "<>"' % (t, t),
             'LOOP']
    return '\n'.join(lines) + '\n'


def read_source(typ, texts, per_line=40):
    t = SUFFIX[typ]
    lines = ['DO', 'BEEP', 'INPUT "", m%', 'IF m% = 0 THEN', 'READ r' + t, 'PRINT r' + t,
             'ELSE', 'READ d$', 'END IF', 'LOOP']
    for i in range(0, len(texts), per_line):
        lines.append('DATA ' + ', '.join(texts[i:i + per_line]))
    return '\n'.join(lines) + '\n'


_MODULES = {}


def loop_module(typ, cfg=(0, False)):
    key = (typ, cfg)
    if key not in _MODULES:
        r = impl.compile_text(loop_source(typ), cfg[0], cfg[1], want_listing=False)
        if not r.ok:
            raise RuntimeError('C16 loop program rejected: ' + r.brief())
        _MODULES[key] = impl.load(r.binary)
    return _MODULES[key]


def entry_text(typ, x):
    return repr(x) if typ == 'DOUBLE' else str(x)


def _readback_answer(rec):
    # what a user would type: the text PRINT showed for the value
    prev = rec['seg'][-2]
    return prev.split('\r\n')[0]


def observe(typ, values, cfg=(0, False)):
    """-> list of dicts per value: print, str, readers{INPUT,VAL}=(outcome, text, eqflag)"""
    its = []
    for x in values:
        if typ == 'SINGLE':
            its.append({'rnd': [x], 'inputs': [_readback_answer], 'fallback': '0'})
        else:
            its.append({'inputs': [entry_text(typ, x), _readback_answer], 'fallback': '0'})
    recs, info = textdrv.drive(loop_module(typ, cfg), its, tick_budget=5000)
    out = []
    for x, r in zip(values, recs):
        o = {'value': x, 'print': None, 'str': None, 'INPUT': ('not-reached',), 'VAL': ('not-reached',),
             'end': None, 'entry_rejected': False}
        out.append(o)
        if r is None:
            o['end'] = ('not-run', info.get('aborted'))
            continue
        o['end'] = r['end']
        segs = r['seg']
        k = 0 if typ == 'SINGLE' else 1          # segment holding PRINT x / PRINT STR$
        if len(segs) <= k:
            continue
        first = segs[k].split('\r\n')
        # an entry INPUT that was rejected shows up as 'Redo from start' before the prints
        if typ != 'SINGLE' and first and first[0].startswith('Redo'):
            o['entry_rejected'] = True
            continue
        if len(first) >= 1 and (len(first) > 1):
            o['print'] = first[0]
        if len(first) >= 3:
            o['str'] = first[1]
        if len(segs) <= k + 1:
            continue
        rest = ''.join(segs[k + 1:]).split('\r\n')
        rejected = r['extra'] > 0
        if rejected:
            rest = [l for l in rest if l != 'Redo from start']
        if len(rest) >= 3:
            o['INPUT'] = ('rejected',) if rejected else ('ok', rest[0], rest[1])
        elif r['end'] is not None:
            o['INPUT'] = ('died', r['end'])
        if len(rest) >= 5:
            o['VAL'] = ('ok', rest[2], rest[3])
        elif r['end'] is not None and len(rest) >= 3:
            o['VAL'] = ('died', r['end'])
    return out, info


_DATA_OK = set('0123456789.+-EeDd ')


def observe_read(typ, obs, cfg=(0, False)):
    """READ the printed texts back from DATA; fills o['READ']"""
    idx = [i for i, o in enumerate(obs) if o['print'] is not None and o['print'].strip()
           and set(o['print']) <= _DATA_OK]
    for o in obs:
        o['READ'] = ('not-reached',)
    if not idx:
        return {'machines': 0}
    texts = [obs[i]['print'].strip() for i in idx]
    r = impl.compile_text(read_source(typ, texts), cfg[0], cfg[1], want_listing=False)
    if not r.ok:
        for i in idx:
            obs[i]['READ'] = ('died', ('compile', r.brief()[:120]))
        return {'machines': 0}
    mod = impl.load(r.binary)
    its = [{'inputs': ['0'], 'skip': ['1']} for _ in idx]
    recs, info = textdrv.drive(mod, its, tick_budget=5000, snapshots=True)
    for i, rec in zip(idx, recs):
        if rec is None:
            obs[i]['READ'] = ('died', ('not-run', info.get('aborted')))
        elif rec['end'] is not None:
            obs[i]['READ'] = ('died', rec['end'])
        else:
            lines = ''.join(rec['seg'][1:]).split('\r\n')
            obs[i]['READ'] = ('ok', lines[0], None)
    return info


def _outcome(end):
    if end is None:
        return 'none'
    if end[0] == 'trap':
        return 'trap:%s' % end[1]
    if end[0] == 'hostexc':
        return 'hostexc:%s' % end[1]
    return str(end[0])


def magnitude_class(typ, x):
    """input-side class of the magnitude (for the feature record)"""
    a = abs(x)
    if typ in ('INTEGER', 'LONG'):
        return 'int'
    if a == 0:
        return 'zero'
    if a < 1e-4:
        return '<1e-4'
    if a < 1:
        return '<1'
    if a < 1e7:
        return '<1e7'
    if a < 1e9:
        return '<1e9'
    if a < 1e16:
        return '<1e16'
    return '>=1e16'


def judge(typ, o, partner):
    """-> list of (divergence, reader, outcome, expected, observed, notation)"""
    x = o['value']
    bad = []
    if o['entry_rejected'] or o['print'] is None or o['str'] is None:
        bad.append(('no-text', '-', _outcome(o['end']) if not o['entry_rejected'] else 'entry-rejected',
                    'PRINT and STR$ text', impl.jsonable(o['end']), 'none'))
        return bad, None
    ptxt, stxt = o['print'], o['str']
    notation = 'none'
    num = None
    if typ in ('INTEGER', 'LONG'):
        exp = numtext.int_text(x)
        notation = 'plain-int'
        if stxt != exp:
            bad.append(('int-text', 'STR$', 'differs', exp, stxt, notation))
        if ptxt != exp + ' ':
            bad.append(('int-text', 'PRINT', 'differs', exp + ' ', ptxt, notation))
    else:
        clauses, num, info = numtext.judge_float_text(stxt, x, typ)
        notation = num.notation if num else 'none'
        o['strict_ok'] = info.get('strict_half_unit', True)
        o['sig'] = info.get('sig_digits')
        for c in clauses:
            bad.append((c, 'STR$', 'differs',
                        'decimal numeral, <= %d significant digits, within half a unit of the last shown digit of %r'
                        % (numtext.MAXDIGITS[typ], x), stxt, notation))
        if not numtext.same_digits(ptxt, stxt) or (ptxt.startswith('-') != stxt.startswith('-')):
            bad.append(('print-str-differ', 'PRINT', 'differs', stxt, ptxt, notation))
    o['notation'] = notation
    if partner is not None and partner['str'] is not None:
        if not numtext.same_digits(stxt, partner['str']):
            bad.append(('negation-differs', 'STR$', 'differs', partner['str'], stxt, notation))
    for rd in READERS:
        res = o.get(rd, ('not-reached',))
        if res[0] == 'ok':
            txt, eq = res[1], res[2]
            if txt != ptxt.rstrip('\r\n') and txt != ptxt:
                bad.append(('readback', rd, 'differs', ptxt, txt, notation))
            elif typ in ('INTEGER', 'LONG') and eq is not None and eq != '=':
                bad.append(('readback', rd, 'unequal', '=', eq, notation))
        elif res[0] == 'rejected':
            bad.append(('readback', rd, 'rejected', 'text accepted and value reproduced', 'Redo from start', notation))
        elif res[0] == 'died':
            bad.append(('readback', rd, _outcome(res[1]), 'value reproduced', impl.jsonable(res[1]), notation))
        else:
            o['unjudged'] = o.get('unjudged', 0) + 1      # an earlier step of the iteration died
    return bad, num


def signed_values(typ, mags):
    """each magnitude with its negation next to it; -> list of (value, partner index or None)"""
    out = []
    top = {'INTEGER': 32768, 'LONG': 2 ** 31}.get(typ)
    for m in mags:
        if typ in ('INTEGER', 'LONG'):
            if m == 0:
                out.append((0, None))
            elif m == top:
                out.append((-m, None))
            else:
                out.append((m, len(out) + 1))
                out.append((-m, len(out) - 1))
        else:
            out.append((m, len(out) + 1))
            out.append((-m, len(out) - 1))
    return out


def eval_values(typ, mags, cfg=(0, False), fam=None, st=None):
    sv = signed_values(typ, mags)
    values = [v for v, _ in sv]
    obs, info = observe(typ, values, cfg)
    rinfo = observe_read(typ, obs, cfg)
    viol = []
    for i, o in enumerate(obs):
        partner = obs[sv[i][1]] if sv[i][1] is not None else None
        bad, num = judge(typ, o, partner)
        if st is not None:
            st['evaluations'] += 1
            if o['print'] is not None:
                st['texts'].add(o['print'])
                st['nontrivial'] += 1
            st['notations'][typ + '/' + o.get('notation', 'none')] = \
                st['notations'].get(typ + '/' + o.get('notation', 'none'), 0) + 1
            if o.get('strict_ok') is False:
                st['strict_reading_fails'] += 1
            st['readers_not_reached'] += o.get('unjudged', 0)
            for rd in READERS:
                if o.get(rd, ('x',))[0] == 'ok':
                    st['readbacks_ok'][rd] = st['readbacks_ok'].get(rd, 0) + 1
        x = o['value']
        for div, reader, outcome, exp, got, notation in bad:
            feat = {'family': typ, 'divergence': div, 'reader': reader, 'outcome': outcome,
                    'notation': notation, 'magnitude': magnitude_class(typ, x)}
            case = {'type': typ, 'value': entry_text(typ, x) if typ != 'SINGLE' else repr(x),
                    'hex': x.hex() if isinstance(x, float) else None,
                    'config': list(cfg), 'class': fam, 'print': o['print'], 'str': o['str']}
            viol.append((feat, case, exp, got, len(repr(abs(x)))))
    if st is not None:
        st['machines'] += info['machines'] + rinfo.get('machines', 0)
    return viol


def eval_chunk(chunk):
    impl.parse_cache(True)
    st = {'evaluations': 0, 'nontrivial': 0, 'texts': set(), 'notations': {}, 'strict_reading_fails': 0,
          'readbacks_ok': {}, 'machines': 0, 'readers_not_reached': 0, 'by_class': {}}
    viol = []
    for block in chunk:
        typ = block[0]
        mags = V.expand(block)
        key = typ + '/' + block[1]
        for i in range(0, len(mags), 500):
            part = mags[i:i + 500]
            before = st['evaluations']
            viol.extend(eval_values(typ, part, fam=block[1], st=st))
            st['by_class'][key] = st['by_class'].get(key, 0) + st['evaluations'] - before
    return viol, st


def space(tier):
    fams = {}
    fams['INTEGER'] = (V.int_blocks('INTEGER', tier), {'values': 'all 65536'})
    B = 4 if tier == 'quick' else 8
    fams['LONG'] = (V.int_blocks('LONG', tier),
                    {'classes': 'pow2 and pow10 with +-1, <=%d significant bits at every shift, '
                                '<=%d-digit decimals at every decimal exponent, limits' % (B, 3 if tier == 'quick' else 4)})
    for typ in ('SINGLE', 'DOUBLE'):
        dd = {'SINGLE': {'quick': '<=3 digits at every exponent', 'thorough': '<=4 digits at every exponent'},
              'DOUBLE': {'quick': '<=2 digits at every exponent, <=3 digits for 1e-8..1e18 (cut from 3 everywhere)',
                         'thorough': '<=3 digits at every exponent, <=4 digits for 1e-8..1e18 (cut from 4 everywhere)'}}
        fams[typ] = (V.float_blocks(typ, tier),
                     {'classes': {'special': 'zero, largest, smallest normal, subnormals, 1, 0.5, 0.1 with neighbours',
                                  'pow2': '2^k for every k, +-1 ulp',
                                  'pow10': 'nearest to 10^k for every k, +-1 ulp, 10^k +- one unit of the 9th digit',
                                  'mantissa': 'every value with <=%d significant mantissa bits at every exponent' % B,
                                  'decimal': dd[typ][tier],
                                  'boundary': '%s-digit patterns 10..0, 9..9, 9..95, 49..9, 50..01, 1234.. and the '
                                              'half-way points next to them at every decimal exponent: the values of the '
                                              'type just below and above' % '/'.join(map(str, V.BOUNDARY_DIGITS[typ]))},
                      'negation': 'every magnitude also negated'})
    return fams


def run(chk):
    fams = space(chk.tier)
    desc = {}
    for name, (blocks, d) in fams.items():
        if chk.only and name not in chk.only:
            chk.cov['exhaustive'] = False
            continue
        d = dict(d)
        d['blocks'] = len(blocks)
        desc[name] = d
        for viol, st in chk.pmap(eval_chunk, blocks, chunk=1):
            chk.add_violations(viol)
            chk.merge_stats(st)
    for typ, x in (('INTEGER', -32768), ('SINGLE', 1e-10), ('DOUBLE', 0.1), ('LONG', 2 ** 31 - 1)):
        if chk.only and typ not in chk.only:
            continue
        if typ == 'SINGLE':
            x = V.nearest(V.Fraction(1, 10 ** 10), 'SINGLE')
        obs, _ = observe(typ, [x])
        observe_read(typ, obs)
        chk.sample({'type': typ, 'value': repr(x), 'print': obs[0]['print'], 'str': obs[0]['str'],
                    'INPUT': impl.jsonable(obs[0]['INPUT']), 'VAL': impl.jsonable(obs[0]['VAL']),
                    'READ': impl.jsonable(obs[0]['READ'])})
    chk.cov['distinct_nontrivial'] = len(chk.cov.get('_sets', {}).get('texts', ()))
    chk.cov.pop('nontrivial', None)
    chk.assumptions = [
        'value sets are the structured sets listed per family (no random bit patterns); nothing is claimed outside them',
        'SINGLE values enter through the RND device answer, LONG/DOUBLE through INPUT of str()/repr() of the value',
        'for a plain numeral without fraction, trailing zeros are read as place holders (lenient reading); '
        'the number of cases where the strict reading would fail is reported as strict_reading_fails',
        'one configuration (O0, no debug info): the conversions are run-time library code']
    chk.finish(
        rule=('every value of every block (and its negation) is one evaluation: PRINT, STR$, INPUT/VAL/READ of the '
              'printed text on the real VM, judged by exact-rational predicates; distinct_nontrivial = number of '
              'distinct printed texts (each value that produced a text reached number formatting)'),
        extra_cov={'families': desc, 'distinct_outcomes': chk.cov['distinct_nontrivial']})


def replay(rec):
    c = rec['case']
    typ = c['type']
    x = float.fromhex(c['hex']) if c.get('hex') else int(c['value'])
    cfg = tuple(c.get('config', (0, False)))
    print('--- program ---')
    print(loop_source(typ))
    mags = [abs(x)]
    viol = eval_values(typ, mags, cfg)
    want = rec['features']
    hit = 0
    sv = signed_values(typ, mags)
    obs, _ = observe(typ, [v for v, _ in sv], cfg)
    observe_read(typ, obs, cfg)
    for o in obs:
        print('value %r: PRINT %r STR$ %r INPUT %r VAL %r READ %r' % (
            o['value'], o['print'], o['str'], o['INPUT'], o['VAL'], o['READ']))
    for feat, case, exp, got, size in viol:
        if all(feat.get(k) == v for k, v in want.items()) and case['value'] == c['value']:
            print('expected:', exp)
            print('observed:', got)
            hit = 1
    print('VIOLATES' if hit else 'no longer violates')
    return hit
