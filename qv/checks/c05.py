"""C05 - static errors are rejected at compile time with a located diagnostic.

Fault enumeration (DESIGN section 4, C05): every variant of the fault
catalogue (qv/c05_catalog.py, rules R01..R26) is injected, one at a time,
into the slot of every base program (context) where it is applicable, and
compiled in the six configurations.

Oracle
 (i)   the un-faulted twin compiles in all 6 configurations, and so does the
       twin with an unrelated valid construct added elsewhere;
 (ii)  the faulted text raises SyntaxError / CompileError in all 6;
 (iii) the category is the rule's ErrorCode where the repository has one;
 (iv)  the reported position is an offset inside the text, on the source line
       of the offending construct; qbee.utils.display_with_context (what the
       command line calls on every rejection) must not raise.
Where the same text is *legal* in a context (EXIT FOR inside FOR, CASE inside
SELECT CASE, DATA at module level ...) it is a further twin: it must compile.
"""
import hashlib
import io
import sys

from .. import impl
from .. import c05_catalog as cat

LEVEL = 'fault_enumeration'

try:
    from qbee.utils import display_with_context as _display
except Exception:                                     # pragma: no cover
    _display = None


def line_of(text, loc):
    return text.count('\n', 0, loc) + 1


def _display_ok(text, loc, msg):
    """what qbee/main.py does with a rejection; -> None or the exception name"""
    if _display is None:
        return None
    old = sys.stderr
    sys.stderr = io.StringIO()
    try:
        with impl.time_limit(5.0):
            _display(text, loc_start=loc, msg=msg or 'Error')
        return None
    except impl.Timeout:
        return 'Timeout'
    except KeyboardInterrupt:
        raise
    except BaseException as e:
        return type(e).__name__
    finally:
        sys.stderr = old


def category(r):
    if r.kind == 'syntax':
        return 'SYNTAX'
    if r.kind == 'compile':
        return r.err_code
    if r.kind == 'crash':
        return 'crash:' + str(r.exc)
    return r.kind


def _compile(text, o, g, **kw):
    """one compile; a timeout is re-tried once with a long limit, because on a
    loaded machine the first parse in a worker (grammar warm-up) can take longer
    than the normal limit - only a text that is slow twice is reported"""
    r = impl.compile_text(text, o, g, limit=20.0, **kw)
    if r.kind == 'timeout':
        r = impl.compile_text(text, o, g, limit=180.0, **kw)
    return r


def judge_fault(text, ok_lines, codes):
    """-> (list of (divergence, observed-category, cfg, brief), categories seen)"""
    bad = []
    cats = set()
    nlines = text.count('\n') + 1
    for o, g in impl.CONFIGS:
        cfg = 'O%d%s' % (o, 'g' if g else '')
        r = _compile(text, o, g)
        c = category(r)
        cats.add(c)
        if r.kind == 'ok':
            bad.append(('accepted', c, cfg, r.brief()))
            continue
        if r.kind not in ('syntax', 'compile'):
            bad.append(('internal-error', c, cfg, r.brief()))
            continue
        if codes is not None and c not in codes:
            bad.append(('wrong-category', c, cfg, r.brief()))
        loc = r.loc
        if loc is None or not isinstance(loc, int) or isinstance(loc, bool) or \
                loc < 0 or loc > len(text):
            bad.append(('no-position', c, cfg, r.brief()))
            continue
        ln = line_of(text, loc)
        if ln not in ok_lines:
            bad.append(('wrong-line', c, cfg, r.brief() + ' [line %d of %d, expected %s]'
                        % (ln, nlines, sorted(ok_lines))))
        exc = _display_ok(text, loc, r.msg)
        if exc is not None:
            bad.append(('display-error', c, cfg, r.brief() + ' display_with_context raised ' + exc))
    return bad, cats


def judge_valid(text):
    bad = []
    for o, g in impl.CONFIGS:
        cfg = 'O%d%s' % (o, 'g' if g else '')
        r = _compile(text, o, g, want_listing=False)
        if r.kind != 'ok':
            bad.append(('valid-rejected' if r.kind in ('syntax', 'compile') else 'internal-error',
                        category(r), cfg, r.brief()))
    return bad


# ---------------------------------------------------------------------------
# cases

def context_of(spec):
    name, base, outer = spec
    return cat.make_context(name, base, outer)


def materialise(item):
    """item = (family, ctx_spec, (rule, name), mode, unrelated_index)
    -> dict(text, expect 'reject'|'accept', ok_lines, codes, ctx, variant)"""
    fam, spec, key, mode, ui = item
    ctx = context_of(spec)
    v = cat.BY_KEY[key]
    un = cat.UNRELATED[ui] if ui is not None else None
    app = v.applies(ctx)
    if mode == 'good':
        text, parts = cat.build(ctx, v, 'good', un)
        return {'text': text, 'expect': 'accept', 'ctx': ctx, 'v': v, 'role': 'twin'}
    text, parts = cat.build(ctx, v, 'bad', un)
    if app == 'valid':
        return {'text': text, 'expect': 'accept', 'ctx': ctx, 'v': v, 'role': 'legal-here'}
    return {'text': text, 'expect': 'reject', 'ctx': ctx, 'v': v, 'role': 'fault',
            'ok_lines': sorted(cat.ok_lines(ctx, v, parts)), 'codes': v.codes_in(ctx)}


def features(fam, ctx, v, role, un, div, observed, cfgs):
    outer, _, inner = ctx.name.rpartition('/')
    return {'family': fam, 'rule': v.rule, 'variant': v.name, 'construct': v.construct(ctx),
            'context': ctx.name,
            'ctx_inner': inner, 'ctx_outer': outer or None, 'scope': ctx.scope,
            'base': ctx.base, 'role': role, 'unrelated': un, 'divergence': div,
            'observed': observed, 'configs': 'all' if len(cfgs) == 6 else ','.join(sorted(cfgs))}


def eval_chunk(chunk):
    impl.parse_cache(True)
    viol = []
    st = {'evaluations': 0, 'compiles': 0, 'faulted': 0, 'must_compile': 0,
          'outcomes': set(), 'nontrivial': set(), 'rejected_as_required': 0,
          'by_rule': {}, 'by_context': {}}
    for item in chunk:
        fam, spec, key, mode, ui = item
        m = materialise(item)
        ctx, v, text = m['ctx'], m['v'], m['text']
        un = cat.UNRELATED[ui][0] if ui is not None else None
        st['evaluations'] += 1
        st['compiles'] += 6
        if m['expect'] == 'accept':
            st['must_compile'] += 1
            bad = judge_valid(text)
            st['outcomes'].add((v.rule, m['role'], 'rejected' if bad else 'ok'))
            expected = 'compiles in all 6 configurations (%s)' % m['role']
        else:
            st['faulted'] += 1
            st['by_rule'][v.rule] = st['by_rule'].get(v.rule, 0) + 1
            st['by_context'][ctx.name if fam != 'pairs' else 'pairs'] = \
                st['by_context'].get(ctx.name if fam != 'pairs' else 'pairs', 0) + 1
            bad, cats = judge_fault(text, set(m['ok_lines']), m['codes'])
            for c in cats:
                st['outcomes'].add((v.rule, 'fault', c))
            if not any(b[0] in ('accepted', 'internal-error') for b in bad):
                st['nontrivial'].add(hashlib.sha1(text.encode()).hexdigest()[:16])
            if not bad:
                st['rejected_as_required'] += 1
            expected = ('Syntax/CompileError in all 6 configurations, category in %s, position on line %s'
                        % (list(m['codes']) if m['codes'] else 'any', m['ok_lines']))
        if not bad:
            continue
        groups = {}
        for div, obs, cfg, brief in bad:
            groups.setdefault((div, obs), []).append((cfg, brief))
        for (div, obs), lst in sorted(groups.items()):
            feat = features(fam, ctx, v, m['role'], un, div, obs, [c for c, _ in lst])
            case = {'text': text, 'expect': m['expect'], 'ok_lines': m.get('ok_lines'),
                    'codes': list(m['codes']) if m.get('codes') else None,
                    'item': [fam, list(spec), list(key), mode, ui]}
            viol.append((feat, case, expected, [b for _, b in lst][:2], len(text)))
    return viol, st


# ---------------------------------------------------------------------------
# the space

def _specs_single(base):
    return [(n, base, None) for n in cat.SINGLE_CONTEXTS]


QUICK_PAIR_OUTER = ['function', 'select']


def _specs_pairs(base, outers=None):
    out = []
    for o in (outers or cat.PAIR_OUTER):
        for i in cat.PAIR_INNER:
            out.append((i, base, o))
    return out


def _fault_and_twin_items(fam, specs, seen_valid):
    """all applicable (context, variant): the faulted program, and its twin
    (twins / legal-here programs are de-duplicated by text)"""
    faults, valids = [], []
    napp = 0
    for spec in specs:
        ctx = context_of(spec)
        for v in cat.VARIANTS:
            app = v.applies(ctx)
            if app is None:
                continue
            napp += 1
            key = (v.rule, v.name)
            bad_item = (fam, spec, key, 'bad', None)
            if app == 'bad':
                faults.append(bad_item)
            else:
                t, _ = cat.build(ctx, v, 'bad')
                if t not in seen_valid:
                    seen_valid.add(t)
                    valids.append(bad_item)
            t, _ = cat.build(ctx, v, 'good')
            if t not in seen_valid:
                seen_valid.add(t)
                valids.append((fam, spec, key, 'good', None))
    return faults, valids, napp


def space(tier):
    fams = []
    seen = set()
    f1, v1, n1 = _fault_and_twin_items('single', _specs_single('b1'), seen)
    fams.append(('single', f1 + v1, {'contexts': cat.SINGLE_CONTEXTS, 'base': 'b1',
                                     'applicable_pairs': n1, 'faulted': len(f1), 'must_compile': len(v1)}))
    # twin + unrelated construct elsewhere
    un = []
    seen_u = set()
    nu = len(cat.UNRELATED)
    nun = nu if tier == 'thorough' else 2
    twins = [it for it in v1 if it[3] == 'good']
    for k, it in enumerate(twins):
        for j in range(nun):
            # quick: 2 of the 10 constructs per twin, rotating with the twin index
            ui = j if tier == 'thorough' else (k + 5 * j) % nu
            m = materialise((it[0], it[1], it[2], 'good', ui))
            if m['text'] not in seen_u:
                seen_u.add(m['text'])
                un.append(('unrelated', it[1], it[2], 'good', ui))
    fams.append(('unrelated', un, {'constructs': [u[0] for u in cat.UNRELATED],
                                   'per_twin': nun, 'twins': len(twins)}))
    f2, v2, n2 = _fault_and_twin_items('base2', _specs_single('b2'), seen)
    fams.append(('base2', f2 + v2, {'contexts': cat.SINGLE_CONTEXTS, 'base': 'b2',
                                    'applicable_pairs': n2, 'faulted': len(f2), 'must_compile': len(v2)}))
    # pairs of contexts: quick nests every inner context in a FUNCTION and in a CASE body,
    # thorough in all ten outer contexts
    outers = cat.PAIR_OUTER if tier == 'thorough' else QUICK_PAIR_OUTER
    f3, v3, n3 = _fault_and_twin_items('pairs', _specs_pairs('b1', outers), seen)
    fams.append(('pairs', f3 + v3, {'outer': outers, 'inner': cat.PAIR_INNER, 'base': 'b1',
                                    'applicable_pairs': n3, 'faulted': len(f3), 'must_compile': len(v3)}))
    if tier == 'thorough':
        # the fault must still be reported when an unrelated construct is added
        fu = []
        for it in f1:
            for ui in (1, 6):
                fu.append(('fault+unrelated', it[1], it[2], 'bad', ui))
        fams.append(('fault+unrelated', fu, {'constructs': [cat.UNRELATED[1][0], cat.UNRELATED[6][0]]}))
    return fams


def run(chk):
    fams = space(chk.tier)
    desc = {}
    for name, items, d in fams:
        if chk.only and name not in chk.only:
            chk.cov['exhaustive'] = False
            continue
        d = dict(d)
        d['cases'] = len(items)
        desc[name] = d
        # neighbouring items share context and declarations: keep them together
        for viol, st in chk.pmap(eval_chunk, items, chunk=40):
            chk.add_violations(viol)
            chk.merge_stats(st)
        for it in (items[0], items[len(items) // 2], items[-1]):
            m = materialise(it)
            chk.sample({'family': name, 'context': m['ctx'].name, 'rule': m['v'].rule,
                        'variant': m['v'].name, 'expect': m['expect'], 'text': m['text']})
    sets = chk.cov.get('_sets', {})
    chk.cov['distinct_nontrivial'] = len(sets.get('nontrivial', ()))
    outcomes = sorted(sets.get('outcomes', ()))
    chk.cov['outcome_classes'] = ['%s/%s/%s' % o for o in outcomes][:400]
    chk.assumptions = [
        'the catalogue (qv/c05_catalog.py) is the definition of "static rule violation": 26 rules, %d variants; '
        'nothing is claimed for violations outside it' % len(cat.VARIANTS),
        'base programs are the listed contexts (two bases per context, pairs of contexts in the thorough tier)',
        'for block-structure rules (R15-R19) inside nested blocks any block line of the enclosing context '
        'is an acceptable position, because which block is the unclosed one is not decidable',
        'per-line parse memo is byte-identical to re-parsing (conformance slice in C20/C02)',
    ]
    chk.finish(
        rule=('every applicable (context, variant) pair: faulted program and un-faulted twin, each compiled in '
              'the 6 configurations (O0..2 x -g); non-trivial = distinct faulted text that the compiler rejected '
              'with a diagnostic in all 6 configurations (the checks under test were reached); '
              'outcomes = distinct (rule, role, category) classes'),
        extra_cov={'families': desc, 'rules': sorted(set(v.rule for v in cat.VARIANTS)),
                   'variants': len(cat.VARIANTS),
                   'configs': ['O%d%s' % (o, 'g' if g else '') for o, g in impl.CONFIGS],
                   'distinct_outcomes': len(outcomes)})


def replay(rec):
    case = rec['case']
    text = case['text']
    print('--- program ---')
    for i, l in enumerate(text.split('\n')[:-1], 1):
        print('%3d  %s' % (i, l))
    print('--- expected ---')
    print(rec.get('expected'))
    print('--- observed ---')
    for o, g in impl.CONFIGS:
        r = impl.compile_text(text, o, g)
        extra = ''
        if r.kind in ('syntax', 'compile') and isinstance(r.loc, int) and 0 <= r.loc <= len(text):
            extra = '  [line %d]' % line_of(text, r.loc)
        print('O%d g=%-5s %s%s' % (o, g, r.brief(), extra))
    if case['expect'] == 'accept':
        bad = judge_valid(text)
    else:
        bad, _ = judge_fault(text, set(case['ok_lines']), case['codes'])
    want = rec.get('features', {}).get('divergence')
    still = [b for b in bad if want is None or b[0] == want]
    for b in bad:
        print('DIVERGENCE', b[0], b[1], b[2])
    if still:
        print('STILL VIOLATES')
        return 1
    print('no longer violates')
    return 0
