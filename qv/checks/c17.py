"""C17 - PRINT lays out items, print zones and line ends as QBASIC prescribes.

Exhaustive enumeration of all grammatical element sequences (items and
separators) up to a length bound; every sequence is compiled as a PRINT
statement by the real compiler, executed on the real VM, and the text handed to
`terminal_print` is compared with the specification model `qv.ref.printfmt`.
On the short sequences the same element sequence is additionally produced in
4 ways x 5 statement positions x 6 compiler configurations, which must all give
the model's text (hence agree with each other)."""
from .. import impl
from ..ref import printfmt

LEVEL = 'exploration'

S13 = 'ABCDEFGHIJKLM'
S14 = 'ABCDEFGHIJKLMN'
S15 = 'ABCDEFGHIJKLMNO'
S30 = 'ABCDEFGHIJKLMNOPQRSTUVWXYZabcd'

# code, element, literal, variable, expression, function call
ITEMS = [
    ('i', ('INTEGER', 5), '5', 'va%', '2 + 3', 'ua%(0)'),
    ('n', ('INTEGER', -5), '-5', 'vb%', '2 - 7', 'ub%(0)'),
    ('l', ('LONG', 100000), '100000', 'vc&', '50000 + 50000', 'uc&(0)'),
    ('s', ('SINGLE', 1.5), '1.5', 'vd!', '.5 + 1', 'ud!(0)'),
    ('d', ('DOUBLE', 1.5), '1.5#', 've#', '.5# + 1', 'ue#(0)'),
    ('S0', ('STRING', ''), '""', 'vf$', '"" + ""', 'uf$(0)'),
    ('S2', ('STRING', 'ab'), '"ab"', 'vg$', '"a" + "b"', 'ug$(0)'),
    ('S13', ('STRING', S13), '"%s"' % S13, 'vh$', '"%s" + "M"' % S13[:-1], 'uh$(0)'),
    ('S14', ('STRING', S14), '"%s"' % S14, 'vi$', '"%s" + "N"' % S14[:-1], 'ui$(0)'),
    ('S15', ('STRING', S15), '"%s"' % S15, 'vj$', '"%s" + "O"' % S15[:-1], 'uj$(0)'),
    ('S30', ('STRING', S30), '"%s"' % S30, 'vk$', '"%s" + "d"' % S30[:-1], 'uk$(0)'),
]
NI = len(ITEMS)
SEMI, COMMA = NI, NI + 1
WAYS = ['literal', 'variable', 'expression', 'function']
POSITIONS = ['module', 'sub', 'if', 'for', 'colon']
MAIN_CFGS_Q = [(0, False), (2, True)]
SUB5 = [0, 3, 5, 6, 8]           # thorough, length 7: INTEGER 5, SINGLE 1.5, "", "ab", 14 characters


def sequences(length, items=range(NI)):
    """all grammatical element sequences of exactly `length` (no two items adjacent)"""
    items = list(items)

    def rec(prefix, last_item):
        if len(prefix) == length:
            yield tuple(prefix)
            return
        if not last_item:
            for i in items:
                prefix.append(i)
                yield from rec(prefix, True)
                prefix.pop()
        for s in (SEMI, COMMA):
            prefix.append(s)
            yield from rec(prefix, False)
            prefix.pop()
    return rec([], False)


def elements(seq):
    return [';' if e == SEMI else ',' if e == COMMA else ITEMS[e][1] for e in seq]


def kinds(seq):
    return ''.join(';' if e == SEMI else ',' if e == COMMA else
                   ('N' if ITEMS[e][1][0] != 'STRING' else ITEMS[e][0]) for e in seq)


def stmt_text(seq, way):
    col = 2 + WAYS.index(way)
    parts = []
    for e in seq:
        if e == SEMI:
            parts.append(';')
        elif e == COMMA:
            parts.append(',')
        else:
            parts.append(' ' + ITEMS[e][col])
    return ('PRINT' + ''.join(parts)).rstrip() if parts else 'PRINT'


def _assignments():
    return ['%s = %s' % (it[3], it[2]) for it in ITEMS]


def _functions():
    out = []
    for it in ITEMS:
        name = it[5][:-3]
        out += ['FUNCTION %s (dm%%)' % name, '%s = %s' % (name, it[2]), 'END FUNCTION']
    return out


def program(seqs, way, position):
    """source with one PRINT per sequence, each preceded by BEEP; a final BEEP closes the last"""
    stmts = [stmt_text(s, way) for s in seqs]
    body = []
    for st in stmts:
        if position in ('module', 'sub'):
            body += ['BEEP', st]
        elif position == 'colon':
            body += ['BEEP: ' + st]
        elif position == 'if':
            body += ['BEEP', 'IF kk% THEN ' + st]
        elif position == 'for':
            body += ['FOR ii% = 1 TO 1', 'BEEP', st, 'NEXT']
    body.append('BEEP')
    pre = []
    if way == 'variable':
        pre += _assignments()
    if position == 'if':
        pre.append('kk% = 1')
    if position == 'sub':
        lines = ['CALL body', 'END', 'SUB body'] + pre + body + ['END SUB']
    else:
        lines = pre + body + ['END']
    if way == 'function':
        lines += _functions()
    return '\n'.join(lines) + '\n'


def observe(src, nstmts, cfg):
    """-> (status, texts, typed) ; texts[i] = what statement i printed"""
    o, g = cfg
    r = impl.compile_text(src, o, g, want_listing=False)
    if not r.ok:
        return ('compile:' + r.brief()[:160], None, None)
    try:
        mod = impl.load(r.binary)
    except ValueError as e:
        return ('load:' + str(e)[:100], None, None)
    env = impl.Env({})
    out, _ = impl.run_module(mod, env, horizon=400 * (nstmts + 20) + 2000, typed_prints=True)
    texts = []
    cur = None
    for ev in out.events:
        if ev[0] == 'dev' and ev[1:3] == ('pcspkr', 'beep'):
            if cur is not None:
                texts.append(cur)
            cur = ''
        elif ev[0] == 'print' and cur is not None:
            cur += ev[1]
    status = 'ok'
    if out.end not in ('halt', 'eoc') or len(texts) != nstmts:
        status = 'run:%s/%s/%s' % (out.end, out.trap or out.exc, len(texts))
    return (status, texts, out.prints)


def _same_items(typed, elems):
    if typed is None or len(typed) != len(elems):
        return False
    for t, e in zip(typed, elems):
        if isinstance(e, str):
            if t != e:
                return False
        elif not (isinstance(t, tuple) and t[0] == e[0] and t[1] == e[1] and type(t[1]) is type(e[1])):
            return False
    return True


def cfgname(cfg):
    return 'O%d%s' % (cfg[0], 'g' if cfg[1] else '')


def judge_one(seq, way, position, cfg):
    """single-statement program; -> None if fine else (divergence, expected, observed, src)"""
    src = program([seq], way, position)
    status, texts, typed = observe(src, 1, cfg)
    exp = printfmt.layout(elements(seq))
    if status != 'ok':
        return ('outcome', exp, status, src)
    if not _same_items(typed[0] if typed else None, elements(seq)):
        return ('items', elements(seq), typed[0] if typed else None, src)
    got = printfmt.normalise(texts[0])
    if got != exp:
        return ('layout', exp, got, src)
    return None


def eval_chunk(chunk):
    impl.parse_cache(True)
    viol = []
    st = {'evaluations': 0, 'programs': 0, 'nontrivial': 0, 'texts': set(), 'item_mismatch': 0,
          'fallback_single': 0, 'zone_pads': 0}
    for fam, way, position, cfgs, seqs in chunk:
        src = program(seqs, way, position)
        exps = [printfmt.layout(elements(s)) for s in seqs]
        for cfg in cfgs:
            st['programs'] += 1
            status, texts, typed = observe(src, len(seqs), cfg)
            bad = []
            if status != 'ok':
                bad = list(range(len(seqs)))      # decide statement by statement
                st['fallback_single'] += 1
            else:
                for i, s in enumerate(seqs):
                    if not _same_items(typed[i] if i < len(typed) else None, elements(s)) or \
                            printfmt.normalise(texts[i]) != exps[i]:
                        bad.append(i)
                    else:
                        st['texts'].add(exps[i])
            st['evaluations'] += len(seqs)
            dup = fam == 'variants' and way == 'literal' and position == 'module' and cfg in MAIN_CFGS_Q
            for i, s in enumerate(seqs):
                if len(s) >= 2 and any(e < NI for e in s) and not dup:
                    st['nontrivial'] += 1
                if COMMA in s:
                    st['zone_pads'] += 1
            for i in bad:
                v = judge_one(seqs[i], way, position, cfg)
                alone = True
                if v is None and status == 'ok':
                    # differs only inside the packed program: keep the packed program as the case
                    alone = False
                    got = printfmt.normalise(texts[i]) if i < len(texts) else None
                    v = ('layout-in-sequence', exps[i], got, src)
                if v is None:
                    continue
                div, exp, got, vsrc = v
                if div == 'items':
                    st['item_mismatch'] += 1
                feat = {'family': fam, 'divergence': div, 'kinds': kinds(seqs[i]),
                        'way': way, 'position': position, 'config': cfgname(cfg)}
                case = {'seq': list(seqs[i]), 'way': way, 'position': position, 'config': list(cfg),
                        'source': vsrc, 'alone': alone, 'index': i if not alone else 0,
                        'nstmts': len(seqs) if not alone else 1,
                        'elements': impl.jsonable(elements(seqs[i]))}
                viol.append((feat, case, exp, got, len(seqs[i])))
    return viol, st


def _chunks(lst, n):
    return [lst[i:i + n] for i in range(0, len(lst), n)]


def space(tier):
    fams = {}
    maxlen = 5 if tier == 'quick' else 6
    seqs = []
    for n in range(0, maxlen + 1):
        seqs.extend(sequences(n))
    by_len = {}
    for s in seqs:
        by_len[len(s)] = by_len.get(len(s), 0) + 1
    main_cfgs = MAIN_CFGS_Q if tier == 'quick' else impl.CONFIGS
    items = [('sequences', 'literal', 'module', main_cfgs, c) for c in _chunks(seqs, 60)]
    fams['sequences'] = (items, {'item_alphabet': [impl.jsonable(it[1]) for it in ITEMS],
                                 'separators': [';', ','], 'max_len': maxlen,
                                 'cases_by_length': by_len, 'sequences': len(seqs),
                                 'configs': [cfgname(c) for c in main_cfgs]})
    if tier == 'thorough':
        s7 = list(sequences(7, SUB5))
        items7 = [('sequences7', 'literal', 'module', [(0, False)], c) for c in _chunks(s7, 60)]
        fams['sequences7'] = (items7, {'item_alphabet': [impl.jsonable(ITEMS[i][1]) for i in SUB5],
                                       'len': 7, 'sequences': len(s7), 'configs': ['O0']})
    short = [s for s in seqs if len(s) <= 3]
    vitems = []
    for way in WAYS:
        for position in POSITIONS:
            # (compile time is quadratic in the number of FOR blocks of a program)
            for c in _chunks(short, 16 if position == 'for' else 111):
                vitems.append(('variants', way, position, impl.CONFIGS, c))
    fams['variants'] = (vitems, {'max_len': 3, 'sequences': len(short), 'ways': WAYS,
                                 'positions': POSITIONS,
                                 'configs': [cfgname(c) for c in impl.CONFIGS]})
    return fams


def run(chk):
    fams = space(chk.tier)
    desc = {}
    for name, (items, d) in fams.items():
        if chk.only and name not in chk.only:
            chk.cov['exhaustive'] = False
            continue
        d = dict(d)
        d['programs'] = sum(len(it[3]) for it in items)
        desc[name] = d
        for viol, st in chk.pmap(eval_chunk, items, chunk=1):
            chk.add_violations(viol)
            chk.merge_stats(st)
        for it in (items[0], items[len(items) // 2], items[-1]):
            s = it[4][len(it[4]) // 2]
            chk.sample({'family': name, 'way': it[1], 'position': it[2],
                        'statement': stmt_text(s, it[1]),
                        'model_text': printfmt.layout(elements(s))})
    chk.cov['distinct_nontrivial'] = chk.cov.pop('nontrivial', 0)
    ntexts = len(chk.cov.get('_sets', {}).get('texts', ()))
    chk.assumptions = [
        'element sequences are bounded as listed per family; nothing is claimed for longer statements',
        'the column a PRINT starts in is taken as 0 (the property defines the text per statement)',
        'number texts of the 5 numeric items are constants of the model (C16 owns number to text)']
    chk.finish(
        rule=('every grammatical element sequence up to the bound is one PRINT statement, compiled and run '
              '(packed ~60-110 per program, separated by BEEP device calls); an evaluation = one statement in one '
              'configuration; non-trivial = the sequence has an item and at least two elements (the running column '
              'matters); distinct outcomes = distinct correct texts observed'),
        extra_cov={'families': desc, 'distinct_outcomes': ntexts})


def replay(rec):
    c = rec['case']
    cfg = tuple(c['config'])
    seq = tuple(c['seq'])
    exp = printfmt.layout(elements(seq))
    print('--- source (%s) ---' % cfgname(cfg))
    print(c['source'])
    status, texts, typed = observe(c['source'], c['nstmts'], cfg)
    i = c['index']
    got = printfmt.normalise(texts[i]) if texts and i < len(texts) else None
    print('elements :', elements(seq))
    print('status   :', status)
    print('typed    :', typed[i] if typed and i < len(typed) else None)
    print('expected :', repr(exp))
    print('observed :', repr(got))
    ok = status == 'ok' and got == exp and _same_items(typed[i], elements(seq))
    print('VIOLATES' if not ok else 'agrees with the model')
    return 0 if ok else 1
