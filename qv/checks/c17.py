"""C17 - PRINT lays out items, print zones and line ends as QBASIC prescribes.

Exhaustive enumeration of all grammatical element sequences (items and
separators) up to a length bound; every sequence is compiled as a PRINT
statement by the real compiler, executed on the real VM, and the text handed to
`terminal_print` is compared with the specification model `qv.ref.printfmt`.
On the short sequences the same element sequence is additionally produced in
4 ways x 5 statement positions x 6 compiler configurations, which must all give
the model's text (hence agree with each other).

Family `history` (qv/c17_hist.py) asks the other half of the statement - the
text does not depend on where the statement occurs: programs of one, two and
three PRINT statements over an alphabet of typed numbers in which the same
number occurs as INTEGER / LONG / SINGLE / DOUBLE with differing texts, run in
one machine; every statement must write the layout of its own items, the number
texts being taken from runs of the single item in a fresh process.

Process hygiene: the pool's worker processes live for the whole run, so state
kept at module level by qbee/qvm would leak from one case into the next and the
verdict of a case would depend on which cases the same worker happened to get
before.  Therefore nothing of qbee is executed in a worker itself: every job is
evaluated in a child forked for it (`isolated`), so the verdict of a job is a
function of the job alone; a violation found there is evaluated once more, on
its own, in another fresh child, and the case records whether it shows there
too (if not, the programs executed before it in the job are part of the case)."""
from .. import impl
from .. import c17_run, c17_hist
from ..c17_run import observe, isolated, cfgname
from ..ref import printfmt

LEVEL = 'exploration'

S13 = 'ABCDEFGHIJKLM'
S14 = 'ABCDEFGHIJKLMN'
S15 = 'ABCDEFGHIJKLMNO'
S30 = 'ABCDEFGHIJKLMNOPQRSTUVWXYZabcd'

# code, element, literal, variable, expression, function call
ITEMS = [
    ('i', ('INTEGER', 5), '5', 'va%', '2 + 3', 'ua%(0)'),
    ('n', ('INTEGER', -5), '-5', 'vb%', '2 - 7', 'ub%(0)'),
    ('l', ('LONG', 100000), '100000', 'vc&', '50000 + 50000', 'uc&(0)'),
    ('s', ('SINGLE', 1.5), '1.5', 'vd!', '.5 + 1', 'ud!(0)'),
    ('d', ('DOUBLE', 1.5), '1.5#', 've#', '.5# + 1', 'ue#(0)'),
    ('S0', ('STRING', ''), '""', 'vf$', '"" + ""', 'uf$(0)'),
    ('S2', ('STRING', 'ab'), '"ab"', 'vg$', '"a" + "b"', 'ug$(0)'),
    ('S13', ('STRING', S13), '"%s"' % S13, 'vh$', '"%s" + "M"' % S13[:-1], 'uh$(0)'),
    ('S14', ('STRING', S14), '"%s"' % S14, 'vi$', '"%s" + "N"' % S14[:-1], 'ui$(0)'),
    ('S15', ('STRING', S15), '"%s"' % S15, 'vj$', '"%s" + "O"' % S15[:-1], 'uj$(0)'),
    ('S30', ('STRING', S30), '"%s"' % S30, 'vk$', '"%s" + "d"' % S30[:-1], 'uk$(0)'),
]
NI = len(ITEMS)
SEMI, COMMA = NI, NI + 1
WAYS = ['literal', 'variable', 'expression', 'function']
POSITIONS = ['module', 'sub', 'if', 'for', 'colon']
MAIN_CFGS_Q = [(0, False), (2, True)]
SUB5 = [0, 3, 5, 6, 8]           # thorough, length 7: INTEGER 5, SINGLE 1.5, "", "ab", 14 characters


def sequences(length, items=range(NI)):
    """all grammatical element sequences of exactly `length` (no two items adjacent)"""
    items = list(items)

    def rec(prefix, last_item):
        if len(prefix) == length:
            yield tuple(prefix)
            return
        if not last_item:
            for i in items:
                prefix.append(i)
                yield from rec(prefix, True)
                prefix.pop()
        for s in (SEMI, COMMA):
            prefix.append(s)
            yield from rec(prefix, False)
            prefix.pop()
    return rec([], False)


def elements(seq):
    return [';' if e == SEMI else ',' if e == COMMA else ITEMS[e][1] for e in seq]


def kinds(seq):
    return ''.join(';' if e == SEMI else ',' if e == COMMA else
                   ('N' if ITEMS[e][1][0] != 'STRING' else ITEMS[e][0]) for e in seq)


def stmt_text(seq, way):
    col = 2 + WAYS.index(way)
    parts = []
    for e in seq:
        if e == SEMI:
            parts.append(';')
        elif e == COMMA:
            parts.append(',')
        else:
            parts.append(' ' + ITEMS[e][col])
    return ('PRINT' + ''.join(parts)).rstrip() if parts else 'PRINT'


def _assignments():
    return ['%s = %s' % (it[3], it[2]) for it in ITEMS]


def _functions():
    out = []
    for it in ITEMS:
        name = it[5][:-3]
        out += ['FUNCTION %s (dm%%)' % name, '%s = %s' % (name, it[2]), 'END FUNCTION']
    return out


def program(seqs, way, position):
    """source with one PRINT per sequence, each preceded by BEEP; a final BEEP closes the last"""
    stmts = [stmt_text(s, way) for s in seqs]
    body = []
    for st in stmts:
        if position in ('module', 'sub'):
            body += ['BEEP', st]
        elif position == 'colon':
            body += ['BEEP: ' + st]
        elif position == 'if':
            body += ['BEEP', 'IF kk% THEN ' + st]
        elif position == 'for':
            body += ['FOR ii% = 1 TO 1', 'BEEP', st, 'NEXT']
    body.append('BEEP')
    pre = []
    if way == 'variable':
        pre += _assignments()
    if position == 'if':
        pre.append('kk% = 1')
    if position == 'sub':
        lines = ['CALL body', 'END', 'SUB body'] + pre + body + ['END SUB']
    else:
        lines = pre + body + ['END']
    if way == 'function':
        lines += _functions()
    return '\n'.join(lines) + '\n'


def _same_items(typed, elems):
    if typed is None or len(typed) != len(elems):
        return False
    for t, e in zip(typed, elems):
        if isinstance(e, str):
            if t != e:
                return False
        elif not (isinstance(t, tuple) and t[0] == e[0] and t[1] == e[1] and type(t[1]) is type(e[1])):
            return False
    return True


def judge_one(seq, way, position, cfg):
    """single-statement program; -> None if fine else (divergence, expected, observed, src)"""
    src = program([seq], way, position)
    status, texts, typed = observe(src, 1, cfg)
    exp = printfmt.layout(elements(seq))
    if status != 'ok':
        return ('outcome', exp, status, src)
    if not _same_items(typed[0] if typed else None, elements(seq)):
        return ('items', elements(seq), typed[0] if typed else None, src)
    got = printfmt.normalise(texts[0])
    if got != exp:
        return ('layout', exp, got, src)
    return None


def _eval_job(chunk):
    """runs in a child forked for this job"""
    impl.parse_cache(True)
    viol = []
    st = {'evaluations': 0, 'programs': 0, 'nontrivial': 0, 'texts': set(), 'item_mismatch': 0,
          'fallback_single': 0, 'zone_pads': 0}
    for fam, way, position, cfgs, seqs in (it[:5] for it in chunk):
        src = program(seqs, way, position)
        exps = [printfmt.layout(elements(s)) for s in seqs]
        for cfg in cfgs:
            st['programs'] += 1
            status, texts, typed = observe(src, len(seqs), cfg)
            bad = []
            if status != 'ok':
                bad = list(range(len(seqs)))      # decide statement by statement
                st['fallback_single'] += 1
            else:
                for i, s in enumerate(seqs):
                    if not _same_items(typed[i] if i < len(typed) else None, elements(s)) or \
                            printfmt.normalise(texts[i]) != exps[i]:
                        bad.append(i)
                    else:
                        st['texts'].add(exps[i])
            st['evaluations'] += len(seqs)
            dup = fam == 'variants' and way == 'literal' and position == 'module' and cfg in MAIN_CFGS_Q
            for i, s in enumerate(seqs):
                if len(s) >= 2 and any(e < NI for e in s) and not dup:
                    st['nontrivial'] += 1
                if COMMA in s:
                    st['zone_pads'] += 1
            li = len(c17_run.LOG) - 1
            for i in bad:
                v = judge_one(seqs[i], way, position, cfg)
                alone = True
                if v is None and status == 'ok':
                    # differs only inside the packed program: keep the packed program as the case
                    alone = False
                    got = printfmt.normalise(texts[i]) if i < len(texts) else None
                    v = ('layout-in-sequence', exps[i], got, src)
                if v is None:
                    continue
                div, exp, got, vsrc = v
                if div == 'items':
                    st['item_mismatch'] += 1
                feat = {'family': fam, 'divergence': div, 'kinds': kinds(seqs[i]),
                        'way': way, 'position': position, 'config': cfgname(cfg)}
                case = {'seq': list(seqs[i]), 'way': way, 'position': position, 'config': list(cfg),
                        'source': vsrc, 'alone': alone, 'index': i if not alone else 0,
                        'nstmts': len(seqs) if not alone else 1,
                        'elements': impl.jsonable(elements(seqs[i])),
                        'log_index': li if not alone else len(c17_run.LOG) - 1}
                viol.append((feat, case, exp, got, len(seqs[i])))
    return viol, st, (list(c17_run.LOG) if viol else [])


def check_case(case):
    """one stored case on its own -> (violates, status, typed items, expected, observed)"""
    cfg = tuple(case['config'])
    seq = tuple(case['seq'])
    exp = printfmt.layout(elements(seq))
    status, texts, typed = observe(case['source'], case['nstmts'], cfg)
    i = case['index']
    got = printfmt.normalise(texts[i]) if texts and i < len(texts) else None
    t = typed[i] if typed and i < len(typed) else None
    ok = status == 'ok' and got == exp and _same_items(t, elements(seq))
    return (not ok, status, t, exp, got)


def _recheck(case):
    return check_case(case)[0]


def _recheck_any(case):
    return c17_hist.recheck(case) if 'prog' in case else _recheck(case)


def recheck_chunk(chunk):
    return [(i, isolated(_recheck_any, case)) for i, case in chunk]


def eval_chunk(chunk):
    """worker side: nothing of qbee runs in the (long-lived) worker itself, each job
    is evaluated in a child forked for it -> [(violations, stats, log)]"""
    return [isolated(_eval_job, job) for job in chunk]


def _chunks(lst, n):
    return [lst[i:i + n] for i in range(0, len(lst), n)]


def space(tier):
    fams = {}
    maxlen = 5 if tier == 'quick' else 6
    seqs = []
    for n in range(0, maxlen + 1):
        seqs.extend(sequences(n))
    by_len = {}
    for s in seqs:
        by_len[len(s)] = by_len.get(len(s), 0) + 1
    main_cfgs = MAIN_CFGS_Q if tier == 'quick' else impl.CONFIGS
    items = [('sequences', 'literal', 'module', main_cfgs, c) for c in _chunks(seqs, 60)]
    fams['sequences'] = (items, {'item_alphabet': [impl.jsonable(it[1]) for it in ITEMS],
                                 'separators': [';', ','], 'max_len': maxlen,
                                 'cases_by_length': by_len, 'sequences': len(seqs),
                                 'configs': [cfgname(c) for c in main_cfgs]})
    if tier == 'thorough':
        s7 = list(sequences(7, SUB5))
        items7 = [('sequences7', 'literal', 'module', [(0, False)], c) for c in _chunks(s7, 60)]
        fams['sequences7'] = (items7, {'item_alphabet': [impl.jsonable(ITEMS[i][1]) for i in SUB5],
                                       'len': 7, 'sequences': len(s7), 'configs': ['O0']})
    short = [s for s in seqs if len(s) <= 3]
    vitems = []
    for way in WAYS:
        for sl in _chunks(short, 111):
            # one job = one way x one slice of sequences in all positions (they share source lines)
            for position in POSITIONS:
                # (compile time is quadratic in the number of FOR blocks of a program)
                for c in _chunks(sl, 16 if position == 'for' else 111):
                    vitems.append(('variants', way, position, impl.CONFIGS, c, (way, sl[0])))
    fams['variants'] = (vitems, {'max_len': 3, 'sequences': len(short), 'ways': WAYS,
                                 'positions': POSITIONS,
                                 'configs': [cfgname(c) for c in impl.CONFIGS]})
    return fams


def make_jobs(name, items, tier):
    """the items of a family cut into jobs (one forked child each)"""
    if name == 'variants':
        jobs = {}
        for it in items:
            jobs.setdefault(it[5], []).append(it)
        return list(jobs.values())
    n = 32 if tier == 'quick' or name == 'sequences7' else 48
    return [items[k::n] for k in range(n) if items[k::n]]


def run_history(chk, desc, results):
    """family `history`"""
    refs = {}
    for viol, r in chk.pmap(c17_hist.ref_chunk, c17_hist.ALL, chunk=1):
        results.append((viol, []))
        refs.update(r)
    jobs, d = c17_hist.space(chk.tier)
    for res in chk.pmap(c17_hist.hist_chunk, jobs, extra=(refs,), chunk=1):
        for viol, st, log in res:
            results.append((viol, log))
            chk.merge_stats(st)
    d['jobs'] = len(jobs) + len(c17_hist.ALL)
    chk.cov['evaluations'] += 12 * len(c17_hist.ALL)
    d['reference_texts'] = dict((c, r) for c, r in sorted(refs.items()))
    dist = []
    for a in c17_hist.ALL:
        for b in c17_hist.ALL:
            ta, tb = c17_hist.HD[a][1], c17_hist.HD[b][1]
            if a < b and ta[1] == tb[1] and refs.get(a) and refs.get(b) and \
                    refs[a]['num'] != refs[b]['num']:
                dist.append('%s/%s' % (a, b))
    d['same_number_different_text'] = dist
    desc['history'] = d
    for job in (jobs[0], jobs[len(jobs) // 2], jobs[-1]):
        prog = job[2][len(job[2]) // 2]
        if all(refs.get(c) for s in prog for c in c17_hist.codes_of(s)):
            chk.sample({'family': 'history', 'shape': job[0],
                        'statements': [c17_hist.stmt_text(s) for s in prog],
                        'model_texts': [printfmt.layout(*c17_hist.expected(s, refs)) if c17_hist.is_print(s)
                                        else '' for s in prog]})


def run(chk):
    fams = space(chk.tier)
    desc = {}
    results = []
    if not chk.only or 'history' in chk.only:
        run_history(chk, desc, results)
    else:
        chk.cov['exhaustive'] = False
    jobs = []
    for name, (items, d) in fams.items():
        if chk.only and name not in chk.only:
            chk.cov['exhaustive'] = False
            continue
        d = dict(d)
        d['programs'] = sum(len(it[3]) for it in items)
        mine = make_jobs(name, items, chk.tier)
        d['jobs'] = len(mine)
        desc[name] = d
        jobs += mine
        for it in (items[0], items[len(items) // 2], items[-1]):
            s = it[4][len(it[4]) // 2]
            chk.sample({'family': name, 'way': it[1], 'position': it[2],
                        'statement': stmt_text(s, it[1]),
                        'model_text': printfmt.layout(elements(s))})
    for res in chk.pmap(eval_chunk, jobs, chunk=1):
        for viol, st, log in res:
            results.append((viol, log))
            chk.merge_stats(st)
    def recheck_many(cases):
        return dict(x for res in chk.pmap(recheck_chunk, list(enumerate(cases)), chunk=1) for x in res)

    chk.add_violations(c17_run.classify_all(results, recheck_many))
    chk.cov['distinct_nontrivial'] = chk.cov.pop('nontrivial', 0)
    ntexts = len(chk.cov.get('_sets', {}).get('texts', ()))
    chk.assumptions = [
        'element sequences are bounded as listed per family; nothing is claimed for longer statements',
        'the column a PRINT starts in is taken as 0 (the property defines the text per statement)',
        'number texts of the 5 numeric items of the conformance families are constants of the model '
        '(C16 owns number to text)',
        'family history: the text of a number is what PRINT of that one variable writes when it is the only '
        'PRINT of a program run in a process forked for it; of that text only "is a numeral of the value, '
        'followed by one blank, the same in all configurations" is demanded',
        'every job is evaluated in a child process forked for it from a worker that never executes qbee '
        'itself, so verdicts do not depend on the order in which workers receive jobs; state kept by the '
        'compiler between the programs of one job is not separated']
    chk.finish(
        rule=('every grammatical element sequence up to the bound is one PRINT statement, compiled and run '
              '(packed ~60-110 per program, separated by BEEP device calls); an evaluation = one statement in one '
              'configuration; non-trivial = the sequence has an item and at least two elements (the running column '
              'matters), and every statement of the history family; distinct outcomes = distinct correct '
              'texts observed'),
        extra_cov={'families': desc, 'distinct_outcomes': ntexts})


def replay(rec):
    c = rec['case']
    cfg = tuple(c['config'])
    if c.get('earlier_programs'):
        print('(the deviation was only seen after %d earlier programs in the same process; they are '
              'executed first)' % len(c['earlier_programs']))
        c17_run.run_earlier(c)
    print('--- source (%s) ---' % cfgname(cfg))
    print(c['source'])
    if c.get('fresh_process') == 'not-reevaluated':
        print('(this case was not evaluated again on its own: it may need the programs that ran before it in '
              'its job)')
    if 'prog' in c:
        return replay_history(c)
    seq = tuple(c['seq'])
    bad, status, typed, exp, got = check_case(c)
    print('elements :', elements(seq))
    print('status   :', status)
    print('typed    :', typed)
    print('expected :', repr(exp))
    print('observed :', repr(got))
    print('VIOLATES' if bad else 'agrees with the model')
    return 1 if bad else 0


def replay_history(c):
    refs = None
    if c['kind'] == 'program' and not c.get('earlier_programs'):
        # reference texts afresh: each single PRINT in a child forked before this process ran anything
        refs = {}
        for code in sorted(c['references']):
            refs[code], v = c17_hist.reference(code)
            print('reference %-3s %-28s:' % (code, impl.jsonable(c17_hist.HD[code][1])), refs[code],
                  '(the reference itself deviates: %r)' % [(x[0]['divergence'], x[3]) for x in v] if v else '')
        if any(r is None for r in refs.values()):
            refs = None
    bad, info = c17_hist.check_case(c, refs)
    for k, v in info.items():
        print(k, ':')
        for x in (v if isinstance(v, list) else [v]):
            print('   ', x)
    print('VIOLATES' if bad else 'agrees with the model')
    return 1 if bad else 0
