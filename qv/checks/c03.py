"""C03 - accepted programs are type- and stack-safe on the virtual machine.

Two cooperating explorations per emitted module (DESIGN section 4, C03):

(A) explicit-state exploration of the type-state abstraction of the module's
    code section (qv.c03_ts): every reachable (pc, stack-tag tuple) with both
    arms of every `jz`, every call/return, GOSUB nesting up to the bound; the
    invariants of the property are evaluated on every abstract transition.
(B) the concrete monitor (qv.c03_mon) on real runs of the same module under
    scripted environments: concrete invariants after every tick, and the
    conformance of the abstraction (the concrete successor must be one the
    transfer function allows and must lie in the set (A) visited).

The program space is a complete product of small alphabets (qv.c03_gen), the
repository corpus (qv.corpus) and /verif/programs/*/*.bas, each compiled in
the 6 configurations."""
import glob
import hashlib
import os
import re

from .. import impl, corpus
from .. import c03_gen as gen
from .. import c03_isa as isa
from .. import c03_ts as ts
from .. import c03_mon as mon

LEVEL = 'model_checking'
HORIZON = {'quick': 20000, 'thorough': 60000}
GOSUB_BOUND = {'quick': 3, 'thorough': 5}
MAX_STATES = 400000
ROOT = os.path.dirname(os.path.dirname(os.path.dirname(os.path.abspath(__file__))))

# scripts for programs that are not generated (corpus, programs/*): INPUT lines
# with a rejected line in between, keys, random numbers
GENERIC_INPUT = ['3', 'x,y', '4,q', '5', 'abc', '2.5', '1,2', '7', '', '9', '1', '2', '3', '4']

# host exceptions that are machine-level faults in disguise (an unchecked
# operand of the wrong kind, a pop from an empty stack)
HOST_KINDS = mon.HOST_KINDS


# ---------------------------------------------------------------------------
# the program space

def space(tier):
    """-> [(family, items, descriptor)] ; item = (family, tag, src, scripts)"""
    fams = []
    for name, f in gen.FAMILIES:
        items = list(f(tier))
        if not items:
            continue
        fams.append((name, items, {'cases': len(items), 'generator': 'qv.c03_gen.fam_' + name}))
    cs = []
    for c in corpus.cases():
        if c['expected'] in ('compileerror', 'syntaxerror'):
            continue
        sc = corpus.script_of(c)
        sc['input'] = list(GENERIC_INPUT)
        cs.append(('corpus', f"{c['file']}#{c['idx']}", c['src'], [sc]))
    fams.append(('corpus', cs, {'cases': len(cs), 'source': 'tests/test_cases/*.test '
                                                            '(cases expected to compile)'}))
    ps = []
    for p in sorted(glob.glob(os.path.join(ROOT, 'programs', '*', '*.bas'))):
        with open(p) as f:
            src = f.read()
        ps.append(('programs', os.path.relpath(p, ROOT), src,
                   [{'input': list(GENERIC_INPUT)}, {'input': ['1', '2', '3', '4', '5', '6']}]))
    fams.append(('programs', ps, {'cases': len(ps), 'source': 'programs/*/*.bas'}))
    return fams


# ---------------------------------------------------------------------------
# one module

_STMT_LEAD = re.compile(r'(^|:|\bthen|\belse|^\d+)$', re.I)


def stmt_starts_of(mod, src):
    """code addresses at which a *source statement* starts, from the debug
    section.  The debug map also holds records for parts of one statement
    (the clauses of a CASE list); a record counts as a statement only if its
    source position is where a statement can start: at the beginning of a
    line (after a line number or label), after `:`, `THEN` or `ELSE`."""
    di = mod.debug_info
    if di is None:
        return None
    out = set()
    try:
        for r in di.stmts:
            so = r.source_start_offset
            if so is None or r.start_offset is None:
                continue
            ls = src.rfind('\n', 0, so) + 1
            lead = src[ls:so].strip()
            while so < len(src) and src[so] in ' \t':
                so += 1
            if _STMT_LEAD.search(lead):
                out.add(r.start_offset)
    except Exception:
        return None
    return frozenset(out)


def make_env(script):
    script = dict(script or {})
    fail = script.pop('_fail', ())
    return impl.Env(script, fail=fail)


def analyse_module(res, twin, tier, src):
    """res: CompileResult (ok) of one configuration; twin: the loaded -g module
    of the same optimisation level (or None).  -> (model, module, info)"""
    mod = impl.load(res.binary)
    ss = stmt_starts_of(mod, src)
    if ss is None and twin is not None and bytes(twin.code) == bytes(mod.code):
        ss = stmt_starts_of(twin, src)
    m = ts.Model(bytes(mod.code), res.listing, mod.n_global_cells, ss,
                 max_gosub=GOSUB_BOUND[tier])
    m.explore(MAX_STATES)
    return m, mod


def run_monitored(m, mod, script, horizon):
    mo = mon.Monitor(m)
    env = make_env(script)
    out, _ = impl.run_module(mod, env, horizon=horizon, monitor=mo)
    return mo, out


def judge_case(src, scripts, tier, configs=impl.CONFIGS):
    """-> (findings, info).  findings: {(part, kind, op): {'configs': [...],
    'detail': str, 'script': idx or None, 'extra': {...}}}"""
    findings = {}
    info = {'accepted': 0, 'rejected': 0, 'crashed': 0, 'states': 0, 'transitions': 0,
            'conf_ticks': 0, 'ticks': 0, 'stmt_checks': 0, 'store_checks': 0, 'runs': 0,
            'modules': set(), 'ops': set(), 'outcomes': set(), 'with_boundaries': 0,
            'unmodelled': 0, 'gosub_bound_hits': 0, 'return_without_gosub': 0,
            'handler_roots': 0, 'dispatches': 0, 'horizon_runs': 0, 'unspecified_runs': 0,
            'verdicts': set(), 'branching_modules': 0, 'host_exc_other': 0,
            'ret_drops_gosub': 0, 'ret_with_gosub_ok': 0}

    def add(part, kind, op, cfg, detail, script=None, **extra):
        f = findings.setdefault((part, kind, op), {'configs': [], 'detail': detail,
                                                   'script': script, 'extra': extra})
        if cfg not in f['configs']:
            f['configs'].append(cfg)

    twins = {}
    results = {}
    for o, g in configs:
        r = impl.compile_text(src, o, g)
        results[(o, g)] = r
        info['verdicts'].add(r.kind)
        if r.ok and g:
            try:
                twins[o] = impl.load(r.binary)
            except ValueError:
                pass
    for (o, g), r in results.items():
        cfg = f'O{o}{"g" if g else ""}'
        if not r.ok:
            info['crashed' if r.kind in ('crash', 'timeout') else 'rejected'] += 1
            continue
        info['accepted'] += 1
        try:
            m, mod = analyse_module(r, twins.get(o), tier, src)
        except ValueError as e:
            add('A', 'module-not-loadable', '-', cfg, str(e)[:200])
            continue
        sec = impl.split_sections(r.binary)
        info['modules'].add(hashlib.sha1(b'|'.join(sec.get(i, b'') for i in (1, 2, 3, 4))).hexdigest()[:16])
        if m.harness:
            # the harness could not model this module: never a verdict, but counted
            info['unmodelled'] += 1
            add('H', 'unmodelled', '-', cfg, '; '.join(m.harness)[:200])
            continue
        info['states'] += len(m.visited)
        info['transitions'] += m.transitions
        info['ops'] |= m.ops_seen
        if m.stmt_starts is not None:
            info['with_boundaries'] += 1
        if m.ops_seen & {'jz', 'call'}:
            info['branching_modules'] += 1
        for k in ('gosub_bound_hits', 'return_without_gosub', 'handler_roots', 'ret_drops_gosub'):
            info[k] += m.stats[k]
        for v in m.viol:
            extra = {k: v[k] for k in v if k not in ('kind', 'pc', 'op', 'detail')}
            add('A', v['kind'], v['op'], cfg, f"pc {v['pc']:#x}: {v['detail']}", **extra)
        for si, script in enumerate(scripts):
            mo, out = run_monitored(m, mod, script, HORIZON[tier])
            info['runs'] += 1
            info['ticks'] += mo.ticks
            info['conf_ticks'] += mo.conf_ticks
            info['stmt_checks'] += mo.stmt_checks
            info['store_checks'] += mo.store_checks
            info['dispatches'] += mo.dispatches
            info['ret_with_gosub_ok'] += mo.ret_with_gosub_ok
            info['outcomes'].add((out.end, out.trap, out.exc))
            if out.end == 'horizon':
                info['horizon_runs'] += 1
            if mo.unspecified:
                info['unspecified_runs'] += 1
            for v in mo.viol:
                extra = {k: v[k] for k in v if k not in ('kind', 'pc', 'op', 'detail')}
                add('B', v['kind'], v['op'], cfg, f"pc {v['pc']:#x}: {v['detail']}", si, **extra)
            for c in mo.conf:
                add('C', 'conformance-' + c['what'], c['op'], cfg,
                    f"pc {c['pc']:#x}: {c['detail']}", si)
            if out.end == 'hostexc' and out.exc in HOST_KINDS and not mo.viol:
                # a host exception is a machine-level fault in disguise (an
                # unchecked operand kind, a pop from an empty stack, a missing
                # frame) unless the type-state model certifies the failing
                # step: abstract pre-state in step with the machine, operands
                # and variable index accepted.  Certified ones are some other
                # defect of the machine (C07), not this property.
                pre = mo._pre
                certified = pre is not None and pre[2] is not None and not pre[3]
                if certified:
                    info['host_exc_other'] += 1
                else:
                    add('B', 'host-exception', out.exc, cfg,
                        f'{out.exc} in {out.where} escaped the machine', si,
                        explained_by=','.join(sorted(set(v['kind'] for v in m.viol))) or 'nothing')
    return findings, info


_TYPECH = re.compile(r'[%&!#$]')


def features(fam, tag, part, kind, op, f):
    cfgs = sorted(f['configs'])
    feat = {'family': fam,
            'divergence': {'A': 'typestate:', 'B': 'monitor:', 'C': 'model:', 'H': 'harness:'}[part] + kind,
            'op': op, 'tag': tag,
            'configs': 'all' if len(cfgs) == 6 else ','.join(cfgs)}
    for k, v in f['extra'].items():
        if isinstance(v, (str, int, bool)):
            feat[k] = v
    return feat


EXPECT = {
    'A': 'no abstract path of the emitted code reaches a machine-level fault; stores match '
         'declared slot types; the expression stack is empty at statement boundaries',
    'B': 'no machine-level trap or host exception; pc on instruction starts; written cells have '
         'their declared type; stack depth at statement starts = routine entry + active GOSUBs',
    'C': 'every concrete tick is matched by a successor the type-state model allows and lies '
         'in the explored abstract state set (a failure means the MODEL is out of step)',
    'H': 'the harness understands the listing of every accepted module',
}


def eval_chunk(chunk, tier):
    impl.parse_cache(True)
    viol = []
    st = {'evaluations': 0, 'compiles': 0, 'programs_accepted': 0, 'programs_rejected': 0,
          'modules_accepted': 0, 'modules_rejected': 0, 'modules_crashed': 0,
          'states': 0, 'transitions': 0, 'traces_validated_against_impl': 0,
          'concrete_ticks': 0, 'stmt_boundary_checks': 0, 'store_checks': 0, 'runs': 0,
          'modules_with_stmt_boundaries': 0, 'unmodelled_modules': 0,
          'gosub_bound_hits': 0, 'return_without_gosub_paths': 0, 'handler_roots': 0,
          'error_dispatches': 0, 'horizon_runs': 0, 'unspecified_runs': 0,
          'mixed_verdict_programs': 0, 'branching_modules': 0,
          'host_exceptions_outside_property': 0,
          'abstract_returns_dropping_gosubs': 0, 'concrete_returns_dropping_gosubs_checked': 0,
          'distinct_modules': set(), 'ops_explored': set(), 'outcomes': set(),
          'per_family': {}}
    for fam, tag, src, scripts in chunk:
        findings, info = judge_case(src, scripts, tier)
        st['evaluations'] += 1
        st['compiles'] += 6
        st['per_family'][fam] = st['per_family'].get(fam, 0) + 1
        if info['accepted']:
            st['programs_accepted'] += 1
        else:
            st['programs_rejected'] += 1
        if len(info['verdicts']) > 1:
            st['mixed_verdict_programs'] += 1
        st['modules_accepted'] += info['accepted']
        st['modules_rejected'] += info['rejected']
        st['modules_crashed'] += info['crashed']
        st['states'] += info['states']
        st['transitions'] += info['transitions']
        st['traces_validated_against_impl'] += info['conf_ticks']
        st['concrete_ticks'] += info['ticks']
        st['stmt_boundary_checks'] += info['stmt_checks']
        st['store_checks'] += info['store_checks']
        st['runs'] += info['runs']
        st['modules_with_stmt_boundaries'] += info['with_boundaries']
        st['unmodelled_modules'] += info['unmodelled']
        st['gosub_bound_hits'] += info['gosub_bound_hits']
        st['return_without_gosub_paths'] += info['return_without_gosub']
        st['handler_roots'] += info['handler_roots']
        st['error_dispatches'] += info['dispatches']
        st['horizon_runs'] += info['horizon_runs']
        st['unspecified_runs'] += info['unspecified_runs']
        st['branching_modules'] += info['branching_modules']
        st['host_exceptions_outside_property'] += info['host_exc_other']
        st['abstract_returns_dropping_gosubs'] += info['ret_drops_gosub']
        st['concrete_returns_dropping_gosubs_checked'] += info['ret_with_gosub_ok']
        st['distinct_modules'] |= info['modules']
        st['ops_explored'] |= info['ops']
        st['outcomes'] |= info['outcomes']
        for (part, kind, op), f in sorted(findings.items()):
            cfg = f['configs'][0]
            case = {'family': fam, 'tag': tag, 'src': src, 'part': part, 'kind': kind, 'op': op,
                    'config': cfg, 'configs': f['configs'], 'tier': tier,
                    'script': scripts[f['script']] if f['script'] is not None else None}
            viol.append((features(fam, tag, part, kind, op, f), case, EXPECT[part],
                         {'detail': f['detail'], 'configs': f['configs']}, len(src)))
    return viol, st


# ---------------------------------------------------------------------------

def run(chk):
    diffs = isa.crosscheck()
    if diffs:
        print('HARNESS-ERROR property=C03 the instruction table of qv/c03_isa.py is out of date:')
        for d in diffs[:20]:
            print('  ' + d)
        raise SystemExit(2)
    fams = space(chk.tier)
    desc = {}
    for name, items, d in fams:
        if chk.only and name not in chk.only:
            chk.cov['exhaustive'] = False
            continue
        desc[name] = d
        chunk = 6 if name in ('corpus', 'programs') else 16
        for viol, st in chk.pmap(eval_chunk, items, extra=(chk.tier,), chunk=chunk):
            chk.add_violations(viol)
            chk.merge_stats(st)
        for it in (items[0], items[len(items) // 2], items[-1]):
            chk.sample({'family': name, 'tag': it[1], 'src': it[2][:400], 'scripts': it[3]})
    sets = chk.cov.get('_sets', {})
    ops = sorted(sets.get('ops_explored', ()))
    all_ops = sorted(set(n for n, _ in isa.TABLE.values()))
    chk.cov['ops_explored_list'] = ops
    chk.cov['ops_never_explored'] = [o for o in all_ops if o not in ops]
    chk.cov['outcome_classes'] = sorted(str(o) for o in sets.get('outcomes', ()))
    chk.cov['distinct_nontrivial'] = len(sets.get('distinct_modules', ()))
    chk.cov['distinct_outcomes'] = len(sets.get('outcomes', ()))
    chk.cov['gosub_depth_bound'] = GOSUB_BOUND[chk.tier]
    chk.cov['run_horizon_ticks'] = HORIZON[chk.tier]
    chk.assumptions = [
        'programs are bounded as listed per family; nothing is claimed above the bounds',
        'the type-state abstraction forgets values (both arms of every jz), keeps pushed '
        'INTEGER/LONG constants (operand counts, type ids, field offsets); GOSUB nesting is '
        'explored up to gosub_depth_bound (paths cut there are counted in gosub_bound_hits)',
        'language-level errors (overflow, division by zero, subscripts, illegal argument, device '
        'errors, RETURN without GOSUB) end a path and are not judged',
        'error-handler entries are explored from an empty expression stack; after a concrete '
        'error dispatch the monitor re-synchronises the abstract state from the concrete stack',
        'slot types are derived from the listing text (.types/.globals/.routines); statement '
        'boundaries from the debug section of the -g module (non-g modules use them only when '
        'their code section is byte-identical to the -g twin)',
        'per-line parse memo is byte-identical to re-parsing (conformance slice in C20/C02)',
    ]
    chk.finish(
        rule=('every program of each family is compiled in the 6 configurations; every accepted '
              'module is (A) explored exhaustively in the type-state abstraction and (B) run under '
              'each of its scripts with the tick-level monitor; evaluations = programs; '
              'distinct_nontrivial = distinct accepted modules (hash of sections 1-4) that were '
              'explored; states/transitions = abstract states/transitions summed over modules; '
              'traces_validated_against_impl = concrete ticks whose post-state was matched by a '
              'successor of the transfer function inside the explored abstract state set'),
        extra_cov={'families': desc,
                   'configs': ['O%d%s' % (o, 'g' if g else '') for o, g in impl.CONFIGS]})


def replay(rec):
    case = rec['case']
    src = case['src']
    tier = case.get('tier', 'quick')
    print('--- program ---')
    print(src)
    print(f"--- expected: {rec.get('expected')}")
    print(f"--- recorded: part {case['part']} {case['kind']} op={case['op']} configs={case['configs']}: "
          f"{rec.get('observed')}")
    scripts = [case['script']] if case.get('script') is not None else [{}]
    cfgs = []
    for c in case['configs']:
        cfgs.append((int(c[1]), c.endswith('g')))
    if not any(g for _, g in cfgs):
        pass
    # the -g twin is needed for statement boundaries
    want = sorted(set(cfgs) | {(o, True) for o, _ in cfgs})
    findings, info = judge_case(src, scripts, tier, configs=want)
    rc = 0
    for (part, kind, op), f in sorted(findings.items()):
        print(f'now: part {part} {kind} op={op} configs={f["configs"]}: {f["detail"]}')
        if part == case['part'] and kind == case['kind']:
            rc = 1
    for o, g in want:
        r = impl.compile_text(src, o, g)
        if not r.ok:
            print(f'O{o} g={g}: {r.brief()}')
            continue
        mod = impl.load(r.binary)
        out, _ = impl.run_module(mod, make_env(scripts[0]), horizon=HORIZON[tier])
        print(f'O{o} g={g}: plain run ends {out.end} trap={out.trap} exc={out.exc} '
              f'where={out.where} ticks={out.ticks} stack_depth={out.stack_depth}')
    print('STILL VIOLATES' if rc else 'no longer reproduced')
    return rc
