"""C02 - optimisation and compile-time evaluation never change behaviour.

Three purely differential sub-checks (DESIGN section 4, C02):
  levels   (a) every program of a generated text space and of the repository
               corpus, compiled at O0..O3 with and without -g; oracle = O0
  consts   (b) every constant expression of a bounded space in three guises at
               O0/O1/O2; oracle = the same expression over typed variables at O0
  windows  (c) every instruction window up to a bound, executed on the real CPU
               before and after QvmCode.optimize()
"""
from .. import impl
from .. import c02_wx as wx
from .. import c02_levels as lv
from .. import c02_consts as cs

LEVEL = 'exploration'


def run(chk):
    fams = {}
    only = chk.only
    if only:
        chk.cov['exhaustive'] = False

    # the first parse builds pyparsing's grammar (seconds of CPU): do it once
    # here so that the forked workers inherit it instead of each paying for it
    # under their own compile time limit
    impl.compile_text('x% = 1 + 2 : PRINT x%', 2, True, limit=120.0)

    if not only or 'windows' in only:
        fams['windows'] = run_windows(chk)
    if not only or 'consts' in only:
        fams['consts'] = cs.run(chk)
    if not only or 'levels' in only:
        fams['levels'] = lv.run(chk)

    cov = chk.cov
    cov['evaluations'] = sum(cov.get(k, 0) for k in ('wx_evaluations', 'cs_evaluations', 'lv_evaluations'))
    cov['distinct_nontrivial'] = sum(cov.get(k, 0) for k in ('wx_changed', 'cs_nontrivial', 'lv_nontrivial'))
    sets = cov.get('_sets', {})
    distinct = {k: len(v) for k, v in sets.items()}
    chk.assumptions = [
        'programs, expressions and windows are bounded as listed per family; nothing is claimed above the bounds',
        'the per-line parse memo is byte-identical to re-parsing (a conformance slice is recompiled without it in every run)',
        'a window is admissible if its unoptimised form assembles and runs on the real CPU without a machine-level fault or host exception',
    ]
    chk.finish(
        rule=('levels: each program x script is compiled at O0..O3 x -g and run; non-trivial = the O0 and O2 code '
              'sections differ (the optimiser did something) - counted per distinct program text; '
              'consts: each constant expression cell is evaluated at compile time (O1, O2 and CONST/DIM at O0) and '
              'at run time through typed variables; non-trivial = the O1 code section of the cell\'s PRINT line '
              'differs from the O0 one (the folder replaced the expression) or the cell fails at run time; '
              'windows: each admissible window is run before and after optimize(); non-trivial = optimize() '
              'changed the instruction list'),
        extra_cov={'families': fams, 'distinct_outcomes': distinct})


def run_windows(chk):
    its = wx.items(chk.tier)
    maxlen = {'q': (3, 1), 't': (3, 1), 'c': (4, 4)}
    for viol, st in chk.pmap(wx.worker, its, extra=(maxlen,), chunk=6):
        chk.add_violations(viol)
        chk.merge_stats(st)
    lvl = 'q' if chk.tier == 'quick' else 't'
    a = wx.alphabet(lvl)
    for w in ([a[0], a[len(a) // 3]], [a[2], a[-9], a[-6]], [a[-1], a[5], a[20]]):
        r = wx.evaluate(wx.ctx_for(w), w)
        chk.sample({'family': 'windows', 'window': [wx.sym_text(s) for s in w], 'status': r.status})
    d = {'alphabet': [wx.sym_text(s) for s in a], 'alphabet_size': len(a), 'max_len': 3,
         'prologue': 'stores x%=5 y&=100000 m%=0 g&=7 h%=-2; stack empty',
         'epilogue': 'push% 77; storel m; _label END; halt  (jmp/jz target END)',
         'pruning': 'extensions of a window that faults at machine level are inadmissible and not visited'}
    if chk.tier == 'thorough':
        c = wx.alphabet('c')
        d['len4_alphabet'] = [wx.sym_text(s) for s in c]
        d['len4_alphabet_size'] = len(c)
        d['max_len_core'] = 4
    return d


def replay(rec):
    kind = rec['case'].get('kind')
    if kind == 'window':
        return replay_window(rec)
    if kind == 'const':
        return cs.replay(rec)
    return lv.replay(rec)


def replay_window(rec):
    w = [tuple(s) for s in rec['case']['window']]
    with impl.quiet():
        r = wx.evaluate(wx.ctx_for(w), w, want_shapes=True)
    print('--- window ---')
    for s in w:
        print('   ', wx.sym_text(s))
    print('--- code after the frame instruction, before optimize() ---')
    print('   ', r.before)
    print('--- after optimize() ---')
    print('   ', r.after)
    print('--- observation before ---')
    print('   ', r.obs0)
    print('--- observation after ---')
    print('   ', r.obs1 if r.obs1 is not None else r.detail)
    print('status:', r.status, r.div)
    return 1 if r.status == 'violation' else 0
