"""C18 - INPUT assigns only well-typed values and re-prompts on bad lines.

Explicit-state exploration (qv.explore.VX) of the real VM: every generated
program contains the INPUT statement under test and a continuation with a
second INPUT; the answers of terminal_input are the branching points.  All
response-line histories up to a bound over a 16-line (quick) / 28-line
(thorough) alphabet are explored in four configurations (O0, O2, with and
without -g) and judged against the acceptance model qv.ref.inputacc:

 (a) prompt protocol, (b) accept / reject, (c) stored values and types,
 (d) state equality: canonical VM state and continuation trace after
     [bad..., good] == after [good].
"""
import itertools
import re

from .. import impl
from .. import c18_gen as gen
from ..explore import VX, canon_machine, memory_view
from ..ref import inputacc as acc

LEVEL = 'model_checking'

CONFIGS = [(0, False), (0, True), (2, False), (2, True)]
_NL = r'(?:\r\n|\n|\r)'


def cfg_name(o, g):
    return 'O%d%s' % (o, 'g' if g else '')


# ---------------------------------------------------------------------------
# typed-print monitor: records the typed items of every PRINT as an event

class TPrintMonitor:
    def __init__(self, code):
        self.code = code

    def pre(self, cpu):
        code = self.code
        pc = cpu.pc
        if code[pc] == impl._IO_OPCODE and code[pc + 1] == 2 and code[pc + 2] == 2:
            env = cpu.devices['terminal'].impl
            env.events.append(('tprint', impl.print_items_at(cpu)))

    def post(self, cpu):
        pass


# ---------------------------------------------------------------------------
# stream view of an event list

def stream_of(events):
    """-> (tokens, tprints): tokens = list of ('out', text) / ('in', flag, line)
    with adjacent output merged; tprints = list of (token index, items)."""
    toks = []
    tps = []
    for ev in events:
        if ev[0] == 'print':
            if toks and toks[-1][0] == 'out':
                toks[-1] = ('out', toks[-1][1] + ev[1])
            else:
                toks.append(('out', ev[1]))
        elif ev[0] == 'input':
            toks.append(('in', bool(ev[1]), ev[2]))
        elif ev[0] == 'tprint':
            tps.append((sum(1 for t in toks if t[0] == 'in'), ev[1]))
        else:
            toks.append(('dev',) + tuple(ev[1:]))
    return toks, tps


def values_of(items):
    """typed values of a 'PRINT a; b; c' item list"""
    if items is None:
        return None
    return [it for it in items if isinstance(it, (tuple, list)) and len(it) == 2
            and it[0] in ('INTEGER', 'LONG', 'SINGLE', 'DOUBLE', 'STRING', 'FIXED_STRING')]


# ---------------------------------------------------------------------------
# the trace judge (shared by the explorer and the replay)

def judge_trace(specs, events, flags=None):
    """Walk the event stream of one run against the model: (a) the text shown
    before every line that is read, and the same-line flag.

    specs: the INPUT statements in execution order.  flags: known
    accepted/rejected verdict per line read (explorer), else inferred from the
    "Redo from start" text that follows a line.
    -> (problems, info) ; info = dict(lines=[(k, line, accepted)], toks, tprints)"""
    toks, tps = stream_of(events)
    problems = []
    lines = []
    ins = [i for i, t in enumerate(toks) if t[0] == 'in']
    k = 0                     # index of the INPUT statement being answered
    first_of_stmt = True
    for idx, i in enumerate(ins):
        if k >= len(specs):
            problems.append({'divergence': 'protocol', 'k': k,
                             'what': 'more lines read than INPUT statements can take'})
            break
        spec = specs[k]
        ptext = acc.prompt_text(spec['prompt'], spec['sep'])
        _, flag, line = toks[i]
        before = toks[i - 1][1] if i > 0 and toks[i - 1][0] == 'out' else ''
        if first_of_stmt:
            # program output before the statement ends with a line break
            cut = max(before.rfind('\n'), before.rfind('\r')) + 1
            shown = before[cut:]
            if shown != ptext or (k == 0 and before != ptext):
                problems.append({'divergence': 'prompt', 'what': 'text shown before the first line', 'k': k,
                                 'form': form_name(spec), 'expected': ptext,
                                 'observed': before[-40:]})
        else:
            if not re.fullmatch(re.escape(acc.REDO) + _NL + '?' + re.escape(ptext), before, re.S):
                problems.append({'divergence': 'prompt', 'what': 'text shown after a rejected line', 'k': k,
                                 'form': form_name(spec),
                                 'expected': acc.REDO + '<newline>' + ptext, 'observed': before[-60:]})
        if flag != spec['same_line']:
            problems.append({'divergence': 'same-line-flag', 'k': k, 'expected': spec['same_line'],
                             'observed': flag})
        after = toks[i + 1][1] if i + 1 < len(toks) and toks[i + 1][0] == 'out' else ''
        if flags is not None and idx < len(flags):
            accepted = flags[idx]
        else:
            accepted = not after.startswith(acc.REDO)
        lines.append((k, line, accepted))
        if accepted:
            k += 1
            first_of_stmt = True
        else:
            first_of_stmt = False
    return problems, {'lines': lines, 'toks': toks, 'tprints': tps}


def form_name(spec):
    return {None: 'none', ';': 'semi', ',': 'comma'}[spec['sep']] + ('0' if spec['prompt'] == '' else '') + \
        ('+sameline' if spec['same_line'] else '')


def judge_lines(specs, lines, tprints_by_in):
    """(b) and (c): verdicts and stored values.  lines = [(k, line, accepted)];
    tprints_by_in: dict number-of-lines-read-so-far -> first typed print after it"""
    problems = []
    nread = 0
    for k, line, accepted in lines:
        nread += 1
        if accepted is None:
            continue
        spec = specs[k]
        lv = acc.judge_line(line, spec['types'])
        base = {'k': k, 'line': line, 'types': list(spec['types']), 'model': lv.verdict,
                'why': lv.why, 'fclass': lv.fclass, 'ctype': lv.ctype}
        if lv.verdict == acc.MUST and not accepted:
            problems.append(dict(base, divergence='rejected-valid-line'))
        elif lv.verdict == acc.MUSTNOT and accepted:
            problems.append(dict(base, divergence='accepted-invalid-line'))
        if not accepted:
            continue
        items = tprints_by_in.get(nread)
        vals = values_of(items)
        if vals is None or len(vals) != len(spec['types']):
            problems.append(dict(base, divergence='values-not-shown', observed=impl.jsonable(items)))
            continue
        for p, ((vt, vv), typ) in enumerate(zip(vals, spec['types'])):
            fld = None
            if lv.fields is not None:
                fld = lv.fields[p]
            ftxt = line.split(',')[p] if lv.fields is not None else None
            fb = dict(base, pos=p, vtype=typ, observed=[vt, impl.jsonable(vv)],
                      fclass=acc.field_class(ftxt) if ftxt is not None else lv.fclass, ctype=typ)
            if vt != typ or not acc.well_typed(vv, typ):
                problems.append(dict(fb, divergence='ill-typed-value'))
                continue
            if lv.verdict == acc.MUSTNOT:
                continue            # already reported; no value is specified
            if fld is not None and fld.ok is not None and not fld.ok(vv):
                problems.append(dict(fb, divergence='wrong-value', expected=impl.jsonable(fld.expect)))
    return problems


# ---------------------------------------------------------------------------
# exploration of one module

class Probe:
    def __init__(self, specs, alpha, hist, good, hist2):
        self.specs = specs
        self.alpha = alpha
        self.hist = hist
        self.good = good
        self.hist2 = hist2
        self.flags = {(): ()}       # path -> accepted flag of every line of the path
        self.ref = {}               # accepted lines -> state / continuation of the direct history
        self.problems = []          # (problem dict, path)
        self.results = {}           # path -> observable summary (cross-configuration)
        self.n_accept = 0
        self.n_reject = 0
        self.n_state_eq = 0
        self.n_traces = 0
        self.outcomes = set()

    def accepted_of(self, path):
        return tuple(a for (_, a), f in zip(path, self.flags[path]) if f)

    def menu(self, nd):
        nacc = sum(self.flags.get(nd.path, ()))
        nrej = len(nd.env.q.get('input', ()))
        if nacc == 0:
            if nrej < self.hist:
                return [('input', l, 0) for l in self.alpha]
            if nrej == self.hist:
                return [('input', self.good, 0)]
            return []
        if nacc == 1:
            if nrej < self.hist2:
                return [('input', l, 0) for l in gen.MENU2]
            if nrej == self.hist2:
                return [('input', gen.GOOD2, 0)]
        return []

    def check(self, ch, parent, choice):
        if parent is None:
            if ch.halted or ch.pending != 'input':
                self.problems.append(({'divergence': 'no-input-reached',
                                       'observed': ch.outcome.summary() if ch.outcome else ch.pending}, ()))
            return []
        line = choice[1]
        pflags = self.flags[parent.path]
        k = sum(pflags)
        if k >= len(self.specs):
            self.problems.append(({'divergence': 'protocol', 'k': k,
                                   'what': 'more lines read than INPUT statements can take'}, ch.path))
            self.flags[ch.path] = pflags + (True,)
            return []
        types = self.specs[k]['types']
        if not ch.halted and ch.pending == 'input' and ch.env.q.get('input'):
            # rejected: the node is the snapshot taken before the INPUT tick,
            # with the rejected lines queued
            self.flags[ch.path] = pflags + (False,)
            self.n_reject += 1
            self.results[ch.path] = ('rejected',)
            lv = acc.judge_line(line, types)
            self.outcomes.add(('rej', k, lv.fclass))
            if lv.verdict == acc.MUST:
                self.problems.append(({'divergence': 'rejected-valid-line', 'k': k, 'line': line,
                                       'types': list(types), 'model': lv.verdict,
                                       'why': lv.why, 'fclass': lv.fclass, 'ctype': lv.ctype}, ch.path))
            return []
        # accepted (or the machine stopped for another reason)
        flags = pflags + (True,)
        self.flags[ch.path] = flags
        nacc = self.accepted_of(ch.path)
        self.n_accept += 1
        probs, inf = judge_trace(self.specs, ch.env.events, flags)
        self.n_traces += 1
        tp_by_in = {}
        for nin, items in inf['tprints']:
            tp_by_in.setdefault(nin, items)
        probs += judge_lines(self.specs, inf['lines'], tp_by_in)
        for p in probs:
            self.problems.append((p, ch.path))
        if ch.halted:
            o = ch.outcome
            if o.end != 'halt':
                self.problems.append(({'divergence': 'abnormal-end', 'k': k, 'line': line,
                                       'observed': {'end': o.end, 'trap': o.trap, 'exc': o.exc,
                                                    'stack_depth': o.stack_depth}}, ch.path))
            self.outcomes.add(('end', o.end, o.trap, o.exc))
        self.outcomes.add(('acc', k, acc.line_class(line, types)))
        toks = inf['toks']
        self.results[ch.path] = ('accepted', repr(toks), repr(inf['tprints']),
                                 ch.outcome.end if ch.halted else 'pending')
        # (d) state equality with the history that has no rejected line
        nrej = len(flags) - len(nacc)
        ins = [i for i, t in enumerate(toks) if t[0] == 'in']
        if not ins:
            return []
        # (compared as text: a NaN that got stored must not make equal traces unequal)
        cont = repr(toks[ins[-1] + 1:])
        cont_tp = repr([items for nin, items in inf['tprints'] if nin >= len(ins)])
        state = canon_machine(ch.machine)
        depth = len(ch.machine.cpu.stack)
        if nrej == 0:
            self.ref.setdefault(nacc, (state, cont, cont_tp, depth))
        else:
            r = self.ref.get(nacc)
            if r is not None:
                self.n_state_eq += 1
                rejected = [a for (_, a), f in zip(ch.path, flags) if not f]
                if r[0] != state or r[3] != depth:
                    self.problems.append(({'divergence': 'state-differs-after-rejected-lines', 'k': k,
                                           'line': line, 'rejected': rejected,
                                           'observed': {'stack_depth': depth,
                                                        'stack_depth_direct': r[3]}}, ch.path))
                elif r[1] != cont or r[2] != cont_tp:
                    self.problems.append(({'divergence': 'continuation-differs-after-rejected-lines',
                                           'k': k, 'line': line, 'rejected': rejected,
                                           'expected': [r[1], r[2]],
                                           'observed': [cont, cont_tp]}, ch.path))
        return []


def explore(module, specs, alpha, hist, good, hist2=1):
    pr = Probe(specs, alpha, hist, good, hist2)
    vx = VX(module, pr.menu, check=pr.check, horizon=5000, max_depth=hist + hist2 + 4,
            monitor=TPrintMonitor(module.code))
    vx.run()
    return pr, vx


# ---------------------------------------------------------------------------
# worker

def feature_of(prob, item):
    f = {'family': item['family'], 'divergence': prob['divergence']}
    for key in ('fclass', 'ctype', 'model', 'what', 'form'):
        if prob.get(key) is not None:
            f[key] = prob[key]
    if 'k' in prob:
        f['stmt'] = 'first' if prob['k'] == 0 else 'second'
    return f


def eval_chunk(chunk, tier):
    impl.parse_cache(True)
    viol = []
    st = {'evaluations': 0, 'programs': 0, 'modules': 0, 'states': 0, 'transitions': 0,
          'dedup_hits': 0, 'accepted_transitions': 0, 'rejected_transitions': 0,
          'state_equalities': 0, 'traces': 0, 'histories_with_rejection': 0,
          'outcomes': set(), 'horizon_hits': 0, 'host_exceptions': 0,
          'o0_o2_code_differs': 0}
    for item in chunk:
        src, specs = gen.program(item['place'], item['kind'], item['form'], item['same_line'],
                                 item['types'])
        n = len(item['types'])
        alpha = gen.alphabet(item.get('alpha', tier), n)
        st['programs'] += 1
        per_cfg = {}
        bins = {}
        for o, g in CONFIGS:
            r = impl.compile_text(src, o, g, limit=120.0, want_listing=False)
            if r.kind == 'timeout':          # overloaded machine: once more
                r = impl.compile_text(src, o, g, limit=600.0, want_listing=False)
            if not r.ok:
                feat = {'family': item['family'], 'divergence': 'does-not-compile',
                        'config': cfg_name(o, g)}
                viol.append((feat, {'src': src, 'opt': o, 'dbg': g, 'history': []},
                             'compiles', r.brief(), 0))
                continue
            bins[(o, g)] = r.binary
            module = impl.load(r.binary)
            pr, vx = explore(module, specs, alpha, item['hist'], gen.GOOD[n])
            s = vx.stats()
            st['modules'] += 1
            st['states'] += s['states']
            st['transitions'] += s['transitions']
            st['dedup_hits'] += s['dedup_hits']
            st['horizon_hits'] += s['horizon_hits']
            st['host_exceptions'] += s['host_exceptions']
            st['evaluations'] += s['transitions']
            st['accepted_transitions'] += pr.n_accept
            st['rejected_transitions'] += pr.n_reject
            st['state_equalities'] += pr.n_state_eq
            st['histories_with_rejection'] += pr.n_state_eq
            st['traces'] += pr.n_traces
            st['outcomes'] |= pr.outcomes
            per_cfg[(o, g)] = pr.results
            for prob, path in pr.problems:
                hist = [a for _, a in path]
                feat = feature_of(prob, item)
                case = {'src': src, 'opt': o, 'dbg': g, 'history': hist,
                        'specs': specs, 'item': item}
                viol.append((feat, case, prob.get('expected', prob.get('model')),
                             impl.jsonable({k: v for k, v in prob.items() if k != 'expected'}),
                             len(hist) * 100 + sum(len(h) for h in hist)))
        if (0, False) in bins and (2, False) in bins and bins[(0, False)] != bins[(2, False)]:
            st['o0_o2_code_differs'] += 1
        # cross-configuration consistency of everything observable
        keys = list(per_cfg)
        for kcfg in keys[1:]:
            a, b = per_cfg[keys[0]], per_cfg[kcfg]
            if a != b:
                diff = sorted(set(a) | set(b), key=lambda p: (len(p), p))
                for path in diff:
                    if a.get(path) != b.get(path):
                        hist = [x for _, x in path]
                        feat = {'family': item['family'], 'divergence': 'configurations-disagree',
                                'configs': cfg_name(*keys[0]) + '/' + cfg_name(*kcfg)}
                        viol.append((feat, {'src': src, 'opt': kcfg[0], 'dbg': kcfg[1], 'history': hist,
                                            'specs': specs, 'item': item, 'other': list(keys[0])},
                                     impl.jsonable(a.get(path)), impl.jsonable(b.get(path)),
                                     len(hist) * 100))
                        break
    return viol, st


# ---------------------------------------------------------------------------
# space

def _item(family, place, kind, form, sl, tl, hist, alpha):
    return {'family': family, 'place': place, 'kind': kind, 'form': form, 'same_line': sl,
            'types': tl, 'hist': hist, 'alpha': alpha}


ALL_FORMS = [(f, s) for f in gen.PROMPT_FORMS for s in (False, True)]


def space(tier):
    singles, pairs, triples = gen.type_lists(tier)
    fams = []
    q = tier == 'quick'
    kinds4 = gen.KINDS + ['mixed']
    # forms: statement forms (prompt form x same-line flag x target kind) x
    # single variables of every type, deepest histories
    a = []
    if q:
        for kind in gen.KINDS:
            for form, sl in ALL_FORMS:
                for tl in singles:
                    a.append(_item('forms', 'main', kind, form, sl, tl, 2, 'quick'))
            # the empty literal as prompt: INPUT "", x  /  INPUT ""; x
            for form in gen.EMPTY_PROMPT_FORMS:
                for sl in (False, True):
                    for tl in (('INTEGER',), ('STRING',)):
                        a.append(_item('forms', 'main', kind, form, sl, tl, 2, 'quick'))
        d = {'statement_forms': '3 prompt forms x same-line flag (x 5 single variables) + 2 empty-literal '
                                'prompt forms x flag (x INTEGER, STRING), per target kind (3)',
             'rejected_lines_before_closing': 2, 'alphabet': 'quick'}
    else:
        # three rejected lines: scalar targets, 3 statement forms x INTEGER, SINGLE, STRING
        for form, sl in (('none', False), ('semi', True), ('comma', False)):
            for tl in (('INTEGER',), ('SINGLE',), ('STRING',)):
                a.append(_item('forms', 'main', 'scalar', form, sl, tl, 3, 'quick'))
        # two rejected lines over the 28-line alphabet: every kind x type, 3 of the 6 forms each
        for ki, kind in enumerate(gen.KINDS):
            for ti, tl in enumerate(singles):
                for d3 in range(3):
                    form, sl = ALL_FORMS[(ki + ti + 2 * d3) % 6]
                    a.append(_item('forms', 'main', kind, form, sl, tl, 2, 'thorough'))
            for form, sl in (('semi0', False), ('comma0', True)):
                a.append(_item('forms', 'main', kind, form, sl, ('INTEGER',), 2, 'thorough'))
        d = {'passes': ['h=3, 16-line alphabet: scalar targets, forms none / ;semi / comma x INTEGER, SINGLE, STRING',
                        'h=2, 28-line alphabet: 3 kinds x 5 single variables x 3 of the 6 forms (rotated) + '
                        'the 2 empty-literal forms x INTEGER']}
    fams.append(('forms', a, d))
    # lists: every type list of 2 and 3 variables, prompt forms rotated
    b = []
    if q:
        for kind in gen.KINDS:
            for j, tl in enumerate(pairs + triples):
                form, sl = ALL_FORMS[j % 6]
                b.append(_item('lists', 'main', kind, form, sl, tl, 1, 'quick'))
        d = {'pairs': len(pairs), 'triples': len(triples), 'kinds': gen.KINDS,
             'rejected_lines_before_closing': 1, 'alphabet': 'quick'}
    else:
        for kind in kinds4:
            for j, tl in enumerate(pairs):
                form, sl = ALL_FORMS[j % 6]
                b.append(_item('lists', 'main', kind, form, sl, tl, 2, 'quick'))
                form, sl = ALL_FORMS[(j + 3) % 6]
                b.append(_item('lists', 'main', kind, form, sl, tl, 1, 'thorough'))
        for j, tl in enumerate(triples):
            form, sl = ALL_FORMS[j % 6]
            b.append(_item('lists', 'main', kinds4[j % 4], form, sl, tl, 1, 'thorough'))
        d = {'pairs': len(pairs), 'triples': len(triples),
             'passes': ['h=2, 16-line alphabet: 25 pairs x 4 kinds',
                        'h=1, 28-line alphabet: 25 pairs x 4 kinds; 125 triples, kind rotated']}
    fams.append(('lists', b, d))
    # places: the statement inside a GOSUB routine / inside a SUB (local targets)
    c = []
    for place in ('gosub', 'sub'):
        if q:
            for kind in gen.KINDS:
                for j, tl in enumerate(singles + pairs + triples[:9]):
                    form, sl = ALL_FORMS[(j + 1) % 6]
                    c.append(_item('places', place, kind, form, sl, tl, 1, 'quick'))
        else:
            for kind in kinds4:
                for j, tl in enumerate(singles + pairs):
                    if kind == 'mixed' and len(tl) == 1:
                        continue
                    form, sl = ALL_FORMS[(j + 1) % 6]
                    c.append(_item('places', place, kind, form, sl, tl, 1, 'thorough'))
            for j, tl in enumerate(triples):
                form, sl = ALL_FORMS[(j + 1) % 6]
                c.append(_item('places', place, kinds4[(j + 1) % 4], form, sl, tl, 1, 'thorough'))
    fams.append(('places', c, {
        'places': ['gosub', 'sub'], 'rejected_lines_before_closing': 1, 'alphabet': tier,
        'type_lists': '5 singles + 25 pairs x 3 kinds + 9 triples x 3 kinds' if q else
                      '5 singles + 25 pairs x 4 kinds; 125 triples, kind rotated'}))
    return fams


def run(chk):
    fams = space(chk.tier)
    desc = {}
    for name, items, d in fams:
        if chk.only and name not in chk.only:
            chk.cov['exhaustive'] = False
            continue
        d = dict(d)
        d['programs'] = len(items)
        desc[name] = d
        for viol, st in chk.pmap(eval_chunk, items, extra=(chk.tier,), chunk=4):
            chk.add_violations(viol)
            chk.merge_stats(st)
        for it in (items[0], items[len(items) // 2], items[-1]):
            src, specs = gen.program(it['place'], it['kind'], it['form'], it['same_line'], it['types'])
            chk.sample({'family': name, 'program': src, 'alphabet': gen.alphabet(it['alpha'], len(it['types'])),
                        'rejected_lines_before_closing': it['hist']})
    nout = len(chk.cov.get('_sets', {}).get('outcomes', ()))
    chk.cov['distinct_nontrivial'] = chk.cov.get('histories_with_rejection', 0)
    chk.cov['traces_validated_against_impl'] = chk.cov.get('traces', 0)
    chk.cov.setdefault('states', 0)
    chk.cov.setdefault('transitions', 0)
    chk.assumptions = [
        'bounds as listed per family; nothing is claimed beyond them',
        'cells the statement leaves open (see qv/ref/inputacc.py) are only checked for '
        'well-typedness of the stored value and agreement of the four configurations',
    ]
    chk.finish(
        rule=('one evaluation = one VX transition (a response line given to a pending INPUT of one '
              'module); every history of <= h lines over the alphabet is explored, an unfinished '
              'history is closed with the valid line; non-trivial = an accepted transition whose '
              'history contains at least one rejected line and whose canonical state and continuation '
              'trace were compared with those of the history without rejected lines'),
        extra_cov={'families': desc, 'configs': [cfg_name(o, g) for o, g in CONFIGS],
                   'alphabets': {t: {str(n): gen.alphabet(t, n) for n in (1, 2, 3)} for t in (('quick',) if chk.tier == 'quick' else ('quick', 'thorough'))},
                   'second_input_menu': gen.MENU2,
                   'distinct_outcomes': nout})


# ---------------------------------------------------------------------------
# replay (no explorer in the loop: plain runs with a scripted environment)

def direct_run(src, o, g, history):
    r = impl.compile_text(src, o, g, want_listing=False)
    if not r.ok:
        return r, None, None, None
    module = impl.load(r.binary)
    env = impl.Env({'input': list(history)})
    out, m = impl.run_module(module, env, horizon=20000, monitor=TPrintMonitor(module.code))
    return r, out, m, env


def judge_history(src, specs, o, g, history, verbose=False):
    """every check of the explorer on one history, with plain runs.
    -> list of problem dicts"""
    r, out, m, env = direct_run(src, o, g, history)
    if not r.ok:
        return [{'divergence': 'does-not-compile', 'observed': r.brief()}]
    probs, inf = judge_trace(specs, env.events)
    tp_by_in = {}
    for nin, items in inf['tprints']:
        tp_by_in.setdefault(nin, items)
    probs += judge_lines(specs, inf['lines'], tp_by_in)
    if verbose:
        print(f'--- {cfg_name(o, g)} history={history!r}: end={out.end} trap={out.trap} exc={out.exc} '
              f'stack_depth={out.stack_depth}')
        for t in inf['toks']:
            print('    ', t)
        for kk, line, a in inf['lines']:
            lv = acc.judge_line(line, specs[kk]['types'])
            print(f'    line {line!r} for INPUT #{kk + 1} {list(specs[kk]["types"])}: '
                  f'{"accepted" if a else "rejected"}; model: {lv.verdict} ({lv.why})')
        for nin, items in inf['tprints']:
            print('     typed print after', nin, 'line(s):', items)
    if out.end not in ('halt', 'exhausted'):
        probs.append({'divergence': 'abnormal-end',
                      'observed': {'end': out.end, 'trap': out.trap, 'exc': out.exc}})
    lines = inf['lines']
    if lines and lines[-1][2] and any(not a for _, _, a in lines):
        good = [l for _, l, a in lines if a]
        r2, out2, m2, env2 = direct_run(src, o, g, good)
        toks2, tps2 = stream_of(env2.events)

        def cont(toks, tps):
            ins = [i for i, t in enumerate(toks) if t[0] == 'in']
            return toks[ins[-1] + 1:], [it for nin, it in tps if nin >= len(ins)]
        c1 = repr(cont(inf['toks'], inf['tprints']))
        c2 = repr(cont(toks2, tps2))
        s1, s2 = canon_machine(m), canon_machine(m2)
        if verbose:
            print(f'    without the rejected lines {good!r}: end={out2.end} stack_depth={out2.stack_depth} '
                  f'state {"equal" if s1 == s2 else "DIFFERS"}; continuation {"equal" if c1 == c2 else "DIFFERS"}')
            if s1 != s2:
                print('     memory with rejected lines   :', memory_view(m)[:600])
                print('     memory without rejected lines:', memory_view(m2)[:600])
        if s1 != s2 or out.stack_depth != out2.stack_depth or out.end != out2.end:
            probs.append({'divergence': 'state-differs-after-rejected-lines',
                          'observed': {'stack_depth': out.stack_depth, 'stack_depth_direct': out2.stack_depth}})
        elif c1 != c2:
            probs.append({'divergence': 'continuation-differs-after-rejected-lines',
                          'expected': c2, 'observed': c1})
    return probs


def replay(rec):
    case = rec['case']
    src, hist = case['src'], case['history']
    specs = [dict(s, types=tuple(s['types'])) for s in case.get('specs', [])]
    o, g = case['opt'], case['dbg']
    print('--- program ---')
    print(src)
    print('--- response lines ---')
    print(hist)
    want = rec['features'].get('divergence')
    if want == 'does-not-compile':
        r = impl.compile_text(src, o, g)
        print(cfg_name(o, g), r.brief())
        return 0 if r.ok else 1
    probs = judge_history(src, specs, o, g, hist, verbose=True)
    rc = 0
    if want == 'configurations-disagree':
        o2, g2 = case['other']
        judge_history(src, specs, o2, g2, hist, verbose=True)
        e1 = direct_run(src, o, g, hist)[3].events
        e2 = direct_run(src, o2, g2, hist)[3].events
        if e1 != e2:
            print('CONFIGURATIONS DISAGREE')
            rc = 1
    for p in probs:
        print('PROBLEM:', impl.jsonable(p))
        rc = 1
    print('still violates' if rc else 'no violation')
    return rc
