"""C10 - ON ERROR, RESUME and RESUME NEXT follow statement-level semantics.

Bounded model checking of *handler skeletons* (qv.c10_skel): one BASIC program
per (arming mode, handler, body of <= n failable statements).  Which body
statements fail, and with which error kind, is read by the program with INPUT
(the fault plan is environment input), so one compile per optimisation level
serves every fault plan of the skeleton; the plans are enumerated as a direct
product and each is run on the real VM (-g, O0/O1/O2) under a monitor that
observes the operand stack and the store at statement boundaries.

Oracle (three-valued, see qv.c10_skel.model / judge):
  * terminal trace + halt class + ERR class of the statement-level reference
    model (handler entered per failing statement with ERR = kind; RESUME
    re-executes, RESUME NEXT / ON ERROR RESUME NEXT skip, GOTO 0 reports);
  * after resuming, at every later module-level statement boundary the operand
    stack depth equals the depth before the failing statement;
  * differential: at every later boundary operand stack, frames, globals,
    arrays and device cursors equal those of the *same program with the failing
    statements left out* (RESUME NEXT / skip) resp. of the fault-free run
    (RESUME after the cause was repaired), run with the same INPUT answers;
  * the epilogue (GOSUB/RETURN, CALL, FOR, FUNCTION) must run normally.
Unspecified cells: where RESUME NEXT lands after an error in the header of a
block statement (only: the program ends normally, epilogue intact, variables of
that block are wildcards); everything after handler entry for an error inside a
procedure.
"""
import itertools

from .. import impl
from .. import c10_skel as S

LEVEL = 'model_checking'

OPTS = (0, 1, 2)
HORIZON = 30000

# divergences that are (possibly) consequences of cells the failed statement
# left on the operand stack; a what-if re-run with those cells removed decides
RESIDUE = 'operand-stack-residue'


# ---------------------------------------------------------------------------
# spaces

def plans_of(forms):
    """all fault plans of a body, fewest failures first"""
    alts = [[None] + S.FORM[f].kinds for f in forms]
    ps = list(itertools.product(*alts))
    ps.sort(key=lambda p: sum(k is not None for k in p))
    return ps


# quick: bodies of two statements over this 9-form core; thorough: all forms
Q_CORE = ['aft', 'prt', 'forb', 'infor', 'insub', 'rdt', 'gsb', 'col', 'poke']
# thorough: bodies of three statements over this 4-form core (a statement that
# fails with operands pushed, a block header, a GOSUB body, a colon line)
T_CORE = ['prt', 'forb', 'gsb', 'col']


def space(tier):
    """-> list of (family, [items], description); item = (mode, handler, forms)"""
    fams = []
    names = S.FORM_NAMES
    one = [(m, h, (f,)) for (m, h) in S.COMBOS for f in names]
    fams.append(('n1', one, {'body': 1, 'alphabet': names}))
    a2 = Q_CORE if tier == 'quick' else names
    two = [(m, h, (f, g)) for (m, h) in S.COMBOS for f in a2 for g in a2]
    fams.append(('n2', two, {'body': 2, 'alphabet': a2}))
    if tier == 'thorough':
        three = [(m, h, t) for (m, h) in S.COMBOS
                 for t in itertools.product(T_CORE, repeat=3)]
        fams.append(('n3', three, {'body': 3, 'alphabet': T_CORE}))
    return fams


# ---------------------------------------------------------------------------
# one case

class Cache:
    """compiled skeletons of one (mode, handler, forms) x opt, incl. the
    reference programs with statements left out"""

    def __init__(self, mode, handler, forms, opt):
        self.mode, self.handler, self.forms, self.opt = mode, handler, forms, opt
        self.skel = S.Skeleton(mode, handler, forms)
        self.comp = S.Compiled(self.skel, opt)
        self.refs = {}
        self.benign = None
        self.ncompiles = 1

    def ref_removed(self, removed):
        c = self.refs.get(removed)
        if c is None:
            sk = S.Skeleton(self.mode, self.handler, self.forms, removed=removed)
            c = S.Compiled(sk, self.opt)
            self.refs[removed] = c
            self.ncompiles += 1
        return c


def reference_run(cache, plan, exp):
    """the run the memory differential compares with, or None"""
    sk = cache.skel
    if sk.mode == 'Z' or exp['open'] or exp['wild']:
        return None
    failing = tuple(i for i, k in enumerate(plan, 1) if k is not None)
    if not failing:
        return None
    if sk.mode == 'A' and sk.handler == 'H2':
        # RESUME after the cause was repaired: the fault-free run
        if cache.benign is None:
            cache.benign = S.run_plan(cache.comp, sk.script((None,) * sk.n), horizon=HORIZON)
        return cache.benign
    if any(S.FORM[sk.forms[i - 1]].spec != 'stmt' for i in failing):
        return None
    c = cache.ref_removed(failing)
    if not c.ok or c.missing:
        return None
    return S.run_plan(c, sk.script(plan), horizon=HORIZON)


def evaluate(cache, plan):
    """-> (divergences, run, expected, explained) ; divergences = list of
    (divergence, slot, detail); explained = divergences that disappear when the
    cells the failed statement left on the operand stack are removed"""
    sk = cache.skel
    exp = S.model(sk.mode, sk.handler, sk.forms, plan)
    run = S.run_plan(cache.comp, sk.script(plan), horizon=HORIZON)
    base = reference_run(cache, plan, exp)
    divs = S.judge(sk, plan, run, base, exp)
    # handler-entry depth is information only: the statement demands a clean
    # stack *after resuming*
    info = [d for d in divs if d[0] == 'depth-at-handler-entry']
    divs = [d for d in divs if d[0] != 'depth-at-handler-entry']
    explained = []
    culprit = None
    if divs:
        run2 = S.run_plan(cache.comp, sk.script(plan), repair=True, horizon=HORIZON)
        if run2.mon.repaired:
            divs2 = S.judge(sk, plan, run2, base, exp)
            divs2 = [d for d in divs2 if d[0] != 'depth-at-handler-entry']
            keys2 = {(d[0], d[1]) for d in divs2}
            explained = [d for d in divs if (d[0], d[1]) not in keys2]
            if explained:
                divs = divs2
                # the body statement whose cells were removed first
                culprit = run2.mon.repaired_slots[0] or S.first_failing(plan)
    return divs, run, exp, (explained, culprit), info


def plan_text(plan):
    return ','.join(k or '-' for k in plan)


def make_violations(cache, plan, divs, run, exp, explained, family):
    sk = cache.skel
    explained, culprit = explained
    out = []
    size = sk.n * 100 + sum(k is not None for k in plan) * 10 + cache.opt
    case = {'mode': sk.mode, 'handler': sk.handler, 'forms': list(sk.forms),
            'plan': list(plan), 'opt': cache.opt, 'source': sk.src,
            'input': sk.script(plan)}
    want = {'end': exp['end'], 'text': S.pattern_text(exp['pattern'])}

    def feat(div, slot):
        slot = slot or S.first_failing(plan) or 1
        fname = sk.forms[slot - 1]
        kind = plan[slot - 1]
        return {'family': family, 'divergence': div, 'mode': sk.mode,
                'handler': sk.handler if sk.mode == 'A' else '-',
                'form': fname, 'kind': kind or '-',
                'cell': f'{fname}/{kind or "-"}',
                'failures': sum(k is not None for k in plan)}

    if explained:
        f = feat(RESIDUE, culprit)
        f['consequences'] = '+'.join(sorted({d[0].split(':')[0] for d in explained}))
        out.append((f, case, dict(want, invariant='operand stack and store at every later '
                                  'statement boundary as if the failed statement had not been started'),
                    {'end': f'{run.out.end} {run.out.trap or ""}'.strip(), 'text': run.text[-300:],
                     'divergences': [[d[0], d[1], d[2]] for d in explained],
                     'handler_depths': run.mon.handler}, size))
    for d in divs:
        out.append((feat(d[0], d[1]), case, want,
                    {'end': f'{run.out.end} {run.out.trap or ""}'.strip(), 'text': run.text[-300:],
                     'detail': d[2]}, size))
    return out


def work(chunk, family):
    impl.parse_cache(True)
    viol = []
    st = {'evaluations': 0, 'skeletons': 0, 'compiles': 0, 'states': 0, 'transitions': 0,
          'traces_validated_against_impl': 0, 'handler_entries': 0, 'reference_runs': 0,
          'whatif_runs': 0, 'horizon_hits': 0, 'outcomes': set(), 'nontrivial': set(),
          'state_set': set(), 'residue_cases': 0, 'open_cases': 0, 'wild_cases': 0,
          'differential_cases': 0, 'compile_timeouts': 0}
    for mode, handler, forms in chunk:
        per_opt = {}
        for opt in OPTS:
            cache = Cache(mode, handler, forms, opt)
            st['skeletons'] += 1
            if cache.comp.result.kind == 'timeout':
                st['compile_timeouts'] += 1       # wall-clock limit on a loaded machine: no verdict
                continue
            if not cache.comp.ok or cache.comp.missing:
                viol.append(({'family': family, 'divergence': 'skeleton-does-not-compile',
                              'mode': mode, 'handler': handler, 'form': '+'.join(forms)},
                             {'source': cache.skel.src, 'opt': opt},
                             'compiles; every observation point has a statement record',
                             cache.comp.result.brief() if not cache.comp.ok else
                             {'missing': [list(t) for t in cache.comp.missing]}, 1))
                continue
            for plan in plans_of(forms):
                divs, run, exp, (explained, culprit), info = evaluate(cache, plan)
                st['evaluations'] += 1
                st['traces_validated_against_impl'] += 1
                st['handler_entries'] += len(run.mon.handler)
                seq = run.mon.seq
                st['transitions'] += max(0, len(seq) - 1)
                for tag, depth, h in seq:
                    st['state_set'].add(hash((mode, handler, forms, opt, tag, h)))
                if run.out.end == 'horizon':
                    st['horizon_hits'] += 1
                if exp['open']:
                    st['open_cases'] += 1
                elif exp['wild']:
                    st['wild_cases'] += 1
                nfail = sum(k is not None for k in plan)
                st['outcomes'].add((mode, handler, run.out.end, run.out.trap,
                                    len(run.mon.handler), bool(explained), tuple(sorted(d[0] for d in divs))))
                if nfail:
                    st['nontrivial'].add((mode, handler, forms, plan))
                if explained:
                    st['residue_cases'] += 1
                if divs or explained:
                    for v in make_violations(cache, plan, divs, run, exp, (explained, culprit), family):
                        key = (v[0]['divergence'], v[0]['cell'], plan)
                        per_opt.setdefault(key, []).append((opt, v))
            st['compiles'] += cache.ncompiles
            st['reference_runs'] += len(cache.refs)
        # one violation per (divergence, cell, plan) with the set of levels that show it
        for key, lst in per_opt.items():
            opts = sorted(o for o, _ in lst)
            v = min((x for _, x in lst), key=lambda x: x[4])
            f = dict(v[0])
            f['configs'] = 'all' if len(opts) == len(OPTS) else ','.join(f'O{o}g' for o in opts)
            viol.append((f, v[1], v[2], v[3], v[4]))
    st['states'] = 0
    return viol, st


# ---------------------------------------------------------------------------

def run(chk):
    fams = space(chk.tier)
    desc = {}
    for name, items, d in fams:
        if chk.only and name not in chk.only:
            chk.cov['exhaustive'] = False
            continue
        d = dict(d)
        d['skeletons'] = len(items)
        d['fault_plans'] = sum(len(plans_of(it[2])) for it in items)
        desc[name] = d
        for viol, st in chk.pmap(work, items, extra=(name,), chunk=4 if name != 'n1' else 2):
            chk.add_violations(viol)
            chk.merge_stats(st)
        for it in (items[0], items[-1]):
            sk = S.Skeleton(*it)
            p = plans_of(it[2])[-1]
            chk.sample({'family': name, 'mode': it[0], 'handler': it[1], 'forms': list(it[2]),
                        'plan': list(p), 'input': sk.script(p), 'source': sk.src,
                        'model': S.pattern_text(S.model(it[0], it[1], it[2], p)['pattern'])})
    if chk.cov.get('compile_timeouts'):
        chk.cov['exhaustive'] = False
    sets = chk.cov.get('_sets', {})
    chk.cov['states'] = len(sets.get('state_set', ()))
    chk.cov['distinct_nontrivial'] = len(sets.get('nontrivial', ()))
    chk.assumptions = [
        'PRINT renders INTEGER values as sign, digits, space and strings verbatim (C17 checks PRINT)',
        'INPUT assigns the six INTEGER fields of a well-formed answer line (C18 checks INPUT)',
        'the statement records of the debug section give the start address of a source statement '
        '(C11 checks the map); used only to place observation points',
        'nothing is claimed for bodies longer than the stated bound or statements outside the alphabet',
    ]
    chk.finish(
        rule=('one skeleton per (arming mode, handler, body); every fault plan (per body statement: '
              'benign or one of its error kinds) is run at O0/O1/O2 with -g and judged against the '
              'statement-level model (trace, end, ERR class), the stack-depth invariant and the '
              'memory differential with the program that lacks the failing statements; '
              'evaluations = runs judged (skeleton x level x plan); distinct_nontrivial = distinct '
              '(skeleton, plan) with at least one failing statement; states = distinct (skeleton, level, '
              'observation point, memory hash) visited; transitions = steps between observation points'),
        extra_cov={'families': desc, 'modes': S.MODES, 'handlers': S.HANDLERS, 'combos': S.COMBOS,
                   'kinds': S.KINDS, 'levels': ['O%dg' % o for o in OPTS],
                   'distinct_outcomes': len(sets.get('outcomes', ()))})


def replay(rec):
    case = rec['case']
    mode, handler, forms, plan, opt = case['mode'], case['handler'], tuple(case['forms']), \
        tuple(case['plan']), case['opt']
    print(f'--- skeleton mode={mode} handler={handler} body={forms} level=O{opt} -g')
    print(case['source'])
    print('--- INPUT answers (fault plan %s):' % plan_text(plan), case['input'])
    rc = 0
    for o in OPTS:
        cache = Cache(mode, handler, forms, o)
        if not cache.comp.ok:
            print(f'O{o}: does not compile: {cache.comp.result.brief()}')
            rc = 1
            continue
        with impl.quiet():
            divs, run, exp, (explained, culprit), info = evaluate(cache, plan)
        print(f'--- O{o}g')
        print('expected :', repr(S.pattern_text(exp['pattern'])), ' end:', exp['end'])
        print('observed :', repr(run.text), ' end:', run.out.end, run.out.trap or '')
        print('stack depth at observation points:', [(list(t), d) for t, d, _ in run.mon.seq])
        print('handler entries (slot, depth, depth at statement start):', run.mon.handler)
        for d in explained:
            print('  DIVERGES (gone when the cells left by the failed statement are removed):', d)
        for d in divs:
            print('  DIVERGES:', d)
        if divs or explained:
            rc = 1
    print('VIOLATES' if rc else 'ok')
    return rc
