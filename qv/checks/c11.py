"""C11 - the debug map attributes every instruction to its source statement.

Every program of the block-shape family (qv.blockshapes; tagged statements),
of C11's own families (qv.c11_fams) and of the repository corpus is compiled
with -g at O0, O1, O2 and the debug section is checked against the decoded
code, the generator's statement table and one scripted run (qv.c11_map).
See docs/notes/C11.md."""
from .. import impl, corpus
from .. import blockshapes as bs
from .. import c11_map
from .. import c11_fams as cf

LEVEL = 'exploration'
HORIZON = 60000
COUNTERS = ('tag_instrs', 'io_checked', 'trap_checked', 'records', 'instrs',
            'empty_records', 'find_calls', 'ev_checked', 'tags_absent')


def judge(src, stmts, script, on_empty, opts=(0, 1, 2), fail=None):
    """-> ({(divergence, stmt_kind): {'opts': [...], 'detail': first}}, info)"""
    groups = {}
    info = {'accepted': False, 'tag_instrs': 0, 'io_checked': 0, 'trap_checked': 0,
            'records': 0, 'instrs': 0, 'empty_records': 0, 'outcomes': set(),
            'code_differs': False, 'find_calls': 0, 'ev_checked': 0, 'tags_absent': 0}
    codes = []
    for o in opts:
        r = impl.compile_text(src, o, True, want_listing=False)
        if not r.ok:
            info['outcomes'].add(('reject', r.kind))
            continue
        info['accepted'] = True
        try:
            mod = impl.load(r.binary)
        except ValueError as e:
            groups.setdefault(('load', '-'), {'opts': [], 'detail': str(e)[:200]})['opts'].append(o)
            continue
        codes.append(bytes(mod.code))
        bad, inf = c11_map.analyse(src, mod, stmts, script, on_empty, horizon=HORIZON, fail=fail)
        for k in COUNTERS:
            info[k] += inf[k]
        if inf['outcome']:
            info['outcomes'].add(tuple(inf['outcome']))
        for div, kind, detail in bad:
            g = groups.setdefault((div, kind), {'opts': [], 'detail': detail})
            if o not in g['opts']:
                g['opts'].append(o)
    info['code_differs'] = len(set(codes)) > 1
    return groups, info


def traits_of(stmts):
    """input-side peculiarities of a generated program that a root cause may
    hinge on (ledger matching): 'select0' = a SELECT CASE block without any
    CASE clause; 'codeless-body' = a block body that is not empty but holds
    only declarations / DATA / comments / labels (statements without code)"""
    if not stmts:
        return []
    out = set()
    for s in stmts:
        if s['kind'] == 'select' and not any(
                c['blk'] == s['id'] and c['kind'] in ('case', 'caseelse') for c in stmts):
            out.add('select0')
        kids = [c for c in stmts if c['parent'] == s['id']]
        if kids and s['kind'] != 'if1' and all(c.get('nocode') for c in kids):
            out.add('codeless-body')
    return sorted(out)


def _feat_of(fam, feat, div, kind, opts, stmts):
    """coarse on purpose: one root cause should be one group.  The construct,
    conditions and layout of the representative are in case['feat']."""
    return {'family': fam, 'divergence': div, 'stmt': kind,
            'from_opt': 'O%d' % min(opts), 'traits': traits_of(stmts)}


def materialise(item):
    """item -> (src, stmts, script, on_empty, fail, feat)"""
    fam = item[0]
    if fam == 'corpus':
        _, src, script, feat = item
        return src, None, script, None, None, feat
    _, payload, style, feat = item
    if fam in ('kinds', 'headers'):
        src, stmts = cf.build(payload, style)
        fail = cf.FAIL_DEVICES if any(s['kind'] == 'devfail' for s in stmts) else None
        return src, stmts, cf.SCRIPT, cf.ON_EMPTY, fail, feat
    if fam == 'layout':
        p = bs.render(payload, 'nl', feat)
        src, stmts = cf.relayout(p.src, p.stmts, style)
        return src, stmts, bs.SCRIPT, bs.ON_EMPTY, None, feat
    p = bs.render(payload, style, feat)
    return p.src, p.stmts, bs.SCRIPT, bs.ON_EMPTY, None, feat


def eval_chunk(chunk):
    impl.parse_cache(True)
    viol = []
    st = {'evaluations': 0, 'compiles': 0, 'accepted': 0, 'nontrivial': 0,
          'code_differs_across_O': 0, 'outcomes': set(), 'per_family': {}}
    for k in COUNTERS:
        st[k] = 0
    for item in chunk:
        fam = item[0]
        src, stmts, script, on_empty, fail, feat = materialise(item)
        groups, info = judge(src, stmts, script, on_empty, fail=fail)
        st['evaluations'] += 1
        st['compiles'] += 3
        st['per_family'][fam] = st['per_family'].get(fam, 0) + 1
        if info['accepted']:
            st['accepted'] += 1
        for k in COUNTERS:
            st[k] += info[k]
        if info['tag_instrs'] + info['io_checked'] + info['trap_checked'] > 0 or \
                (fam == 'corpus' and info['records'] > 0):
            st['nontrivial'] += 1
        if info['code_differs']:
            st['code_differs_across_O'] += 1
        st['outcomes'] |= {(fam,) + tuple(x) for x in info['outcomes']}
        for (div, kind), g in groups.items():
            f = _feat_of(fam, feat, div, kind, g['opts'], stmts)
            case = {'src': src, 'stmts': stmts, 'script': script, 'on_empty': on_empty,
                    'fail': list(fail) if fail else None,
                    'feat': feat, 'opt': g['opts'][0], 'opts': g['opts']}
            viol.append((f, case, 'debug map consistent with code, source and run',
                         {'divergence': div, 'detail': impl.jsonable(g['detail'])}, len(src)))
    return viol, st


def space(tier):
    fams = {}
    for fam, p in bs.programs(tier):
        fams.setdefault(fam, []).append((fam, p.shape, p.style, p.feat))
    fams['kinds'] = [('kinds', nodes, style, feat) for feat, nodes, style in cf.kinds_programs(tier)]
    fams['headers'] = [('headers', nodes, style, feat) for feat, nodes, style in cf.header_programs(tier)]
    fams['pairs'] = [('pairs', items, style, feat) for feat, items, style in cf.pair_programs(tier)]
    fams['layout'] = [('layout', items, style, feat) for feat, items, style in cf.layout_programs(tier)]
    cs = []
    for c in corpus.cases():
        cs.append(('corpus', c['src'], corpus.script_of(c),
                   {'construct': 'corpus', 'file': c['file'], 'idx': c['idx']}))
    fams['corpus'] = cs
    return fams


def run(chk):
    from .c08 import space_descr
    fams = space(chk.tier)
    desc = {}
    for name, items in fams.items():
        if chk.only and name not in chk.only:
            chk.cov['exhaustive'] = False
            continue
        desc[name] = {'cases': len(items)}
        for viol, st in chk.pmap(eval_chunk, items, chunk=60):
            chk.add_violations(viol)
            chk.merge_stats(st)
        for it in (items[0], items[len(items) // 2], items[-1]):
            chk.sample({'family': name, 'src': materialise(it)[0][:300]})
    chk.cov['distinct_nontrivial'] = chk.cov.get('nontrivial', 0)
    nout = len(chk.cov.get('_sets', {}).get('outcomes', ()))
    chk.assumptions = [
        'programs are those of the block-shape family (nesting <= 2, bounds in coverage.space), of '
        'qv.c11_fams (statement kinds x contexts, header expressions that trap or call a device, adjacent '
        'constructs, re-laid-out depth-1 programs) and the corpus',
        'ground truth exists only for instructions that carry a tag literal, for executed device '
        'instructions whose event names its statement and for the address of a constructed run-time '
        'error; other instructions are judged structurally (coverage, uniqueness, nesting)',
        'corpus programs have no statement table: structural oracles and non-None attribution only',
        'one scripted run per module, cut at %d ticks' % HORIZON,
    ]
    chk.finish(
        rule=('each program is compiled with -g at O0,O1,O2; non-trivial = a module in which at least one '
              'tagged instruction, executed io or trap address was checked against the generator '
              '(corpus: a module with statement records); outcomes = distinct (family, end, trap) classes'),
        extra_cov={'families': desc, 'space': space_descr(chk.tier),
                   'configs': ['O0g', 'O1g', 'O2g'], 'distinct_outcomes': nout})


def replay(rec):
    case = rec['case']
    src = case['src']
    print('--- source ---')
    print(src)
    groups, info = judge(src, case.get('stmts'), case.get('script'), case.get('on_empty'),
                         fail=case.get('fail'))
    for o in (0, 1, 2):
        r = impl.compile_text(src, o, True)
        print(f'--- O{o} -g: {r.brief()}')
        if r.ok:
            print(c11_map.table(src, impl.load(r.binary)))
    for (div, kind), g in groups.items():
        print('VIOLATES:', div, kind, 'at', g['opts'], impl.jsonable(g['detail']))
    return 1 if groups else 0
