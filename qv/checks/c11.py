"""C11 - the debug map attributes every instruction to its source statement.

Every program of the block-shape family (qv.blockshapes; tagged statements)
and of the repository corpus is compiled with -g at O0, O1, O2 and the debug
section is checked against the decoded code, the generator's statement table
and one scripted run (qv.c11_map)."""
from .. import impl, corpus
from .. import blockshapes as bs
from .. import c11_map

LEVEL = 'exploration'
HORIZON = 60000


def judge(src, stmts, script, on_empty, opts=(0, 1, 2)):
    """-> ({(divergence, stmt_kind): {'opts': [...], 'detail': first}}, info)"""
    groups = {}
    info = {'accepted': False, 'tag_instrs': 0, 'io_checked': 0, 'trap_checked': 0,
            'records': 0, 'instrs': 0, 'empty_records': 0, 'outcomes': set(),
            'code_differs': False, 'find_calls': 0}
    codes = []
    for o in opts:
        r = impl.compile_text(src, o, True, want_listing=False)
        if not r.ok:
            info['outcomes'].add(('reject', r.kind))
            continue
        info['accepted'] = True
        try:
            mod = impl.load(r.binary)
        except ValueError as e:
            groups.setdefault(('load', '-'), {'opts': [], 'detail': str(e)[:200]})['opts'].append(o)
            continue
        codes.append(bytes(mod.code))
        bad, inf = c11_map.analyse(src, mod, stmts, script, on_empty, horizon=HORIZON)
        for k in ('tag_instrs', 'io_checked', 'trap_checked', 'records', 'instrs',
                  'empty_records', 'find_calls'):
            info[k] += inf[k]
        if inf['outcome']:
            info['outcomes'].add(tuple(inf['outcome']))
        for div, kind, detail in bad:
            g = groups.setdefault((div, kind), {'opts': [], 'detail': detail})
            if o not in g['opts']:
                g['opts'].append(o)
    info['code_differs'] = len(set(codes)) > 1
    return groups, info


def _feat_of(fam, feat, div, kind, opts):
    f = {'family': fam, 'divergence': div, 'stmt': kind,
         'opt': ','.join(f'O{o}' for o in sorted(opts))}
    for k in ('construct', 'cond'):
        if k in feat:
            f[k] = feat[k]
    if 'outer' in feat:
        f['cond'] = feat['outer'].get('cond', '-')
        f['inner_cond'] = feat['inner'].get('cond', '-')
    return f


def eval_chunk(chunk):
    impl.parse_cache(True)
    viol = []
    st = {'evaluations': 0, 'compiles': 0, 'accepted': 0, 'nontrivial': 0,
          'tag_instrs': 0, 'io_checked': 0, 'trap_checked': 0, 'records': 0,
          'instrs': 0, 'empty_records': 0, 'find_calls': 0, 'code_differs_across_O': 0,
          'outcomes': set(), 'per_family': {}}
    for item in chunk:
        fam = item[0]
        if fam == 'corpus':
            _, src, script, feat = item
            stmts, on_empty = None, None
        else:
            _, shape, style, feat = item
            p = bs.render(shape, style, feat)
            src, stmts, script, on_empty = p.src, p.stmts, bs.SCRIPT, bs.ON_EMPTY
        groups, info = judge(src, stmts, script, on_empty)
        st['evaluations'] += 1
        st['compiles'] += 3
        st['per_family'][fam] = st['per_family'].get(fam, 0) + 1
        if info['accepted']:
            st['accepted'] += 1
        for k in ('tag_instrs', 'io_checked', 'trap_checked', 'records', 'instrs',
                  'empty_records', 'find_calls'):
            st[k] += info[k]
        if info['tag_instrs'] + info['io_checked'] + info['trap_checked'] > 0 or \
                (fam == 'corpus' and info['records'] > 0):
            st['nontrivial'] += 1
        if info['code_differs']:
            st['code_differs_across_O'] += 1
        st['outcomes'] |= {(fam,) + tuple(x) for x in info['outcomes']}
        for (div, kind), g in groups.items():
            f = _feat_of(fam, feat, div, kind, g['opts'])
            case = {'src': src, 'stmts': stmts, 'script': script, 'on_empty': on_empty,
                    'feat': feat, 'opt': g['opts'][0]}
            viol.append((f, case, 'debug map consistent with code, source and run',
                         {'divergence': div, 'detail': impl.jsonable(g['detail'])}, len(src)))
    return viol, st


def space(tier):
    fams = {}
    for fam, p in bs.programs(tier):
        fams.setdefault(fam, []).append((fam, p.shape, p.style, p.feat))
    cs = []
    for c in corpus.cases():
        cs.append(('corpus', c['src'], corpus.script_of(c),
                   {'construct': 'corpus', 'file': c['file'], 'idx': c['idx']}))
    fams['corpus'] = cs
    return fams


def run(chk):
    from .c08 import space_descr
    fams = space(chk.tier)
    desc = {}
    for name, items in fams.items():
        if chk.only and name not in chk.only:
            chk.cov['exhaustive'] = False
            continue
        desc[name] = {'cases': len(items)}
        for viol, st in chk.pmap(eval_chunk, items, chunk=60):
            chk.add_violations(viol)
            chk.merge_stats(st)
        for it in (items[0], items[len(items) // 2], items[-1]):
            if name == 'corpus':
                chk.sample({'family': name, 'src': it[1][:300]})
            else:
                chk.sample({'family': name, 'src': bs.render(it[1], it[2]).src[:300]})
    chk.cov['distinct_nontrivial'] = chk.cov.get('nontrivial', 0)
    nout = len(chk.cov.get('_sets', {}).get('outcomes', ()))
    chk.assumptions = [
        'programs are those of the block-shape family (nesting <= 2, bounds in coverage.space) and the corpus',
        'ground truth exists only for instructions that carry a tag literal, for executed device '
        'instructions and for the constructed overflowing statement; untagged instructions are judged '
        'structurally (coverage, uniqueness, nesting)',
        'corpus programs have no statement table: structural oracles and non-None attribution only',
        'one scripted run per module, cut at %d ticks' % HORIZON,
    ]
    chk.finish(
        rule=('each program is compiled with -g at O0,O1,O2; non-trivial = a module in which at least one '
              'tagged instruction, executed io or trap address was checked against the generator '
              '(corpus: a module with statement records); outcomes = distinct (family, end, trap) classes'),
        extra_cov={'families': desc, 'space': space_descr(chk.tier),
                   'configs': ['O0g', 'O1g', 'O2g'], 'distinct_outcomes': nout})


def replay(rec):
    case = rec['case']
    src = case['src']
    print('--- source ---')
    print(src)
    groups, info = judge(src, case.get('stmts'), case.get('script'), case.get('on_empty'))
    for o in (0, 1, 2):
        r = impl.compile_text(src, o, True)
        print(f'--- O{o} -g: {r.brief()}')
        if r.ok:
            print(c11_map.table(src, impl.load(r.binary)))
    for (div, kind), g in groups.items():
        print('VIOLATES:', div, kind, 'at', g['opts'], impl.jsonable(g['detail']))
    return 1 if groups else 0
