"""C14 - spelling, spacing, comments and separators do not change the program.

Every program of the repository corpus that compiles, and the programs under
/verif/programs/c14, is rewritten by every rule of the behaviour-neutral
catalogue (qv.c14_rewrite) at every applicable site, by every rule applied at
all its sites at once, and by combinations of rules (see `plan`).  Original
and rewritten text are compiled by the real compiler; sections 1-4 of the
module must be identical, else the device trace and outcome under the
program's script must be identical.  Acceptance must not change."""
import glob
import itertools
import os

from .. import impl, corpus
from .. import c14_rewrite as rw

LEVEL = 'exploration'

ROOT = os.path.dirname(os.path.dirname(os.path.dirname(os.path.abspath(__file__))))
PROG_DIR = os.path.join(ROOT, 'programs', 'c14')
HORIZON = 60000
QUICK_CFGS = [(0, False), (2, False)]


def cfgs_of(tier):
    return QUICK_CFGS if tier == 'quick' else list(impl.CONFIGS)


def cfg_name(c):
    return 'O%d%s' % (c[0], 'g' if c[1] else '')


# ----------------------------------------------------------------------
# programs

def own_programs():
    out = []
    for fn in sorted(glob.glob(os.path.join(PROG_DIR, '*.bas'))):
        with open(fn) as f:
            src = f.read()
        script = {}
        for line in src.split('\n'):
            s = line.strip()
            if s.lower().startswith("'#input:"):
                script['input'] = [x for x in s[8:].strip().split('|')]
            elif s.lower().startswith("'#inkey:"):
                script['inkey'] = [x for x in s[8:].strip().split('|')]
            elif s.lower().startswith("'#rnd:"):
                script['rnd'] = [float(x) for x in s[6:].strip().split('|')]
            elif s.lower().startswith("'#timer:"):
                script['timer'] = [float(x) for x in s[8:].strip().split('|')]
        out.append(('own', os.path.basename(fn), src, script))
    return out


def corpus_programs():
    out = []
    for c in corpus.cases():
        if c['expected'] not in ('success', 'trap'):
            continue
        out.append(('corpus', '%s#%d' % (c['file'], c['idx']), c['src'], corpus.script_of(c)))
    return out


# ----------------------------------------------------------------------
# oracle

class Baseline:
    """the original program compiled (and lazily run) in each configuration"""

    def __init__(self, src, script, cfgs):
        self.src = src
        self.script = script
        self.cfgs = cfgs
        self.res = {}
        self.out = {}
        self.ok = True
        for c in cfgs:
            r = compile_cfg(src, c)
            if not r.ok:
                self.ok = False
                self.why = cfg_name(c) + ': ' + r.brief()
                break
            self.res[c] = sections(r.binary)
            self.res[c, 'bin'] = r.binary

    def outcome(self, c):
        if c not in self.out:
            self.out[c] = run_binary(self.res[c, "bin"], self.script)
        return self.out[c]


def compile_cfg(text, c):
    """compile; a timeout (busy machine) is retried once with a generous limit"""
    r = impl.compile_text(text, c[0], c[1], limit=30.0, want_listing=False)
    if r.kind == 'timeout':
        r = impl.compile_text(text, c[0], c[1], limit=600.0, want_listing=False)
    return r


def sections(binary):
    s = impl.split_sections(binary)
    return tuple(s.get(i) for i in (1, 2, 3, 4))


def run_binary(binary, script):
    try:
        mod = impl.load(binary)
    except Exception as e:      # loader refused
        return ('load-error', type(e).__name__, None)
    env = impl.Env(script)
    out, _ = impl.run_module(mod, env, horizon=HORIZON)
    return (out.end, out.trap or out.exc, impl.jsonable(out.events))


def judge(base, text, cache=None):
    """-> (cls, detail)  cls: identical | same-trace | undecided |
    acceptance | crash | trace   (the last three are violations)"""
    if cache is not None and text in cache:
        return cache[text]
    worst = ('identical', None)
    bad = []
    for c in base.cfgs:
        r = compile_cfg(text, c)
        if not r.ok:
            div = 'crash' if r.kind in ('crash', 'timeout') else 'acceptance'
            bad.append((div, cfg_name(c), r.brief()))
            continue
        if sections(r.binary) == base.res[c]:
            continue
        o0 = base.outcome(c)
        o1 = run_binary(r.binary, base.script)
        if o0[0] == 'horizon' or o1[0] == 'horizon':
            if worst[0] == 'identical':
                worst = ('undecided', cfg_name(c))
            continue
        if o0 == o1:
            if worst[0] in ('identical', 'undecided'):
                worst = ('same-trace', cfg_name(c))
        else:
            bad.append(('trace', cfg_name(c), {'original': _short(o0), 'rewritten': _short(o1)}))
    if bad:
        worst = (bad[0][0], bad)
    if cache is not None:
        if len(cache) > 50000:
            cache.clear()
        cache[text] = worst
    return worst


def judge_uncached(base, text):
    """judge() with qbee's own line rule in place of the memoising proxy (the
    proxy object, and with it the memo, is kept)"""
    import qbee.parser as qp
    prox = getattr(qp, 'line_rule', None)
    real = getattr(prox, 'real', None)
    if real is None:
        return judge(base, text, None)
    qp.line_rule = real
    try:
        return judge(base, text, None)
    finally:
        qp.line_rule = prox


def _short(o):
    ev = o[2]
    if isinstance(ev, list) and len(ev) > 12:
        ev = ev[:12] + ['...']
    return [o[0], o[1], ev]


VIOLATING = ('acceptance', 'crash', 'trace')
QUICK_WPAIR_CORPUS = 100     # the smallest corpus programs get rule pairs in the quick tier
TRIPLE_CORPUS = 30
TRIPLE_OWN = 5
LITE_DROP = {('line-rem', 'apostrophe'), ('line-empty', 'blank')}


# ----------------------------------------------------------------------
# combinations

def whole_edits(edits):
    """every (rule, variant) applied at all its (mutually compatible) sites"""
    groups = {}
    for e in edits:
        groups.setdefault((e.rule, e.variant), []).append(e)
    out = []
    for key, es in groups.items():
        keep = []
        seen = set()
        for e in es:
            if not (seen & e.res):
                keep.append(e)
                seen |= e.res
        out.append((key, keep))
    return out


def merge(groups):
    """union of several edit lists; later ones lose their conflicting members"""
    keep = []
    seen = set()
    dropped = 0
    for es in groups:
        for e in es:
            if seen & e.res:
                dropped += 1
                continue
            keep.append(e)
            seen |= e.res
    return keep, dropped


def canonical_whole(wh):
    """one whole-program application per rule (first variant)"""
    seen = {}
    for (rule, var), es in wh:
        if rule not in seen:
            seen[rule] = ((rule, var), es)
    return list(seen.values())


# ----------------------------------------------------------------------
# worker

def _features(fam, div, edits, bad):
    rules = sorted({e.rule for e in edits})
    f = {'family': fam, 'divergence': div, 'rules': '+'.join(rules)}
    if len(edits) == 1 or len(rules) == 1:
        e = edits[0]
        f['variant'] = e.variant
        f['stmt'] = e.stmt if len(edits) == 1 else 'whole-program'
        f['tok'] = e.tok if len(edits) == 1 else 'whole-program'
    else:
        f['variant'] = '+'.join(sorted({e.rule + ':' + e.variant for e in edits}))
        f['stmt'] = 'combination'
        f['tok'] = 'combination'
    cf = sorted({b[1] for b in bad})
    f['configs'] = ','.join(cf)
    return f


def eval_item(chunk, tier):
    impl.parse_cache(True)
    cfgs = cfgs_of(tier)
    viol = []
    st = {'evaluations': 0, 'variants_distinct': 0, 'programs': 0, 'skipped_programs': 0,
          'identical': 0, 'same_trace': 0, 'undecided': 0, 'violating': 0,
          'conflicting_combinations': 0, 'subsumed': 0, 'noop_variants': 0,
          'uncached_rechecks': 0, 'uncached_mismatch': 0,
          'rule_sites': {}, 'rule_variants': {}, 'mode_variants': {},
          'outcomes': set(), 'nontrivial': set(), 'frozen_lines': 0, 'lines': 0}
    for fam, name, src, script, mode, shard, nshards in chunk:
        prog = rw.Prog(src)
        base = Baseline(src, script, cfgs)
        if mode == 'single':
            st['programs'] += 1
            st['lines'] += len(prog.lines)
            st['frozen_lines'] += sum(1 for ln in prog.lines if ln.frozen)
        if not base.ok:
            if mode == 'single':
                st['skipped_programs'] += 1
            continue
        edits = rw.single_edits(prog)
        cache = {}
        single_cls = {}

        def single_bad(e):
            k = id(e)
            if k not in single_cls:
                single_cls[k] = judge(base, rw.render(prog, [e]), cache)[0] in VIOLATING
            return single_cls[k]

        combos = []
        if mode == 'single':
            lite = tier == 'quick'
            for e in edits:
                st['rule_sites'][e.rule] = st['rule_sites'].get(e.rule, 0) + 1
                if lite and (e.variant == 'gap' or (e.rule, e.variant) in LITE_DROP):
                    continue
                combos.append(('single', [e]))
            # blanks also per line (all gaps of a line at once); in the quick
            # tier this replaces the per-gap applications
            for e in rw.single_edits(prog, rules=['blank-widen', 'blank-tab', 'blank-insert', 'blank-remove'],
                                     per_line_blanks=True):
                if len(e.ops) > 1 or lite:
                    combos.append(('line', [e]))
            for key, es in whole_edits(edits):
                if len(es) > 1:
                    combos.append(('whole', es))
        elif mode == 'wpair':
            cw = canonical_whole(whole_edits(edits))
            for (k1, e1), (k2, e2) in itertools.combinations(cw, 2):
                combos.append(('wpair', (e1, e2)))
        elif mode == 'wtriple':
            cw = canonical_whole(whole_edits(edits))
            for a, b, c in itertools.combinations(cw, 3):
                combos.append(('wtriple', (a[1], b[1], c[1])))
        elif mode == 'linepair':
            lite = [e for e in edits if e.variant != 'gap' and (e.rule, e.variant) not in LITE_DROP]
            # one case variant per token here (the first one that differs from the original)
            seen_tok = set()
            keep = []
            for e in lite:
                if e.rule in ('kwcase', 'idcase'):
                    k = (e.rule, e.ops[0][1], e.ops[0][2])
                    if k in seen_tok:
                        continue
                    seen_tok.add(k)
                keep.append(e)
            lite = keep
            lite += rw.single_edits(prog, rules=['blank-widen', 'blank-tab', 'blank-insert', 'blank-remove'],
                                    per_line_blanks=True)
            idx = 0
            for e1, e2 in itertools.combinations(lite, 2):
                if e1.rule == e2.rule or not (e1.lines & e2.lines):
                    continue
                idx += 1
                if idx % nshards != shard:
                    continue
                combos.append((mode, [e1, e2]))
        for kind, es in combos:
            if kind in ('wpair', 'wtriple'):
                es, dropped = merge(es)
                if dropped:
                    st['conflicting_combinations'] += 1
            elif not rw.compatible(es):
                st['conflicting_combinations'] += 1
                continue
            text = rw.render(prog, es)
            st['evaluations'] += 1
            st['mode_variants'][kind] = st['mode_variants'].get(kind, 0) + 1
            if text == src:
                st['noop_variants'] += 1
                continue
            fresh = text not in cache
            cls, detail = judge(base, text, cache)
            rules = '+'.join(sorted({e.rule for e in es}))
            if fresh:
                st['variants_distinct'] += 1
                st['nontrivial'].add(hash((name, text)))
            st['rule_variants'][rules if kind in ('single', 'line', 'whole') else kind] = \
                st['rule_variants'].get(rules if kind in ('single', 'line', 'whole') else kind, 0) + 1
            st['outcomes'].add((rules if len(es) == 1 else kind, cls))
            if cls == 'identical':
                st['identical'] += 1
            elif cls == 'same-trace':
                st['same_trace'] += 1
            elif cls == 'undecided':
                st['undecided'] += 1
            else:
                st['violating'] += 1
                if len(es) > 1 and kind != 'line':
                    if any(single_bad(e) for e in es):
                        st['subsumed'] += 1
                        continue
                    es = shrink(prog, base, es, cache)
                    text = rw.render(prog, es)
                    cls, detail = judge(base, text, cache)
                feat = _features(fam, cls, es, detail)
                viol.append((feat,
                             {'program': name, 'original': src, 'rewritten': text, 'script': script,
                              'configs': [list(c) for c in cfgs],
                              'edits': [e.describe() for e in es]},
                             'identical sections 1-4, or identical device trace and outcome; same acceptance',
                             impl.jsonable(detail), len(es) * 100000 + len(src)))
            # parse-cache fidelity: every 64th fresh variant once more without the memo
            if fresh and st['variants_distinct'] % 64 == 0:
                st['uncached_rechecks'] += 1
                again = judge_uncached(base, text)
                if again[0] != cls:
                    st['uncached_mismatch'] += 1
                    viol.append(({'family': fam, 'divergence': 'parse-memo-mismatch', 'rules': rules},
                                 {'program': name, 'original': src, 'rewritten': text, 'script': script,
                                  'configs': [list(c) for c in cfgs], 'edits': [e.describe() for e in es]},
                                 cls, again[0], len(src)))
    return viol, st


def shrink(prog, base, es, cache):
    """greedy removal of edits while the variant still violates"""
    es = list(es)
    i = 0
    budget = 60
    while i < len(es) and len(es) > 1 and budget > 0:
        cand = es[:i] + es[i + 1:]
        budget -= 1
        if judge(base, rw.render(prog, cand), cache)[0] in VIOLATING:
            es = cand
        else:
            i += 1
    return es


# ----------------------------------------------------------------------

def plan(tier):
    """-> list of items (family, name, src, script, mode, shard, nshards)"""
    cor = corpus_programs()
    own = own_programs()
    progs = cor + own
    by_size = sorted(cor, key=lambda p: (len(p[2]), p[1]))
    own_by_size = sorted(own, key=lambda p: (len(p[2]), p[1]))
    items = []
    for fam, name, src, script in progs:
        items.append((fam, name, src, script, 'single', 0, 1))
    if tier == 'quick':
        sel = by_size[:QUICK_WPAIR_CORPUS] + own
        for fam, name, src, script in sel:
            items.append((fam, name, src, script, 'wpair', 0, 1))
        descr = {'single': len(progs), 'wpair': len(sel)}
    else:
        for fam, name, src, script in progs:
            items.append((fam, name, src, script, 'wpair', 0, 1))
            n = 1 if fam == 'corpus' else 4
            for k in range(n):
                items.append((fam, name, src, script, 'linepair', k, n))
        sel = by_size[:TRIPLE_CORPUS] + own_by_size[:TRIPLE_OWN]
        for fam, name, src, script in sel:
            items.append((fam, name, src, script, 'wtriple', 0, 1))
        descr = {'single': len(progs), 'wpair': len(progs), 'linepair': len(progs), 'wtriple': len(sel)}
    return items, progs, descr


def run(chk):
    items, progs, descr = plan(chk.tier)
    if chk.only:
        items = [it for it in items if it[4] in chk.only or it[0] in chk.only]
        chk.cov['exhaustive'] = False
    if os.environ.get('C14_PROGRAMS'):      # development aid: named programs only
        names = set(os.environ['C14_PROGRAMS'].split(','))
        items = [it for it in items if it[1] in names]
        chk.cov['exhaustive'] = False
    # big programs first so that the tail of the pool is short
    items.sort(key=lambda it: (-len(it[2]) * (3 if it[4] != 'single' else 1), it[1], it[4], it[5]))
    for viol, st in chk.pmap(eval_item, items, extra=(chk.tier,), chunk=1):
        chk.add_violations(viol)
        chk.merge_stats(st)
    sets = chk.cov.get('_sets', {})
    chk.cov['distinct_nontrivial'] = len(sets.get('nontrivial', ()))
    outcomes = sorted(sets.get('outcomes', ()))
    by_rule = {}
    for r, c in outcomes:
        by_rule.setdefault(r, []).append(c)
    for fam, name, src, script in (progs[0], progs[len(progs) // 2], progs[-1]):
        p = rw.Prog(src)
        ed = rw.single_edits(p)
        if ed:
            e = ed[len(ed) // 2]
            chk.sample({'program': name, 'original': src[:400], 'rule': e.rule, 'variant': e.variant,
                        'rewritten': rw.render(p, [e])[:400]})
    chk.assumptions = [
        'programs: the corpus snippets that compile and programs/c14/*.bas; nothing is claimed for other programs',
        'the rewritings are those of qv/c14_rewrite.py; text inside string literals, comments and DATA bodies is never touched; '
        'lines the tokenizer is unsure about are left alone (counted as frozen_lines)',
        'one scripted environment per program; runs are cut at %d ticks (a cut on either side = no verdict)' % HORIZON,
        'the per-line parse memo is used for unchanged lines; every 64th distinct variant is recompiled without it and must agree',
    ]
    chk.finish(
        rule=('each program x every single rule application at every site (quick: blank rules per line instead of per gap, '
              'one REM-line and one empty-line variant), every (rule, variant) at all sites at once, '
              + ('all pairs of whole-program rules on the %d smallest corpus programs and all own programs' % QUICK_WPAIR_CORPUS
                 if chk.tier == 'quick' else
                 'all pairs of whole-program rules on every program, all triples of whole-program rules on the %d smallest '
                 'corpus and %d smallest own programs, all pairs of single applications of distinct rules that touch a common line '
                 '(blank rules per line, one case variant per token)' % (TRIPLE_CORPUS, TRIPLE_OWN))
              + '; compiled in the listed configs and compared with the original (sections 1-4, else trace+outcome). '
              'non-trivial = distinct rewritten text different from the original, compiled and compared; '
              'outcomes = distinct (rule or mode, verdict class) pairs'),
        extra_cov={'configs': [cfg_name(c) for c in cfgs_of(chk.tier)],
                   'families': {'corpus': {'programs': sum(1 for p in progs if p[0] == 'corpus')},
                                'own': {'programs': sum(1 for p in progs if p[0] == 'own')}},
                   'rules': rw.RULES, 'programs_per_mode': descr,
                   'distinct_outcomes': len(outcomes),
                   'verdict_classes_by_rule': by_rule})


def replay(rec):
    case = rec['case']
    cfgs = [tuple(c) for c in case['configs']]
    script = case.get('script') or {}
    print('--- original ---')
    print(case['original'])
    print('--- rewritten (%s) ---' % ', '.join(e['rule'] + ':' + e['variant'] for e in case.get('edits', [])))
    print(case['rewritten'])
    base = Baseline(case['original'], script, cfgs)
    if not base.ok:
        print('original no longer compiles:', base.why)
        return 0
    cls, detail = judge(base, case['rewritten'])
    for c in cfgs:
        r = compile_cfg(case['rewritten'], c)
        same = r.ok and sections(r.binary) == base.res[c]
        print(f'{cfg_name(c)}: original ok; rewritten {r.brief()}; sections 1-4 '
              f'{"identical" if same else "DIFFER" if r.ok else "n/a"}')
        if r.ok and not same:
            print('   original :', _short(base.outcome(c)))
            print('   rewritten:', _short(run_binary(r.binary, script)))
    print('verdict:', cls, impl.jsonable(detail) if cls in VIOLATING else '')
    return 1 if cls in VIOLATING else 0
