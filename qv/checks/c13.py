"""C13 - debugger expression evaluation agrees with the running program.

For every debuggee of programs/eval (compiled -g at O0 and O2) the real
debugger (qvm.dbg.Cmd through qv.dbgdrive) is driven with step^k until the
program finishes.  At every stop the expressions of the tier's bound over the
names that are *visible and assigned* there (qv.c13_scope: a small reference
model of scoping and assignment, fed with the statements the program executes)
are evaluated with `print <expr>` and compared with what the program itself
obtains:

* the debuggee is compiled as a *probe variant*: behind an inserted `END`
  (main) / `EXIT SUB` / `EXIT FUNCTION` (each procedure) stands a block of
  `PRINT <expr>` statements - dead code, so the program's behaviour is not
  shifted at all (checked: same device trace as the unmodified program).  At a
  stop the machine is forked, the fork's pc is put on the probe statement of
  the routine the current frame belongs to, and the fork runs that one
  statement: the typed value found on the operand stack at the print
  instruction is the value the program obtains for the expression *there*.
* expressions without a probe statement (quick tier: most operator
  expressions) get their expected value from the reference arithmetic
  (qv.ref.values, the model C01 validates) applied to the *program-obtained*
  typed values of their atoms; every expression that has both is cross-checked
  (ref-vs-program, a self-check).

Also judged: no exception escapes `onecmd`; canonical machine state and device
trace are identical before and after every `print`; unknown names, names of
other scopes and subscripts one beyond each bound give an error text and no
value; the same after the program has finished (no crash, no change).
Cells the statement leaves open are skipped: unassigned names, expressions
whose evaluation traps in the program, stops at a SUB/FUNCTION header (the
callee's frame does not exist yet)."""
import glob
import json
import os
import re

from .. import impl
from ..dbgdrive import Debuggee, Session, frame_depth
from ..explore import canon_machine, memory_view
from ..ref import values as V
from .. import c13_scope as S

LEVEL = 'model_checking'

ROOT = os.path.dirname(os.path.dirname(os.path.dirname(os.path.abspath(__file__))))
PROG_DIR = os.path.join(ROOT, 'programs', 'eval')
OPTS = (0, 2)
OPS_NUM = ['+', '-', '*', '/', '\\', 'MOD', '=', '<', 'AND', 'OR']
OPS_STR = ['+', '=', '<']
UNARY = ['-', 'NOT']
MAX_STOPS = 400
E2_NUM_REPS = 2      # two-operator expressions: representatives of at most 2 numeric leaf types
# a probe statement for every one-operator expression (instead of one per class): 15-50 ms of parsing per
# distinct line, ~1 CPU-minute per debuggee; off: the loaded build machine could not finish a run with it
PROBE_ALL_ONE_OP = bool(os.environ.get('C13_PROBE_ALL'))
UNKNOWN = ['zz9%', 'qq7$', 'nosuch', 'nosuch(1)', 'nosuch.f']
# expressions the debugger cannot be expected to evaluate: only "does not crash"
BEYOND = ['{num} +', 'ABS({num})', '{fn}(1)', '', '({num}', '{num} {num}']


class HarnessError(Exception):
    pass


# ---------------------------------------------------------------------------
# expressions: ('a', text) | ('u', op, e) | ('b', op, e1, e2)

def etext(e):
    if e[0] == 'a':
        return e[1]
    if e[0] == 'u':
        inner = etext(e[2]) if e[2][0] == 'a' else '(' + etext(e[2]) + ')'
        return ('-' if e[1] == '-' else 'NOT ') + inner
    l = etext(e[2]) if e[2][0] == 'a' else '(' + etext(e[2]) + ')'
    r = etext(e[3]) if e[3][0] == 'a' else '(' + etext(e[3]) + ')'
    return f'{l} {e[1]} {r}'


def eops(e):
    if e[0] == 'a':
        return 0
    if e[0] == 'u':
        return 1 + eops(e[2])
    return 1 + eops(e[2]) + eops(e[3])


def eatoms(e):
    if e[0] == 'a':
        return [e[1]]
    if e[0] == 'u':
        return eatoms(e[2])
    return eatoms(e[2]) + eatoms(e[3])


def subexprs(e):
    """the one-operator subexpressions over atoms inside e (e itself included)"""
    if e[0] == 'a':
        return []
    kids = [e[2]] if e[0] == 'u' else [e[2], e[3]]
    out = []
    for k in kids:
        out += subexprs(k)
    if all(k[0] == 'a' for k in kids):
        out.append(e)
    return out


def eoplist(e):
    if e[0] == 'a':
        return []
    if e[0] == 'u':
        return [e[1]] + eoplist(e[2])
    return [e[1]] + eoplist(e[2]) + eoplist(e[3])


def eshape(e):
    if e[0] == 'a':
        return 'x'
    if e[0] == 'u':
        return f'{e[1]}({eshape(e[2])})'
    return f'({eshape(e[2])} {e[1]} {eshape(e[3])})'


def ref_eval(e, vals):
    """Val or ('trap', cls) ; vals: atom text -> Val"""
    try:
        return _ref(e, vals)
    except V.QBError as q:
        return ('trap', q.cls)
    except TypeError as t:
        # the program's own value has another class than its declaration says
        # (only seen with a broken compiler): nothing to compare with
        return ('trap', 'TypeError: ' + str(t))


def _ref(e, vals):
    if e[0] == 'a':
        return vals[e[1]]
    if e[0] == 'u':
        return V.unop(e[1], _ref(e[2], vals))
    l = _ref(e[2], vals)
    r = _ref(e[3], vals)
    return V.binop(e[1], l, r)


def one_op(num, strs, reps=None):
    """all one-operator expressions; with `reps` (a set of atoms) only the
    binary ones in which at least one operand is a representative"""
    out = []
    for x in num:
        for op in UNARY:
            out.append(('u', op, ('a', x)))
    for op in OPS_NUM:
        for x in num:
            for y in num:
                if reps is None or x in reps or y in reps:
                    out.append(('b', op, ('a', x), ('a', y)))
    for op in OPS_STR:
        for x in strs:
            for y in strs:
                if reps is None or x in reps or y in reps:
                    out.append(('b', op, ('a', x), ('a', y)))
    return out


def representatives(atoms):
    """first atom of every (kind, leaf type / constant kind) class"""
    reps = {}
    for a in atoms:
        reps.setdefault((a[2], a[3]), a[0])
    return set(reps.values())


def two_op(num, strs):
    """all expressions with exactly two operators over the given atoms"""
    out = []
    A = [('a', x) for x in num]
    Sx = [('a', x) for x in strs]
    inner_num = [('b', op, x, y) for op in OPS_NUM for x in A for y in A] + \
        [('u', op, x) for op in UNARY for x in A]
    inner_cmp_s = [('b', op, x, y) for op in ('=', '<') for x in Sx for y in Sx]
    inner_cat = [('b', '+', x, y) for x in Sx for y in Sx]
    for i in inner_num + inner_cmp_s:
        for op in UNARY:
            out.append(('u', op, i))
        for op in OPS_NUM:
            for z in A:
                out.append(('b', op, i, z))
                out.append(('b', op, z, i))
    for i in inner_cat:
        for op in OPS_STR:
            for z in Sx:
                out.append(('b', op, i, z))
                out.append(('b', op, z, i))
    return out


# ---------------------------------------------------------------------------
# debuggees

def load_programs():
    out = []
    for fn in sorted(glob.glob(os.path.join(PROG_DIR, '*.bas'))):
        with open(fn) as f:
            src = f.read()
        script = None
        m = re.match(r"' @script (.*)\n", src)
        if m:
            script = json.loads(m.group(1))
        out.append((os.path.basename(fn)[:-4], src, script))
    return out


def printed(env):
    return ''.join(ev[1] for ev in env.events if ev[0] == 'print')


def make_debuggee(name, src, opt, script, r=None):
    """dbgdrive.Debuggee with a compile-time limit that survives a loaded machine"""
    if r is None:
        r = impl.compile_text(src, opt, True, want_listing=False, limit=600.0)
    if not r.ok:
        raise HarnessError(f'debuggee {name} does not compile at O{opt}: {r.brief()}')
    d = Debuggee.__new__(Debuggee)
    d.name, d.src, d.opt, d.script = name, src, opt, script or {}
    d.binary = r.binary
    d.module = impl.load(r.binary)
    d.di = d.module.debug_info
    d.nlines = len(src.rstrip('\n').split('\n'))
    d.horizon = 20000
    d._free = None
    return d


class Stop:
    __slots__ = ('idx', 'text', 'sid', 'depth', 'header', 'routine', 'atoms', 'arrays', 'foreign',
                 'mid', 'visit')


def walk(dbe, prog, on_stop=None, session=None):
    """step^k over the debuggee with the scope tracker alongside.
    -> (session, [Stop]) ; on_stop(session, stop) is called at every stop"""
    s = session or dbe.session()
    if s.cmd is None:
        raise HarnessError(f'debugger does not start: {s.exc}')
    tr = S.Tracker(prog)
    src = dbe.di.source_code
    stops = []
    visits = {}
    while not s.finished:
        if len(stops) >= MAX_STOPS:
            raise HarnessError(f'{dbe.name}: more than {MAX_STOPS} stops')
        st = s.stmt()
        if st is None:
            raise HarnessError(f'{dbe.name}: stop outside any statement at pc={s.cpu.pc}')
        text = src[st.source_start_offset:st.source_end_offset].strip()
        sid = dbe.sid(st)
        sp = Stop()
        sp.idx = len(stops)
        sp.text, sp.sid, sp.depth = text, sid, s.depth()
        sp.header = S.is_header(text)
        sp.routine = tr.act.routine
        sp.mid = tr.act.pending_sid is not None and tr.act.pending_sid == sid
        if sp.depth != len(tr.stack) and not sp.header:
            raise HarnessError(f'{dbe.name}: frame depth {sp.depth} but {len(tr.stack)} activations '
                               f'tracked at {text!r}')
        sp.atoms = tr.atoms()
        sp.arrays = tr.arrays_in_scope()
        sp.foreign = tr.foreign_names()
        visits[sid] = visits.get(sid, 0) + 1
        sp.visit = visits[sid]
        stops.append(sp)
        if on_stop is not None:
            on_stop(s, sp)
        tok = tr.before_step(text, sid)
        before = printed(s.env)
        r = s.do('step')
        if r.exc:
            raise HarnessError(f'{dbe.name}: step raised {r.exc} (C12 business)')
        delta = printed(s.env)[len(before):]
        if s.finished:
            break
        st2 = s.stmt()
        if st2 is None:
            raise HarnessError(f'{dbe.name}: stop outside any statement at pc={s.cpu.pc}')
        tr.after_step(tok, s.depth(), src[st2.source_start_offset:st2.source_end_offset].strip(),
                      dbe.sid(st2), delta)
    return s, stops


# ---------------------------------------------------------------------------
# the probe variant

def build_variant(prog, probes):
    """probes: routine name -> [expr text] ; -> (source, {(routine, text): line})"""
    lines = list(prog.lines)
    first_routine_line = min([r.first for r in prog.routines.values() if r.kind != 'main'] or
                             [len(lines) + 1])
    # insertion points, handled from the bottom so that line numbers stay valid
    ins = []
    for r in prog.routines.values():
        if r.kind == 'main':
            at = first_routine_line            # insert before this 1-based line
            head = 'END'
        else:
            at = r.last
            head = 'EXIT SUB' if r.kind == 'sub' else 'EXIT FUNCTION'
        ins.append((at, r.name, head))
    where = {}
    for at, rname, head in sorted(ins, reverse=True):
        block = [head] + ['PRINT ' + t for t in probes.get(rname, [])]
        lines[at - 1:at - 1] = block
    # line numbers after all insertions
    off = 0
    for at, rname, head in sorted(ins):
        base = at + off          # line of `head`
        for k, t in enumerate(probes.get(rname, [])):
            where[(rname, t)] = base + 1 + k
        off += 1 + len(probes.get(rname, []))
    return '\n'.join(lines) + '\n', where


class Oracle:
    """runs single probe statements on forks of a stopped machine"""

    def __init__(self, dbe, where):
        self.dbe = dbe
        self.code = dbe.module.code
        self.range = {}
        by_line = {}
        for st in dbe.di.stmts:
            if st.end_offset > st.start_offset:
                by_line.setdefault(st.source_start_line, []).append(st)
        for key, ln in where.items():
            sts = by_line.get(ln)
            if not sts or len(sts) != 1:
                raise HarnessError(f'probe line {ln} {key} has {len(sts or [])} statement records')
            self.range[key] = (sts[0].start_offset, sts[0].end_offset)
        self.fork = None
        self.ticks = 0

    def at(self, machine):
        self.machine = machine
        self.fork = None

    def value(self, key):
        """('val', (type, v)) | ('trap', name) | ('escaped', pc)"""
        start, end = self.range[key]
        if self.fork is None:
            self.fork = impl.fork_machine(self.machine)
            self.view = None
        cpu = self.fork.cpu
        cpu.pc = start
        code = self.code
        items = None
        n = 0
        with impl.quiet():
            while not cpu.halted and start <= cpu.pc < end and n < 5000:
                pc = cpu.pc
                if code[pc] == impl._IO_OPCODE and code[pc + 1] == 2 and code[pc + 2] == 2:
                    items = impl.print_items_at(cpu)
                cpu.tick()
                n += 1
        self.ticks += n
        if cpu.halted:
            t = cpu.last_trap
            self.fork = None
            return ('trap', t.name if t is not None else 'halt')
        if cpu.pc != end or not items or len(items) != 1 or not isinstance(items[0], tuple):
            self.fork = None
            return ('escaped', cpu.pc)
        return ('val', items[0])


# ---------------------------------------------------------------------------
# judging one `print`

def parse_number(t):
    try:
        return int(t)
    except ValueError:
        pass
    try:
        return float(t)
    except ValueError:
        return None


def looks_like_error(t):
    tl = t.strip().lower()
    return bool(tl) and parse_number(tl) is None and 'error' in tl


def compare(out, exp):
    """exp: (type, v) ; -> None if the debugger's output is that value, else divergence"""
    t = out[:-1] if out.endswith('\n') else out
    typ, v = exp
    if typ == 'STRING':
        if t == v:
            return None
        return 'error-instead-of-value' if looks_like_error(t) else 'wrong-value'
    x = parse_number(t.strip())
    if x is None:
        return 'error-instead-of-value' if looks_like_error(t) else 'not-a-number'
    if x == v:
        return None
    if typ == 'SINGLE' and isinstance(x, float):
        try:
            if V.to_single(x) == v:
                return 'not-rounded-to-single'
        except V.QBError:
            pass
    return 'wrong-value'


class Judge:
    def __init__(self, cfg, tier, stats, viol, log=None):
        self.cfg = cfg
        self.tier = tier
        self.stats = stats
        self.viol = viol
        self.log = log

    def v(self, family, divergence, sp, expr, expected, observed, size, **feat):
        name, src, script, opt = self.cfg
        f = {'family': family, 'divergence': divergence,
             'scope': sp.routine.kind if sp is not None else 'finished'}
        f.update(feat)
        case = {'program': name, 'opt': opt, 'src': src, 'script': script,
                'stop': sp.idx if sp is not None else None,
                'stmt': sp.text if sp is not None else None, 'expr': expr, 'tier': self.tier,
                'routine': sp.routine.name if sp is not None else None}
        self.viol.append((f, case, expected, observed, size))
        if self.log is not None:
            self.log.append(f'   VIOLATION {divergence}: expected {expected!r} observed {observed!r}')

    def run_print(self, s, expr, canon0, ev0):
        """-> Step ; reports crash / state change ; returns (step, ok)"""
        r = s.do('print ' + expr)
        self.stats['evaluations'] += 1
        return r


def kinds_of(e, kind_of):
    return sorted({kind_of.get(a, '?') for a in eatoms(e)})


def ltypes_of(e, vals):
    return [vals[a].type if a in vals else '?' for a in eatoms(e)]


# ---------------------------------------------------------------------------
# one configuration

def class_key(e, info):
    """validation class of a one-operator expression: operator + per operand
    its leaf type (variables) or its own name (constants)"""
    return (e[1],) + tuple(info[a][3] for a in eatoms(e))


def plan_probes(prog, stops, tier, only_expr=None):
    """which expression texts get a probe statement, per routine
    -> ({routine: [text]}, {routine: {text: class key}})"""
    per = {}
    keys = {}
    atoms = {}
    for sp in stops:
        if sp.header:
            continue
        d = atoms.setdefault(sp.routine.name, {})
        for a in sp.atoms:
            d.setdefault(a[0], a)
    for rname, d in atoms.items():
        lst = list(d)                      # atoms first, in order of appearance
        kk = keys.setdefault(rname, {})
        num = [a for a in d if d[a][1] == S.NUM]
        strs = [a for a in d if d[a][1] == S.STR]
        seen = set()
        for e in one_op(num, strs):
            k = class_key(e, d)
            if not PROBE_ALL_ONE_OP and k in seen:
                # quick: one probe statement per class (the first expression of it)
                continue
            seen.add(k)
            lst.append(etext(e))
            kk[etext(e)] = k
        if only_expr is not None and only_expr not in lst:
            lst.append(only_expr)
        per[rname] = lst
    return per, keys


def compile_variant(name, prog, probes, opt, script):
    """the probe variant; probe statements the compiler rejects are dropped
    (the program cannot evaluate them: nothing is prescribed for them)
    -> (Debuggee, where, {routine: set(dropped texts)})"""
    dropped = {}
    probes = {k: list(v) for k, v in probes.items()}
    for _ in range(400):
        vsrc, where = build_variant(prog, probes)
        r = impl.compile_text(vsrc, opt, True, want_listing=False, limit=600.0)
        if r.ok:
            return make_debuggee(name + '+probes', vsrc, opt, script, r), where, dropped
        if r.kind not in ('compile', 'syntax') or r.loc is None:
            raise HarnessError(f'probe variant of {name}: {r.brief()}')
        ln = vsrc[:r.loc].count('\n') + 1
        hit = [k for k, l in where.items() if l == ln]
        if not hit:
            raise HarnessError(f'probe variant of {name}: {r.brief()} at line {ln}, not a probe statement')
        rname, text = hit[0]
        if '(' not in text and ' ' not in text and '.' not in text and False:
            raise HarnessError(f'atom probe {text} rejected: {r.brief()}')
        probes[rname].remove(text)
        dropped.setdefault(rname, {})[text] = r.brief()
    raise HarnessError('too many rejected probe statements')


def check_config(cfg, tier, only=None, log=None):
    """-> (violations, stats).  only = (stop index or None, expr text or None):
    judge just that cell (replay)."""
    name, src, script, opt = cfg
    stats = {'evaluations': 0, 'stops': 0, 'stops_header': 0, 'stops_mid': 0, 'cells_value': 0,
             'cells_skipped_trap': 0, 'cells_consequential': 0, 'cells_program_rejects': 0, 'cells_error_expected': 0, 'cells_beyond': 0,
             'oracle_program': 0, 'oracle_ref': 0, 'oracle_both': 0, 'oracle_ticks': 0,
             'classes': {}, 'kinds': {}, 'distinct': set(), 'states': 0, 'finished_cells': 0,
             'after_block_cells': 0}
    viol = []
    J = Judge(cfg, tier, stats, viol, log)
    prog = S.Program(src)
    # ---- pass 1: the unmodified program: scopes at every stop
    plain = make_debuggee(name, src, opt, script)
    s_plain, stops_plain = walk(plain, prog)
    # the shape of the probe variant without any probe statement (its END /
    # EXIT SUB / EXIT FUNCTION lines are executed instead of falling off the
    # end / END SUB / END FUNCTION: same states, one statement text differs)
    src0, _ = build_variant(prog, {})
    s0, stops = walk(make_debuggee(name + '+0', src0, opt, script), prog)
    if printed(s0.env) != printed(s_plain.env):
        raise HarnessError(f'{name}: the variant prints differently')
    only_stop, only_expr = only or (None, None)
    probes, keys = plan_probes(prog, stops, tier, only_expr)
    dbe, where, dropped = compile_variant(name, prog, probes, opt, script)
    # classes of expressions the compiler rejects: nothing prescribed
    rejected = {rn: {keys[rn][t] for t in d if t in keys.get(rn, {})} for rn, d in dropped.items()}
    for rn, d in dropped.items():
        for t, why in d.items():
            if t not in keys.get(rn, {}) and t != only_expr:
                raise HarnessError(f'{name}: the compiler rejects the atom probe PRINT {t}: {why}')
    stats['probes_rejected_by_compiler'] = sum(len(d) for d in dropped.values())
    oracle = Oracle(dbe, where)
    fnames = [r.name for r in prog.routines.values() if r.kind == 'function']
    first_visit = set()

    def on_stop(s, sp):
        ref = stops[sp.idx] if sp.idx < len(stops) else None
        if ref is None or ref.text != sp.text or ref.depth != sp.depth:
            raise HarnessError(f'{name}: the probe variant stops differently at stop {sp.idx}: '
                               f'{sp.text!r} vs {ref.text if ref else None!r}')
        stats['stops'] += 1
        if only_stop is not None and sp.idx != only_stop:
            return
        judge_stop(J, s, sp, prog, oracle, tier, only_expr, fnames, first_visit, rejected)

    s_var, stops2 = walk(dbe, prog, on_stop)
    if len(stops2) != len(stops):
        raise HarnessError(f'{name}: {len(stops)} stops in the program, {len(stops2)} in its probe variant')
    if printed(s_var.env) != printed(s_plain.env):
        raise HarnessError(f'{name}: the probe variant prints differently')
    stats['oracle_ticks'] = oracle.ticks
    # ---- after the program has finished (both programs: END and falling off the end)
    if only_stop is None or only_stop == -1:
        main_atoms = [a for a in (stops[-1].atoms if stops else []) if stops[-1].routine.kind == 'main']
        exprs = [a[0] for a in main_atoms] + UNKNOWN[:3]
        num = [a[0] for a in main_atoms if a[1] == S.NUM]
        if num:
            exprs += [f'{num[0]} + {num[-1]}', f'-{num[0]}']
        for which, s in (('plain', s_plain), ('probe-variant', s_var)):
            if not s.finished:
                raise HarnessError('not finished')
            for e in exprs:
                if only_expr is not None and e != only_expr:
                    continue
                c0 = s.canon()
                ev0 = len(s.env.events)
                r = s.do('print ' + e)
                stats['evaluations'] += 1
                stats['finished_cells'] += 1
                if log is not None:
                    log.append(f'(finished, {which}, ended by {s.end_kind()}) print {e} -> {r.out!r} exc={r.exc}')
                bump(stats, 'finished:' + ('exception' if r.exc else 'returns'))
                if r.exc:
                    J.v('finished', 'host-exception', None, e, 'the command returns',
                        {'exc': r.exc, 'where': r.where, 'ended_by': s.end_kind()}, 0,
                        exc=r.exc.split(':')[0], ended_by=s.end_kind())
                elif s.canon() != c0 or len(s.env.events) != ev0:
                    J.v('finished', 'state-changed', None, e, 'state unchanged', {'out': r.out}, 0)
    stats['states'] = stats['stops']
    return viol, stats


def is_special(expr):
    return False


def bump(stats, key, n=1):
    stats['classes'][key] = stats['classes'].get(key, 0) + n


def judge_stop(J, s, sp, prog, oracle, tier, only_expr, fnames, first_visit, rejected):
    stats = J.stats
    log = J.log
    rname = sp.routine.name
    atoms = sp.atoms
    kind_of = {a[0]: a[2] for a in atoms}
    info = {a[0]: a for a in atoms}
    decl_of = {a[0]: a[4] for a in atoms}
    for a in atoms:
        stats['kinds'][a[2]] = stats['kinds'].get(a[2], 0) + 1
    oracle.at(s.machine)
    only_atoms = set(re.findall(r'[A-Za-z][A-Za-z0-9]*[%&!#$]?(?:\([^()]*\))?(?:\.[A-Za-z0-9.]+)?', only_expr)) if only_expr else None
    canon0 = s.canon()
    ev0 = len(s.env.events)
    if log is not None:
        log.append(f'--- stop {sp.idx}: {sp.text!r} depth={sp.depth} routine={rname} '
                   f'{"HEADER " if sp.header else ""}{"MID " if sp.mid else ""}'
                   f'atoms={[a[0] for a in atoms]}')

    def do(expr):
        r = s.do('print ' + expr)
        stats['evaluations'] += 1
        return r

    def sane(r, expr, family, size, **feat):
        """crash / state change ; True if the output may be judged further"""
        if r.exc:
            J.v(family, 'host-exception', sp, expr, 'the command returns (a value or an error text)',
                {'exc': r.exc, 'where': r.where}, size, exc=r.exc.split(':')[0], **feat)
            return False
        if s.canon() != canon0 or len(s.env.events) != ev0:
            J.v(family, 'state-changed', sp, expr, 'machine state and device trace unchanged',
                {'out': r.out[:100]}, size, **feat)
            return False
        return True

    if sp.header:
        stats['stops_header'] += 1
    if sp.mid:
        stats['stops_mid'] += 1
    # ---- atom values the program obtains here
    vals = {}
    if not sp.header:
        for a in atoms:
            key = (rname, a[0])
            got = oracle.value(key)
            if got[0] != 'val':
                raise HarnessError(f'{J.cfg[0]} stop {sp.idx}: probe of assigned atom {a[0]} -> {got}')
            vals[a[0]] = V.Val(got[1][0], got[1][1])
    # ---- expressions of this stop
    num = [a[0] for a in atoms if a[1] == S.NUM]
    strs = [a[0] for a in atoms if a[1] == S.STR]
    exprs = [('a', a[0]) for a in atoms]
    if not sp.header:
        exprs += one_op(num, strs, None if tier == 'thorough' else representatives(atoms))
        if tier == 'thorough' and sp.sid not in first_visit:
            # two operators: over one representative atom per leaf type
            reps = {}
            for a in atoms:
                reps.setdefault(vals[a[0]].type, a[0])
            rn = [x for t, x in reps.items() if t != 'STRING'][:E2_NUM_REPS]
            rs = [x for t, x in reps.items() if t == 'STRING'][:1]
            exprs += two_op(rn, rs)
        first_visit.add(sp.sid)
        # elements through a variable subscript
        ints = [a[0] for a in atoms if a[2].endswith('scalar') and vals[a[0]].type in ('INTEGER', 'LONG')]
        arrs = sorted({a[0].split('(')[0] for a in atoms if re.fullmatch(r'[^(]+\(-?\d+\)[^()]*', a[0])})
    bad_atoms = {}
    for e in exprs:
        txt = etext(e)
        if only_expr is not None and txt != only_expr and not (e[0] == 'a' and only_atoms and txt in only_atoms):
            continue
        nops = eops(e)
        size = nops * 1000 + sp.idx
        feat = {'ops': nops, 'opset': sorted(set(eoplist(e))), 'kinds': kinds_of(e, kind_of),
                'decl': sorted({decl_of.get(a, '?') for a in eatoms(e)})}
        r = do(txt)
        tainted = nops > 0 and any(a in bad_atoms for a in eatoms(e))
        if sp.header:
            # the callee's frame does not exist yet: what is visible is open
            stats['cells_beyond'] += 1
            sane(r, txt, 'header-stop', size, **feat)
            continue
        feat['ltypes'] = sorted(set(ltypes_of(e, vals)))
        if tainted:
            # an operand is already reported as an atom at this stop: only survival is judged
            stats['cells_consequential'] += 1
            if log is not None:
                log.append(f'(qdb) print {txt}  -> {r.out!r} exc={r.exc} | an operand is already reported at '
                           f'this stop: only "does not crash" is judged')
            if r.exc and 'host-exception' not in [bad_atoms[a] for a in eatoms(e) if a in bad_atoms]:
                sane(r, txt, 'value', size, operand_already_reported=True, **feat)
            continue
        if nops and rejected.get(rname) and any(
                class_key(sub, info) in rejected[rname] for sub in subexprs(e)):
            # the compiler rejects this (sub)expression in the program itself
            stats['cells_program_rejects'] += 1
            sane(r, txt, 'value', size, **feat)
            continue
        # expected value
        key = (rname, txt)
        exp_p = oracle.value(key) if key in oracle.range else None
        exp_r = ref_eval(e, vals)
        if exp_p is not None:
            stats['oracle_both'] += 1
            same = (exp_p[0] == 'val' and isinstance(exp_r, V.Val) and
                    exp_p[1][0] == exp_r.type and exp_p[1][1] == exp_r.v) or \
                (exp_p[0] == 'trap' and isinstance(exp_r, tuple))
            if not same:
                J.v('self-check', 'ref-vs-program', sp, txt, repr(exp_r), list(exp_p), size,
                    op=e[1] if e[0] != 'a' else None, ltypes=feat['ltypes'])
            stats['oracle_program'] += 1
            exp = exp_p
        else:
            stats['oracle_ref'] += 1
            exp = ('val', (exp_r.type, exp_r.v)) if isinstance(exp_r, V.Val) else ('trap', exp_r[1])
        if log is not None:
            log.append(f'(qdb) print {txt}  -> {r.out!r} exc={r.exc} | program: {exp} '
                       f'[{"probe statement" if exp_p is not None else "reference arithmetic on probed atoms"}]')
        if not sane(r, txt, 'value', size, **feat):
            bump(stats, 'value:crash-or-change')
            if nops == 0:
                bad_atoms[txt] = 'host-exception'
            continue
        if exp[0] != 'val':
            stats['cells_skipped_trap'] += 1
            bump(stats, 'program-traps:' + ('error-text' if looks_like_error(r.out) else 'value'))
            continue
        stats['cells_value'] += 1
        div = compare(r.out, exp[1])
        stats['distinct'].add((exp[1][0], repr(exp[1][1])))
        bump(stats, 'value:' + (div or 'agree'))
        if div:
            if nops == 0:
                bad_atoms[txt] = div
            J.v('value', div, sp, txt, {'type': exp[1][0], 'value': exp[1][1]},
                {'debugger_printed': r.out[:200]}, size, rtype=exp[1][0], **feat)
    # ---- elements through a variable subscript: name(k) where k is an integral scalar atom
    if not sp.header:
        for arr in arrs:
            for k in ints:
                if k.split('(')[0] == arr:
                    continue
                for sfx in sorted({a[0][a[0].index(')') + 1:] for a in atoms if a[0].startswith(arr + '(')}):
                    txt = f'{arr}({k}){sfx}'
                    if only_expr is not None and txt != only_expr:
                        continue
                    target = f'{arr}({vals[k].v}){sfx}'
                    r = do(txt)
                    feat = {'ops': 0, 'opset': ['subscript-variable'], 'kinds': sorted({kind_of.get(target, 'unassigned'), kind_of[k]}),
                            'decl': sorted({decl_of.get(target, '?'), decl_of[k]})}
                    if target in bad_atoms or k in bad_atoms:
                        stats['cells_consequential'] += 1
                        continue
                    if log is not None:
                        log.append(f'(qdb) print {txt}  -> {r.out!r} exc={r.exc} | program: '
                                   f'{vals.get(target)} [the probed atom {target}]')
                    if not sane(r, txt, 'value', sp.idx, **feat):
                        continue
                    if target not in vals:
                        stats['cells_skipped_trap'] += 1
                        continue
                    stats['cells_value'] += 1
                    stats['oracle_ref'] += 1
                    div = compare(r.out, (vals[target].type, vals[target].v))
                    bump(stats, 'value-varsub:' + (div or 'agree'))
                    if div:
                        J.v('value', div, sp, txt, {'type': vals[target].type, 'value': vals[target].v},
                            {'debugger_printed': r.out[:200]}, sp.idx, rtype=vals[target].type, **feat)
    if only_expr is not None and sp.header:
        return
    # ---- names that mean nothing here, subscripts beyond the bounds
    bad = [(u, 'unknown-name') for u in UNKNOWN] + [(n, 'name-of-another-scope') for n in sp.foreign]
    if not sp.header:
        for n, bounds, typ in sp.arrays:
            lows = [str(lb) for lb, ub in bounds]
            for d, (lb, ub) in enumerate(bounds):
                for x in (lb - 1, ub + 1):
                    sub = list(lows)
                    sub[d] = str(x)
                    leaf = prog.leaf_paths(typ)[0][0]
                    bad.append((f'{n}({", ".join(sub)}){leaf}', 'subscript-out-of-range'))
            bad.append((f'{n}({", ".join(lows + [lows[0]])})', 'wrong-number-of-subscripts'))
    for txt, why in bad:
        if only_expr is not None and txt != only_expr:
            continue
        r = do(txt)
        stats['cells_error_expected'] += 1
        if log is not None:
            log.append(f'(qdb) print {txt}  -> {r.out!r} exc={r.exc} | expected: an error text ({why})')
        fam = 'error' if not sp.header else 'header-stop'
        if not sane(r, txt, fam, sp.idx, why=why):
            bump(stats, 'error:crash-or-change')
            continue
        if sp.header:
            continue
        t = r.out.strip()
        ok = bool(t) and parse_number(t) is None and len(r.out.strip().split('\n')) == 1
        bump(stats, f'error:{why}:' + ('error-text' if ok else 'value'))
        if not ok:
            J.v('error', 'value-instead-of-error', sp, txt, 'an error text and no value',
                {'debugger_printed': r.out[:200]}, sp.idx, why=why)
    # ---- things the evaluator need not understand: it must only survive them
    anynum = num[0] if num else '1'
    for pat in BEYOND:
        if '{fn}' in pat and not fnames:
            continue
        txt = pat.replace('{num}', anynum).replace('{fn}', fnames[0] if fnames else '')
        if only_expr is not None and txt != only_expr:
            continue
        r = do(txt)
        stats['cells_beyond'] += 1
        if log is not None:
            log.append(f'(qdb) print {txt}  -> {r.out!r} exc={r.exc} | expected: anything but a crash')
        bump(stats, 'beyond:' + ('exception' if r.exc else 'returns'))
        sane(r, txt, 'beyond', sp.idx, pattern=pat)


# ---------------------------------------------------------------------------
# workers / run / replay

def worker(chunk, tier):
    impl.parse_cache(True)
    expr_cache(True)
    viol = []
    stats = {}
    for cfg in chunk:
        try:
            v, st = check_config(cfg, tier)
        except (HarnessError, S.Unsupported) as e:
            raise HarnessError(f'{cfg[0]} O{cfg[3]}: {e}')
        viol.extend(v)
        st['per_config'] = {f'{cfg[0]}/O{cfg[3]}': {'stops': st['stops'], 'evaluations': st['evaluations']}}
        merge(stats, st)
    return viol, stats


def merge(a, b):
    for k, v in b.items():
        if isinstance(v, dict):
            d = a.setdefault(k, {})
            for kk, vv in v.items():
                if isinstance(vv, (int, float)):
                    d[kk] = d.get(kk, 0) + vv
                else:
                    d[kk] = vv
        elif isinstance(v, set):
            a.setdefault(k, set()).update(v)
        else:
            a[k] = a.get(k, 0) + v


def expr_cache(on=True):
    """memoise the parse of `print`'s argument (the debugger re-parses the
    text with the compiler's expression grammar on every command: 3-15 ms);
    same technique as impl.parse_cache, off in replays"""
    try:
        import qbee.grammar as g
        real = getattr(g, 'expr', None)
        if real is None or not hasattr(real, 'parse_string'):
            return False
        if on and not isinstance(real, impl._LineRuleProxy):
            g.expr = impl._LineRuleProxy(real)
        elif not on and isinstance(real, impl._LineRuleProxy):
            g.expr = real.real
        return True
    except Exception:
        return False


def run(chk):
    progs = load_programs()
    only = os.environ.get('C13_PROGS')
    if only:
        progs = [p for p in progs if any(p[0].startswith(x) for x in only.split(','))]
        chk.cov['exhaustive'] = False
    cfgs = [(n, s, sc, o) for n, s, sc in progs for o in OPTS]
    differ = 0
    for n, s, sc in progs:
        r0 = impl.compile_text(s, 0, True, want_listing=False)
        r2 = impl.compile_text(s, 2, True, want_listing=False)
        if r0.ok and r2.ok and impl.split_sections(r0.binary)[4] != impl.split_sections(r2.binary)[4]:
            differ += 1
    for viol, st in chk.pmap(worker, cfgs, extra=(chk.tier,), chunk=2):
        chk.add_violations(viol)
        chk.merge_stats(st)
    cov = chk.cov
    classes = cov.get('classes', {})
    cov['distinct_nontrivial'] = cov.get('distinct', 0) if isinstance(cov.get('distinct'), int) else \
        len(cov.get('_sets', {}).get('distinct', ()))
    cov['transitions'] = max(cov.get('stops', 0), 1)
    cov['states'] = max(cov.get('states', 0), 1)
    cov['traces_validated_against_impl'] = max(cov.get('oracle_both', 0), 1)
    cov['distinct_outcomes'] = len(classes)
    need = ['value:agree', 'error:unknown-name:error-text', 'error:subscript-out-of-range:error-text',
            'error:name-of-another-scope:error-text', 'finished:returns']
    kinds_need = ['main-scalar', 'main-elem', 'main-field', 'main-elemfield', 'param-scalar', 'local-scalar',
                  'static-scalar', 'shared-scalar', 'shared-elem', 'localconst', 'globalconst']
    if not only and not chk.only:
        missing = [n for n in need if not any(k.startswith(n) for k in classes)] + \
            [k for k in kinds_need if not cov.get('kinds', {}).get(k)]
        if missing:
            chk.add_violations([({'family': 'self-check', 'divergence': 'vacuous', 'missing': missing},
                                 {}, 'every mechanism exercised', missing, 0)])
    chk.sample({'program': cfgs[0][0], 'opt': 0, 'stop': 3, 'command': 'print i% + l&'})
    chk.sample({'program': cfgs[-1][0], 'opt': 2, 'stop': 'every stop of step^k', 'command': 'print <atom>'})
    chk.assumptions = [
        'debuggees: the programs of programs/eval, each compiled -g at O0 and O2; stop points: every stop of '
        'step^k until the program finishes (at most %d)' % MAX_STOPS,
        'visible+assigned names at a stop come from qv.c13_scope (reference model of scoping fed with the '
        'executed statements); only assigned atoms are prescribed',
        'the value the program obtains = typed operand of a PRINT <expr> statement standing in dead code of the '
        'same routine, executed on a fork of the stopped machine (pc moved to that statement); the variant '
        'prints exactly what the unmodified program prints',
        'expressions without a probe statement: reference arithmetic (qv.ref.values) on the probed atom values; '
        'cross-checked against the program wherever both exist',
        'cells where the program traps, SUB/FUNCTION header stops, unassigned names: only "no crash, no change"',
        'numeric agreement = the number the debugger prints equals the program\'s typed value (21.0 = 21); '
        'strings must be printed exactly',
    ]
    chk.finish(
        rule=('evaluations = `print` commands issued to the real debugger; distinct_nontrivial = distinct typed '
              'values the program obtained for judged expressions; states = stops of step^k; '
              'traces_validated_against_impl = expressions whose reference value was cross-checked against the '
              'program\'s own probe statement'),
        extra_cov={'families': {
            'value': {'expressions': 'atoms; one operator: unary {- NOT} x atom, {+ - * / \\ MOD = < AND OR} x '
                                     'ordered pairs of numeric atoms, {+ = <} x ordered pairs of string atoms'
                                     + (('; two operators over one representative atom per leaf type (at most '
                                         '%d numeric, 1 string), at the first visit of every statement'
                                         % E2_NUM_REPS) if chk.tier == 'thorough' else ''),
                      'probe_statements': 'all atoms + ' + ('all one-operator expressions' if PROBE_ALL_ONE_OP
                                                            else 'one expression per (operator, leaf-type pair)')},
            'error': {'names': UNKNOWN, 'plus': 'names of other scopes; one below / above each bound of every '
                                               'static array in scope; one subscript too many'},
            'beyond': {'patterns': BEYOND},
            'finished': 'atoms of main, unknown names, one binary, one unary; on the unmodified program and '
                        'on the probe variant'},
            'configs': ['O0g', 'O2g'], 'program_names': [p[0] for p in progs],
            'programs_whose_O0_and_O2_code_differ': differ})


def replay(rec):
    case = rec['case']
    cfg = (case['program'], case['src'], case.get('script'), case['opt'])
    log = []
    stop = case['stop'] if case.get('stop') is not None else -1
    print(f"--- program {case['program']} O{case['opt']} -g ; stop {stop} ; print {case['expr']}")
    print(case['src'])
    viol, stats = check_config(cfg, case.get('tier', 'quick'), only=(stop, case['expr']), log=log)
    for l in log:
        print(l)
    want = rec.get('features', {}).get('divergence')
    rc = 1 if any(want is None or v[0]['divergence'] == want for v in viol) else 0
    print('STILL VIOLATES' if rc else 'no violation on replay')
    return rc
