"""C08 - debug information does not change what a program does.

Differential: every program of the block-shape family (qv.blockshapes) and of
the repository corpus is compiled with and without -g at O0, O1, O2; verdicts,
sections 1-3 and the behaviour under one scripted environment must agree."""
from .. import impl, corpus
from .. import blockshapes as bs
from .. import c08_fams as xf

LEVEL = 'exploration'
HORIZON = 60000
CHUNK = {'ws': 40, 'onerror': 40, 'constdecl': 40, 'longexpr': 1}


class _ResumeSeen:
    """monitor: did the run execute errres / errresn, or arm ON ERROR RESUME NEXT ?"""

    def __init__(self, code):
        self.code = code
        self.seen = False

    def pre(self, cpu):
        pc = cpu.pc
        if 0 <= pc < len(self.code):
            op = impl.op_at(self.code, pc)
            if op in ('errres', 'errresn'):
                self.seen = True
            elif op == 'errhand' and int.from_bytes(self.code[pc + 1:pc + 5], 'big') == 1:
                # ON ERROR RESUME NEXT: the VM performs errresn itself on a trap
                self.seen = True

    def post(self, cpu):
        pass


def _run(binary, script, on_empty, monitor=False, horizon=HORIZON):
    mod = impl.load(binary)
    env = impl.Env(script, on_empty=on_empty)
    mon = _ResumeSeen(mod.code) if monitor else None
    out, _ = impl.run_module(mod, env, horizon=horizon, monitor=mon)
    return out, (mon.seen if mon else None)


def _obs(out):
    return {'end': out.end, 'trap': out.trap, 'exc': out.exc,
            'events': impl.jsonable(out.events)[-12:], 'n_events': len(out.events)}


def judge(src, script=None, on_empty=None, opts=(0, 1, 2)):
    """-> (list of (divergence, opt, expected, observed), info dict)"""
    bad = []
    info = {'accepted': False, 'code_differs': [], 'ran': 0, 'exempt': 0,
            'horizon': 0, 'outcomes': set(), 'rejected': False}
    for o in opts:
        rn = impl.compile_text(src, o, False, want_listing=False)
        rg = impl.compile_text(src, o, True, want_listing=False)
        if rn.verdict() != rg.verdict():
            bad.append(('verdict', o, rn.brief(), rg.brief()))
            continue
        if not rn.ok:
            info['rejected'] = True
            info['outcomes'].add(('reject', rn.kind, rn.err_code))
            continue
        info['accepted'] = True
        sn = impl.split_sections(rn.binary)
        sg = impl.split_sections(rg.binary)
        for sec in (1, 2, 3):
            if sn.get(sec) != sg.get(sec):
                bad.append((f'section{sec}', o, (sn.get(sec) or b'').hex()[:80],
                            (sg.get(sec) or b'').hex()[:80]))
        if sn.get(4) != sg.get(4):
            info['code_differs'].append(o)
        try:
            on, _ = _run(rn.binary, script, on_empty)
            og, _ = _run(rg.binary, script, on_empty)
        except ValueError as e:      # the loader rejected a module
            bad.append(('load', o, 'both modules load', str(e)[:200]))
            continue
        if (on.end == 'horizon') != (og.end == 'horizon'):
            # tick counts may differ where the code differs: decide with room
            on, _ = _run(rn.binary, script, on_empty, horizon=HORIZON * 8)
            og, _ = _run(rg.binary, script, on_empty, horizon=HORIZON * 8)
        info['ran'] += 1
        if on.end == 'horizon' and og.end == 'horizon':
            info['horizon'] += 1
            continue
        same = (on.events == og.events and on.end == og.end and on.trap == og.trap
                and on.exc == og.exc)
        info['outcomes'].add((on.end, on.trap))
        if same:
            continue
        # exemption: programs that execute RESUME / RESUME NEXT
        _, r1 = _run(rn.binary, script, on_empty, monitor=True, horizon=HORIZON * 8)
        _, r2 = _run(rg.binary, script, on_empty, monitor=True, horizon=HORIZON * 8)
        if r1 or r2:
            info['exempt'] += 1
            continue
        if on.events != og.events:
            div = 'trace'
        else:
            div = 'outcome'
        bad.append((div, o, _obs(on), _obs(og)))
    return bad, info


def _feat_of(fam, feat, div, opts):
    f = {'family': fam, 'divergence': div,
         'opt': ','.join(f'O{o}' for o in sorted(opts))}
    for k in ('construct', 'style', 'cond'):
        if k in feat:
            f[k] = feat[k]
    if fam in XFAMS:
        f.update({k: v for k, v in feat.items() if k not in ('where', 'stmt')})
    if 'outer' in feat:
        f['cond'] = feat['outer'].get('cond', '-')
        f['inner_cond'] = feat['inner'].get('cond', '-')
    return f


XFAMS = ('ws', 'onerror', 'constdecl', 'longexpr')


def eval_chunk(chunk):
    impl.parse_cache(True)
    viol = []
    st = {'evaluations': 0, 'compiles': 0, 'accepted': 0, 'rejected': 0,
          'runs': 0, 'nontrivial': 0, 'code_differs_O0': 0, 'code_differs_O1': 0,
          'code_differs_O2': 0, 'exempt_resume': 0, 'horizon': 0,
          'outcomes': set(), 'per_family': {}}
    for item in chunk:
        fam = item[0]
        if fam == 'corpus' or fam in XFAMS:
            _, src, script, feat = item
            on_empty = None
            case = {'src': src, 'script': script, 'on_empty': None, 'feat': feat}
        else:
            _, shape, style, feat = item
            p = bs.render(shape, style, feat)
            src, script, on_empty = p.src, bs.SCRIPT, bs.ON_EMPTY
            case = {'src': src, 'script': script, 'on_empty': on_empty, 'feat': feat}
        bad, info = judge(src, script, on_empty)
        st['evaluations'] += 1
        st['compiles'] += 6
        st['runs'] += 2 * info['ran']
        st['per_family'][fam] = st['per_family'].get(fam, 0) + 1
        if info['accepted']:
            st['accepted'] += 1
        if info['rejected']:
            st['rejected'] += 1
        for o in info['code_differs']:
            st[f'code_differs_O{o}'] += 1
        if info['code_differs']:
            st['nontrivial'] += 1
        st['exempt_resume'] += info['exempt']
        st['horizon'] += info['horizon']
        st['outcomes'] |= {(fam,) + tuple(x) for x in info['outcomes']}
        if not bad:
            continue
        by_div = {}
        for div, o, exp, obs in bad:
            by_div.setdefault(div, []).append((o, exp, obs))
        for div, lst in by_div.items():
            f = _feat_of(fam, feat, div, [o for o, _, _ in lst])
            o, exp, obs = lst[0]
            viol.append((f, dict(case, opt=o), {'no_g': exp}, {'with_g': obs}, len(src)))
    return viol, st


def space(tier):
    fams = {}
    for fam, p in bs.programs(tier):
        fams.setdefault(fam, []).append((fam, p.shape, p.style, p.feat))
    cs = []
    for c in corpus.cases():
        cs.append(('corpus', c['src'], corpus.script_of(c),
                   {'construct': 'corpus', 'file': c['file'], 'idx': c['idx'],
                    'expected': c['expected']}))
    fams['corpus'] = cs
    fams.update(xf.programs(tier))
    return fams


def run(chk):
    fams = space(chk.tier)
    desc = {}
    for name, items in fams.items():
        if chk.only and name not in chk.only:
            chk.cov['exhaustive'] = False
            continue
        desc[name] = {'cases': len(items)}
        for viol, st in chk.pmap(eval_chunk, items, chunk=CHUNK.get(name, 60)):
            chk.add_violations(viol)
            chk.merge_stats(st)
        for it in (items[0], items[len(items) // 2], items[-1]):
            if name == 'corpus' or name in XFAMS:
                chk.sample({'family': name, 'src': it[1][:300]})
            else:
                chk.sample({'family': name, 'src': bs.render(it[1], it[2]).src[:300]})
    chk.cov['distinct_nontrivial'] = chk.cov.get('nontrivial', 0)
    nout = len(chk.cov.get('_sets', {}).get('outcomes', ()))
    chk.assumptions = [
        'programs are those of the block-shape family (nesting <= 2, bounds in coverage.families) and the corpus',
        'one scripted environment per program (TIMER answers 0,0,99999,...; corpus: its own inkey/rnd/timer lists)',
        'runs are cut at %d ticks (x8 when only one side reaches the cut); both-sides cut = no verdict' % HORIZON,
        'programs that execute errres/errresn (seen by an opcode monitor) are exempt from trace equality only',
    ]
    chk.finish(
        rule=('each program is compiled -g / no -g at O0,O1,O2 (6 compiles) and both modules are run; '
              'non-trivial = accepted program whose code section differs between -g and no -g at some level '
              '(the marker / peephole interaction); outcomes = distinct (family, end, trap) classes'),
        extra_cov={'families': desc, 'space': space_descr(chk.tier),
                   'configs': ['O%d%s' % (o, 'g' if g else '') for o, g in impl.CONFIGS],
                   'distinct_outcomes': nout})


def space_descr(tier):
    return {
        'constructs': 'block IF (0-2 ELSEIF, optional ELSE, every branch selection, variable and constant '
                      'conditions); one-line IF (THEN 1-2 statements, ELSE absent/empty/1-2 statements); '
                      'SELECT CASE (0-3 CASE, optional CASE ELSE, every selection); FOR (0/1 iterations, STEP); '
                      'WHILE; DO/LOOP, DO WHILE, DO UNTIL, LOOP WHILE, LOOP UNTIL; SUB via CALL and bare; FUNCTION',
        'bodies': 'every body independently empty or PRINT <tag> (depth1: all combinations); '
                  'leaves family: string PRINT, two statements',
        'nesting': 'depth2 = one empty body of the outer construct replaced by an inner construct; '
                   + ('outer/inner from the uniform-body set (101 shapes), executed slots only'
                      if tier == 'quick' else 'outer/inner from the edge-selection set (221 shapes), executed slots only'),
        'layouts': list(bs.STYLES),
        'jumps': [n for n, _ in bs.JUMPS],
        'fail': 'overflowing assignment first/last in every executed body of every depth-1 construct',
    }


def replay(rec):
    case = rec['case']
    src = case['src']
    print('--- source ---')
    print(src)
    bad, info = judge(src, case.get('script'), case.get('on_empty'))
    for o in (0, 1, 2):
        for g in (False, True):
            r = impl.compile_text(src, o, g)
            line = f'O{o} g={g}: {r.brief()}'
            if r.ok:
                out, _ = _run(r.binary, case.get('script'), case.get('on_empty'))
                line += f' -> {out.end} {out.trap or ""} events={impl.jsonable(out.events)[-6:]}'
            print(line)
    for b in bad:
        print('DIFFERS:', b)
    return 1 if bad else 0
